"""Task programs: small JSON trees interpreted by one module-level coroutine
that only uses the public ``get_runtime()`` handle, plus a pure-Python
reference evaluator.  Tags are unique within a program, so a value can only
have come from one call.

node kinds
  {"t":"leaf","tag":T}                      -> ["v",T]
  {"t":"log","tag":T}                       -> logs a WARNING, then ["v",T]
  {"t":"raise","tag":T}                     -> raises ValueError("boom-T")
  {"t":"seq","kids":[..],"order":[..]}      -> submit all, await in `order`; ["seq",[vals]]
  {"t":"map","kids":[..]}                   -> await map;               ["map",[vals]]
  {"t":"mapnext","kids":[..]}               -> map + next() until all;  ["mapnext",[vals],nbatches]
  {"t":"mapcancel","kids":[..],"after":b}   -> map, b x next(), cancel; ["mapcancel",[[i,val]..]]
  {"t":"subcancel","kid":K,"wait":bool}     -> submit, cancel, (await -> RuntimeError); ["subcancel", "raised"|"skipped"]
  {"t":"forget","kids":[..]}                -> submit all, return without awaiting (completion cancels them); ["forget", n]
"""
from __future__ import annotations

import logging

EXEC_LOG: list = []       # (tag, worker_id) appended when a body starts
PROTO_ERRORS: list = []   # protocol violations observed inside task bodies
NOTES: list = []          # allowed but noteworthy observations (labels)
CLOCK = [0]               # simulator time (number of actions so far)

_logger = logging.getLogger('vtprog')


def reset() -> None:
    EXEC_LOG.clear()
    PROTO_ERRORS.clear()
    NOTES.clear()


async def run_node(spec):
    from bqskit.runtime import get_runtime
    rt = get_runtime()
    t = spec['t']
    at = rt._active_task
    EXEC_LOG.append((
        spec.get('tag', spec.get('id')), rt._id, CLOCK[0],
        (tuple(at.return_address),) + tuple(tuple(b) for b in at.breadcrumbs),
    ))
    if t == 'leaf':
        return ['v', spec['tag']]
    if t == 'log':
        _logger.warning('log-%s', spec['tag'])
        return ['v', spec['tag']]
    if t == 'raise':
        raise ValueError(f'boom-{spec["tag"]}')
    if t == 'seq':
        futs = [rt.submit(run_node, k) for k in spec['kids']]
        vals = [None] * len(futs)
        for i in spec['order']:
            vals[i] = await futs[i]
        return ['seq', vals]
    if t == 'map':
        vals = await rt.map(run_node, spec['kids'])
        return ['map', list(vals)]
    if t == 'mapnext':
        n = len(spec['kids'])
        fut = rt.map(run_node, spec['kids'])
        seen = {}
        nb = 0
        while len(seen) < n:
            batch = await rt.next(fut)
            nb += 1
            if len(batch) == 0:
                NOTES.append(('empty_next_batch', spec['id']))
            for i, v in batch:
                if i in seen:
                    PROTO_ERRORS.append(('duplicate_next_slot', spec['id'], i))
                seen[i] = v
            if nb > 4 * n + 4:
                PROTO_ERRORS.append(('next_never_completes', spec['id']))
                break
        return ['mapnext', [seen.get(i) for i in range(n)], nb]
    if t == 'mapcancel':
        n = len(spec['kids'])
        fut = rt.map(run_node, spec['kids'])
        seen = {}
        for _ in range(spec['after']):
            if len(seen) >= n:
                break
            batch = await rt.next(fut)
            for i, v in batch:
                if i in seen:
                    PROTO_ERRORS.append(('duplicate_next_slot', spec['id'], i))
                seen[i] = v
        rt.cancel(fut)
        EXEC_LOG.append(('cancelled:' + spec['id'], rt._id, CLOCK[0], ()))
        return ['mapcancel', sorted([i, v] for i, v in seen.items())]
    if t == 'forget':
        # submit children and return WITHOUT awaiting them: completing the
        # task cancels its unfinished children
        for k in spec['kids']:
            rt.submit(run_node, k)
        EXEC_LOG.append(('cancelled:' + spec['id'], rt._id, CLOCK[0], ()))
        return ['forget', len(spec['kids'])]
    if t == 'subcancel':
        fut = rt.submit(run_node, spec['kid'])
        rt.cancel(fut)
        EXEC_LOG.append(('cancelled:' + spec['id'], rt._id, CLOCK[0], ()))
        if spec['wait']:
            # documented to fail: the worker reports a RuntimeError for the
            # compilation instead of resuming this task
            v = await fut
            PROTO_ERRORS.append(('await_cancelled_returned', spec['id'],
                                 repr(v)[:80]))
            return ['subcancel', 'value']
        return ['subcancel', 'skipped']
    raise ValueError(f'unknown node {t}')


# ------------------------------------------------------------- reference side
def leaves(spec, under_cancel=False, acc=None):
    """[(tag_or_id, kind, cancellable)] for every node body."""
    acc = [] if acc is None else acc
    t = spec['t']
    acc.append((spec.get('tag', spec.get('id')), t, under_cancel))
    if t in ('seq', 'map', 'mapnext'):
        for k in spec['kids']:
            leaves(k, under_cancel, acc)
    elif t in ('mapcancel', 'forget'):
        for k in spec['kids']:
            leaves(k, True, acc)
    elif t == 'subcancel':
        leaves(spec['kid'], True, acc)
    return acc


def first_error(spec):
    """Tag of a 'raise' node that must reach the client, or None.  With
    several raise nodes any of them may arrive first."""
    out = [tag for tag, kind, canc in leaves(spec) if kind == 'raise'
           and not canc]
    return out


def has_kind(spec, kinds) -> bool:
    return any(k in kinds for _, k, _ in leaves(spec))


def expected(spec):
    """Reference value; for mapcancel the value is schedule dependent and is
    returned as a predicate marker ('mapcancel', kids_values)."""
    t = spec['t']
    if t in ('leaf', 'log'):
        return ['v', spec['tag']]
    if t == 'seq':
        return ['seq', [expected(k) for k in spec['kids']]]
    if t == 'map':
        return ['map', [expected(k) for k in spec['kids']]]
    if t == 'mapnext':
        return ['mapnext', [expected(k) for k in spec['kids']], None]
    if t == 'mapcancel':
        return ['mapcancel', [expected(k) for k in spec['kids']]]
    if t == 'subcancel':
        return ['subcancel', 'raised' if spec['wait'] else 'skipped']
    if t == 'forget':
        return ['forget', len(spec['kids'])]
    return None


def value_matches(exp, got):
    """None if ``got`` is an allowed value for reference ``exp``."""
    if exp is None:
        return None
    if not isinstance(got, list) or not got or got[0] != exp[0]:
        return f'kind {got!r:.80} vs {exp[0]}'
    k = exp[0]
    if k == 'v':
        return None if got == exp else f'{got} vs {exp}'
    if k in ('seq', 'map'):
        if len(got[1]) != len(exp[1]):
            return f'{k} length {len(got[1])} vs {len(exp[1])}'
        for i, (e, g) in enumerate(zip(exp[1], got[1])):
            d = value_matches(e, g)
            if d:
                return f'{k}[{i}]: {d}'
        return None
    if k == 'mapnext':
        for i, (e, g) in enumerate(zip(exp[1], got[1])):
            d = value_matches(e, g)
            if d:
                return f'mapnext[{i}]: {d}'
        return None if len(got[1]) == len(exp[1]) else 'mapnext length'
    if k == 'mapcancel':
        seen = got[1]
        idx = [i for i, _ in seen]
        if len(idx) != len(set(idx)):
            return 'mapcancel duplicate slots'
        for i, v in seen:
            if not (0 <= i < len(exp[1])):
                return f'mapcancel slot {i} out of range'
            d = value_matches(exp[1][i], v)
            if d:
                return f'mapcancel[{i}]: {d}'
        return None
    if k in ('subcancel', 'forget'):
        return None if got == exp else f'{got} vs {exp}'
    return f'unknown kind {k}'
