"""Deterministic in-process simulation of the BQSKit runtime.

Real objects (Worker, DetachedServer/AttachedServer, Manager, Compiler), fake
world: in-memory FIFO channels of pickled messages, every blocking primitive
turned into a scheduler point, one atomic action at a time chosen by a
pre-drawn list of integers.  See DESIGN.md 3.5.

Atomic actions
  ('recv', node_name, link)   deliver the head of a channel (or EOF) to a node
  ('step', worker_name)       one iteration of a worker's main loop
Client calls are made by the test script; a real ``Compiler`` object blocked
in ``recv`` pumps the simulation until a message for it exists.
"""
from __future__ import annotations

import collections
import logging
import pickle
import sys
from contextlib import contextmanager
from queue import Empty

import bqskit.compiler.compiler as cmod
import bqskit.runtime.base as bmod
import bqskit.runtime.detached as dmod
import bqskit.runtime.manager as mmod
import bqskit.runtime.worker as wmod
from bqskit.runtime.attached import AttachedServer
from bqskit.runtime.base import RuntimeEmployee
from bqskit.runtime.base import ServerBase
from bqskit.runtime.detached import DetachedServer
from bqskit.runtime.direction import MessageDirection as D
from bqskit.runtime.manager import Manager
from bqskit.runtime.message import RuntimeMessage as M
from bqskit.runtime.worker import Worker

del dmod, mmod
from vt.simrt import programs as _progs  # noqa: E402


class SimSignal(BaseException):
    """Base of the control-flow signals of the simulator (never caught by the
    repository's ``except Exception`` clauses)."""


class Yield(SimSignal):
    pass


class WouldBlock(SimSignal):
    pass


class StopLoop(SimSignal):
    pass


class ProcessExit(SimSignal):
    pass


class LockBusy(SimSignal):
    pass


class Abandon(SimSignal):
    """The drawn interleaving cannot be continued faithfully by the
    single-threaded simulator (a thread would block at a point that cannot
    be re-entered); the case is inconclusive."""


class Hang(SimSignal):
    """A client is blocked and the system is quiescent."""


class StepBound(SimSignal):
    pass


CURRENT = [None]          # the worker whose main step is running
wmod.get_worker = lambda: CURRENT[0]   # noqa: E731


# ------------------------------------------------------------------ channels
class Chan:
    """One direction of a duplex link."""

    def __init__(self, name):
        self.name = name
        self.q = collections.deque()
        self.writer_closed = False   # no more data will ever be written
        self.reader_dead = False     # nobody will ever read
        self.eof_delivered = False
        self.sent = 0


class FakeConn:
    def __init__(self, sim, out: Chan, inn: Chan, owner: str, peer: str):
        self.sim = sim
        self.out, self.inn = out, inn
        self.owner, self.peer = owner, peer
        self.closed = False
        self._deliver = None     # worker mode: one scheduled message
        self.client_mode = False

    # -- writing
    def send(self, obj):
        if self.closed:
            raise OSError('handle is closed')
        if self.out.reader_dead:
            mode = self.sim.send_fail_mode
            if mode == 'reset':
                raise ConnectionResetError('peer is gone')
            if mode == 'pipe':
                raise BrokenPipeError('peer is gone')
            return      # silently buffered, never read
        data = pickle.dumps(obj)
        self.out.q.append(data)
        self.out.sent += 1
        self.sim.on_send(self, obj)

    # -- reading
    def recv(self):
        if self.client_mode:
            return self.sim.client_recv(self)
        if self._deliver is not None:
            kind, data = self._deliver
            self._deliver = None
            if kind == 'eof':
                raise EOFError()
            return pickle.loads(data)
        raise StopLoop()

    def poll(self, timeout=0):
        if self.closed:
            raise OSError('handle is closed')
        return len(self.inn.q) > 0 or (
            self.inn.writer_closed and not self.inn.eof_delivered
        )

    def close(self):
        if self.closed:
            return
        self.closed = True
        self.out.writer_closed = True
        self.inn.reader_dead = True

    def fileno(self):
        return -1

    def __hash__(self):
        return id(self)

    def __eq__(self, other):
        return self is other


class SimQueue:
    """Replaces Worker._ready_task_ids: non-blocking, budgeted."""

    def __init__(self):
        self.q = collections.deque()
        self.budget = 0
        self.parked = False

    def put(self, x):
        self.q.append(x)

    def empty(self):
        if self.budget <= 0:
            raise Yield()
        return len(self.q) == 0

    def get_nowait(self):
        if not self.q:
            raise Empty()
        self.budget -= 1
        return self.q.popleft()

    def get(self):
        self.parked = True
        raise WouldBlock()

    def qsize(self):
        return len(self.q)


class OutQueue:
    def __init__(self):
        self.q = collections.deque()

    def put(self, x):
        self.q.append(x)

    def get(self):
        if not self.q:
            raise StopLoop()
        return self.q.popleft()

    def task_done(self):
        pass


class StubThread:
    def __init__(self, *a, **k):
        self.daemon = True

    def start(self):
        pass

    def is_alive(self):
        return False

    def join(self, *a):
        pass


class FakeSel:
    """Selector that yields exactly one scheduled event per ``run()`` call."""

    def __init__(self, node):
        self.node = node
        self.event = None

    def register(self, *a):
        pass

    def unregister(self, *a):
        pass

    def close(self):
        pass

    def select(self, timeout=None):
        if self.event is not None:
            ev, self.event = self.event, None
            return [ev]
        # end of this single step: neutralise run()'s `finally` once
        self.node.__dict__['handle_shutdown'] = lambda: None
        raise StopLoop()


class _Key:
    def __init__(self, fileobj, data):
        self.fileobj, self.data = fileobj, data


class CoopLock:
    """read_receipt_mutex replacement: only one thread exists, so a busy lock
    means 'the other thread would block here'."""

    def __init__(self):
        self.held = False

    def acquire(self):
        if self.held:
            raise LockBusy()
        self.held = True

    def release(self):
        self.held = False

    def __enter__(self):
        self.acquire()
        return self

    def __exit__(self, *a):
        self.release()
        return False

    def locked(self):
        return self.held


class FakeOs:
    """os replacement inside runtime.worker: kill() ends the simulated worker
    process."""

    def __init__(self, real):
        self._real = real

    def getpid(self):
        return 4242

    def kill(self, pid, sig):
        raise ProcessExit()

    def __getattr__(self, k):
        return getattr(self._real, k)


class FakeTime:
    def __init__(self, real):
        self._real = real

    def sleep(self, s):
        pass

    def __getattr__(self, k):
        return getattr(self._real, k)


@contextmanager
def patched(mod, **kw):
    old = {k: getattr(mod, k) for k in kw}
    for k, v in kw.items():
        setattr(mod, k, v)
    try:
        yield
    finally:
        for k, v in old.items():
            setattr(mod, k, v)


# ---------------------------------------------------------------------- Sim
class Sim:
    """topology: {'workers': W} or {'managers': [w1, w2, ...]} (workers per
    manager); attached=True builds an AttachedServer (single client, any
    disconnect = shutdown)."""

    def __init__(self, topology, schedule, attached=False, nclients=1,
                 send_fail_mode='silent', max_actions=20000, policy=None,
                 rseed=0):
        # the scheduler's own random choices (assign_tasks) are pinned so
        # that a run is a pure function of its arguments
        import random as _random
        _random.seed(rseed)
        self.policy = policy
        self.schedule = list(schedule) or [0]
        self.sched_i = 0
        self.send_fail_mode = send_fail_mode
        self.max_actions = max_actions
        self.nactions = 0
        self.trace: list = []         # action log
        self.msg_log: list = []       # (sender, receiver, msg name, payload summary)
        self.task_msgs_delivered: dict = collections.Counter()
        self.waiting_snaps: dict = collections.defaultdict(collections.deque)
        self.dead: set = set()
        self.nodes: dict = {}         # name -> object
        self.links: dict = {}         # (a, b) -> FakeConn owned by a towards b
        self.workers: dict = {}
        self.managers: dict = {}
        self.inject = None            # line-level plan for the next steps
        # reverse plans: run a main-thread step at a source line of the
        # incoming handler of a worker's n-th message
        self.rinject = None
        self.worker_recvs: dict = collections.Counter()
        self.recv_info: list = []     # (worker, n-th message, name)
        self.worker_steps = collections.Counter()
        self.line_events = 0
        self.hooks: list = []         # callables(sim, action) after each action
        self.boss_of: dict = {}
        self.cancel_handled: list = []   # (time, worker, address)
        self.step_info: list = []     # (worker, step no, pending inbound msgs)
        self._old_factory = logging.getLogRecordFactory()
        self._patches = [
            patched(wmod, os=FakeOs(wmod.os), Thread=StubThread),
            patched(bmod, Thread=StubThread, time=FakeTime(bmod.time)),
            patched(cmod, time=FakeTime(cmod.time)),
        ]
        for p in self._patches:
            p.__enter__()
        import signal as _signal
        self._sigpatch = patched(_signal, signal=lambda *a: None)
        self._sigpatch.__enter__()
        try:
            self._build(topology, attached, nclients)
        finally:
            self._sigpatch.__exit__(None, None, None)

    # -- construction
    def close(self):
        # close coroutines of tasks still held by (dead or hung) workers so
        # that they are not finalised at interpreter exit
        for w in self.workers.values():
            for t in list(w._tasks.values()):
                try:
                    if t.coro is not None:
                        t.coro.close()
                except BaseException:
                    pass
        for p in reversed(self._patches):
            p.__exit__(None, None, None)
        self._patches = []
        logging.setLogRecordFactory(self._old_factory)
        CURRENT[0] = None

    def link(self, a, b):
        ab, ba = Chan(f'{a}->{b}'), Chan(f'{b}->{a}')
        ca = FakeConn(self, ab, ba, a, b)
        cb = FakeConn(self, ba, ab, b, a)
        self.links[(a, b)] = ca
        self.links[(b, a)] = cb
        return ca, cb

    def _new_server_base(self, cls):
        node = cls.__new__(cls)
        ServerBase.__init__(node)
        try:
            node.terminate_hotline.close()
            for key in list(node.sel.get_map().values()):
                key.fileobj.close()
            node.sel.close()
        except Exception:
            pass
        node.sel = FakeSel(node)
        node.outgoing = OutQueue()
        return node

    def _add_worker(self, boss_name, wid):
        name = f'W{wid}'
        bc, wc = self.link(boss_name, name)
        w = Worker(wid, wc)
        w._ready_task_ids = SimQueue()
        # every mutex of the worker becomes cooperative (only one thread
        # exists; a busy lock means "the other thread would block here")
        import threading
        lock_type = type(threading.Lock())
        for attr, val in list(vars(w).items()):
            if isinstance(val, lock_type):
                setattr(w, attr, CoopLock())
        self.workers[name] = w
        self.nodes[name] = w
        data = wc.out.q.popleft()          # boss consumes STARTED
        assert pickle.loads(data) == (M.STARTED, wid)
        return bc

    def _build(self, topology, attached, nclients):
        cls = AttachedServer if attached else DetachedServer
        s = self._new_server_base(cls)
        s.clients = {}
        s.tasks = {}
        s.mailbox_to_task_dict = {}
        s.mailboxes = {}
        s.mailbox_counter = 0
        self.server = s
        self.nodes['S'] = s
        if 'workers' in topology:
            nw = topology['workers']
            for i in range(nw):
                wid = s.lower_id_bound + i
                bc = self._add_worker('S', wid)
                e = RuntimeEmployee(wid, bc, 1)
                s.employees.append(e)
                s.conn_to_employee_dict[bc] = e
            s.step_size = 1
            s.total_workers = nw
            s.num_idle_workers = nw
        else:
            counts = topology['managers']
            d = len(counts)
            s.step_size = (s.upper_id_bound - s.lower_id_bound) // d
            s.total_workers = 0
            for i, nw in enumerate(counts):
                lb = s.lower_id_bound + i * s.step_size
                ub = min(s.lower_id_bound + (i + 1) * s.step_size,
                         s.upper_id_bound)
                mname = f'M{i}'
                sc, mc = self.link('S', mname)
                mg = self._new_server_base(Manager)
                mg.upstream = mc
                mg.lower_id_bound, mg.upper_id_bound = lb, ub
                for j in range(nw):
                    wid = lb + j
                    bc = self._add_worker(mname, wid)
                    e = RuntimeEmployee(wid, bc, 1)
                    mg.employees.append(e)
                    mg.conn_to_employee_dict[bc] = e
                mg.step_size = 1
                mg.total_workers = nw
                mg.num_idle_workers = nw
                mg.last_num_idle_sent_up = nw
                mg.most_recent_read_submit = None
                self.managers[mname] = mg
                self.nodes[mname] = mg
                e = RuntimeEmployee(i, sc, nw, is_manager=True)
                s.employees.append(e)
                s.conn_to_employee_dict[sc] = e
                s.total_workers += nw
            s.num_idle_workers = s.total_workers
        self.clients = []
        for k in range(nclients):
            sc, cc = self.link('S', f'C{k}')
            cc.client_mode = True
            s.clients[sc] = set()
            self.clients.append(cc)
            self.nodes[f'C{k}'] = cc

    # -- bookkeeping
    def on_send(self, conn, obj):
        try:
            msg, payload = obj
            name = msg.name
        except Exception:
            name, payload = '?', None
        self.msg_log.append((conn.owner, conn.peer, name, payload))
        if name == 'WAITING' and conn.owner in self.workers:
            # ground truth for the boss's idle belief: how many task messages
            # this worker had taken in when it declared itself idle
            self.waiting_snaps[conn.owner].append(
                self.task_msgs_delivered[conn.owner])

    def alive(self, name):
        return name not in self.dead

    # -- enabled actions
    def actions(self):
        acts = []
        for (a, b), conn in self.links.items():
            if a.startswith('C'):
                continue           # clients read synchronously
            if not self.alive(a) or conn.closed:
                continue
            ch = conn.inn
            if ch.q:
                acts.append(('recv', a, b))
            elif ch.writer_closed and not ch.eof_delivered:
                acts.append(('recv', a, b))
        for name, w in self.workers.items():
            if not self.alive(name):
                continue
            # a worker whose _running flag was cleared without the process
            # being killed still has a main thread: blocked for ever if it
            # waits on an empty queue, otherwise it finishes its step and
            # leaves the loop (the process then ends, see _worker_step)
            q = w._ready_task_ids
            if not q.parked or q.q or w._delayed_tasks:
                acts.append(('step', name))
        return acts

    def pick(self, acts):
        i = self.schedule[self.sched_i % len(self.schedule)]
        self.sched_i += 1
        if self.policy == 'lazy_recv':
            # messages to workers are delivered only when nothing else can
            # happen, so they pile up in front of the incoming thread
            pref = [a for a in acts
                    if not (a[0] == 'recv' and a[1] in self.workers)]
            acts = pref or acts
        elif self.policy == 'eager_recv':
            pref = [a for a in acts
                    if a[0] == 'recv' and a[1] in self.workers]
            acts = pref or acts
        return acts[i % len(acts)]

    # -- execution
    def flush(self, node):
        if getattr(node, '_vt_outgoing_dead', False):
            return
        try:
            node.send_outgoing()
        except StopLoop:
            pass
        except Exception:
            # an exception send_outgoing does not handle (e.g. BrokenPipeError)
            # ends the real outgoing thread: nothing is sent any more
            node._vt_outgoing_dead = True
            self.trace.append(('outgoing-thread-died', self._name_of(node)))

    def _name_of(self, node):
        for k, v in self.nodes.items():
            if v is node:
                return k
        return '?'

    def kill(self, name):
        """Crash a node: its links close (buffered data stays deliverable and
        is followed by EOF); nothing it holds is processed any more."""
        if name in self.dead:
            return
        self.dead.add(name)
        for (a, b), conn in self.links.items():
            if a == name:
                conn.closed = True
                conn.out.writer_closed = True
                conn.inn.reader_dead = True
                conn.inn.q.clear()
        if name in self.workers:
            self.workers[name]._running = False

    def do(self, act):
        self.nactions += 1
        if self.nactions > self.max_actions:
            raise StepBound()
        self.trace.append(act)
        _progs.CLOCK[0] = len(self.trace)
        if act[0] == 'recv':
            _, a, b = act
            conn = self.links[(a, b)]
            ch = conn.inn
            if ch.q:
                item = ('msg', ch.q.popleft())
            else:
                ch.eof_delivered = True
                item = ('eof', None)
            if a in self.workers:
                self._worker_recv(a, conn, item)
            else:
                self._node_recv(a, conn, item, b)
        else:
            self._worker_step(act[1])
        for h in self.hooks:
            h(self, act)

    def _worker_recv(self, name, conn, item):
        w = self.workers[name]
        if item[0] == 'msg':
            try:
                mobj = pickle.loads(item[1])
                mname = mobj[0].name
            except Exception:
                mname, mobj = '?', None
            self.trace[-1] = self.trace[-1] + (mname,)
            if mname == 'CANCEL':
                self.cancel_handled.append(
                    (len(self.trace), name, tuple(mobj[1])),
                )
        conn._deliver = item
        n_cancel = len(self.cancel_handled)
        self.worker_recvs[name] += 1
        self.recv_info.append((name, self.worker_recvs[name],
                               mname if item[0] == 'msg' else 'EOF'))
        rplan = None
        if self.rinject and item[0] == 'msg':
            for pl in self.rinject:
                if pl['worker'] == name and \
                        pl['recv'] == self.worker_recvs[name]:
                    rplan = pl
                    self.rinject.remove(pl)
                    break
        try:
            if rplan is None:
                w.recv_incoming()
            else:
                self._traced_recv(w, name, rplan)
        except StopLoop:
            pass
        except ProcessExit:
            self.trace[-1] = self.trace[-1] + ('exit',)
            self.kill(name)
            return
        except LockBusy:
            # incoming thread would block on the mutex held by the main
            # thread: the message stays undelivered
            conn._deliver = None
            conn.inn.q.appendleft(item[1])
            self.trace[-1] = self.trace[-1] + ('lock-busy',)
            if item[0] == 'msg' and mname == 'CANCEL':
                del self.cancel_handled[n_cancel - 1:]
            return
        if item[0] == 'msg' and mname in ('SUBMIT', 'SUBMIT_BATCH'):
            self.task_msgs_delivered[name] += 1

    def _node_recv(self, name, conn, item, peer):
        node = self.nodes[name]
        if item[0] == 'msg':
            try:
                mname = pickle.loads(item[1])[0].name
            except Exception:
                mname = '?'
            self.trace[-1] = self.trace[-1] + (mname,)
        else:
            self.trace[-1] = self.trace[-1] + ('EOF',)
        if not node.running:
            return
        if peer.startswith('C'):
            direction = D.CLIENT
        elif node is not self.server and conn is node.upstream:
            direction = D.ABOVE
        else:
            direction = D.BELOW
        conn._deliver = item
        node.sel.event = (_Key(conn, direction), None)
        try:
            node.run()
        except StopLoop:
            pass
        finally:
            node.__dict__.pop('handle_shutdown', None)
            conn._deliver = None
        self.flush(node)

    def _worker_step(self, name):
        w = self.workers[name]
        q = w._ready_task_ids
        q.budget = 1
        q.parked = False
        CURRENT[0] = w
        self.worker_steps[name] += 1
        boss = self.boss_of[name] if name in self.boss_of else None
        if boss is None:
            boss = [b for (a, b) in self.links if a == name][0]
            self.boss_of[name] = boss
        self.step_info.append(
            (name, self.worker_steps[name],
             len(self.links[(name, boss)].inn.q)),
        )
        plan = None
        if self.inject:
            for pl in self.inject:
                if pl['worker'] == name and \
                        pl['step'] == self.worker_steps[name]:
                    plan = pl
                    self.inject.remove(pl)
                    break
        try:
            if plan is None:
                w._loop()
            else:
                self._traced_step(w, name, plan)
            # _loop returned: the main thread left the event loop and the
            # worker process ends
            self.kill(name)
        except (Yield, WouldBlock):
            pass
        except ProcessExit:
            self.kill(name)
        finally:
            CURRENT[0] = None

    # -- line-level pre-emption of a worker's main step
    def _traced_step(self, w, name, plan):
        target = plan['line']
        k = plan['k']
        count = [0]
        fired = [False]
        wfile = wmod.__file__
        sim = self

        def tracer(frame, event, arg):
            if frame.f_code.co_filename != wfile:
                return None
            if event == 'line':
                if not fired[0] and count[0] == target:
                    fired[0] = True
                    sys.settrace(None)
                    try:
                        sim._inject_incoming(name, k, frame)
                    finally:
                        sys.settrace(tracer)
                count[0] += 1
            return tracer

        sys.settrace(tracer)
        try:
            w._loop()
        finally:
            sys.settrace(None)
            self.line_events = count[0]
            self.trace.append(('inject', name, plan['line'], fired[0],
                               count[0]))

    # -- line-level pre-emption of a worker's incoming handler by its main
    #    thread
    def _traced_recv(self, w, name, plan):
        target = plan['line']
        count = [0]
        fired = [False]
        wfile = wmod.__file__
        sim = self

        def tracer(frame, event, arg):
            if frame.f_code.co_filename != wfile:
                return None
            if event == 'line':
                if not fired[0] and count[0] == target:
                    fired[0] = True
                    sys.settrace(None)
                    try:
                        sim._inject_main(name, frame)
                    finally:
                        sys.settrace(tracer)
                count[0] += 1
            return tracer

        sys.settrace(tracer)
        try:
            w.recv_incoming()
        finally:
            sys.settrace(None)
            self.trace.append(('rinject', name, plan['line'], fired[0],
                               count[0]))

    def _inject_main(self, name, frame):
        """Run one main-thread step of worker ``name`` right now (its
        incoming thread is suspended at ``frame``)."""
        w = self.workers[name]
        q = w._ready_task_ids
        if not (not q.parked or q.q or w._delayed_tasks):
            return           # the main thread is blocked on the empty queue
        self.trace.append(('step', name, 'injected@%s:%d' % (
            frame.f_code.co_name, frame.f_lineno)))
        saved_inject, self.inject = self.inject, None
        try:
            self._worker_step(name)
        except LockBusy as e:
            # the main thread would block on a lock the incoming thread
            # holds.  Waiting for the read-receipt lock at the top of
            # _get_next_ready_task is re-entrant (nothing happened yet);
            # anywhere else the step cannot be resumed by this simulator.
            tb = e.__traceback__
            inner = None
            while tb is not None:
                if tb.tb_frame.f_code.co_filename == wmod.__file__:
                    inner = tb.tb_frame.f_code.co_name
                tb = tb.tb_next
            if inner != '_get_next_ready_task':
                raise Abandon() from None
            self.trace[-1] = self.trace[-1] + ('lock-busy',)
        finally:
            self.inject = saved_inject

    def _inject_incoming(self, name, k, frame):
        """Run the incoming thread for up to k pending messages of worker
        ``name`` right now (the main thread is suspended at ``frame``)."""
        w = self.workers[name]
        boss = [b for (a, b) in self.links if a == name][0]
        conn = self.links[(name, boss)]
        saved = CURRENT[0]
        for _ in range(k):
            if not conn.inn.q:
                break
            item = ('msg', conn.inn.q.popleft())
            self.trace.append(('recv', name, boss, 'injected@%s:%d' % (
                frame.f_code.co_name, frame.f_lineno)))
            self._worker_recv(name, conn, item)
            if not self.alive(name):
                break
        CURRENT[0] = saved
        del w

    # -- running
    def quiescent(self):
        return not self.actions()

    def run_until(self, pred, bound=None):
        """Run scheduled actions until pred() or quiescence.  Returns True if
        pred() became true."""
        n = 0
        while not pred():
            acts = self.actions()
            if not acts:
                return False
            self.do(self.pick(acts))
            n += 1
            if bound is not None and n > bound:
                raise StepBound()
        return True

    def drain(self):
        self.run_until(lambda: False)

    def run_n(self, n):
        """Run at most n scheduled actions."""
        for _ in range(n):
            acts = self.actions()
            if not acts:
                return
            self.do(self.pick(acts))

    def client_recv(self, conn):
        """Blocking recv of a client: pump the system."""
        ch = conn.inn
        ok = self.run_until(lambda: bool(ch.q) or ch.writer_closed)
        if ch.q:
            return pickle.loads(ch.q.popleft())
        if ch.writer_closed:
            ch.eof_delivered = True
            raise EOFError()
        del ok
        raise Hang()

    # -- real Compiler object on a simulated connection
    def compiler(self, k=0):
        from bqskit.compiler.compiler import Compiler
        c = Compiler.__new__(Compiler)
        c.p = None
        c.conn = self.clients[k]
        return c


def make_root_task(spec, request_data=True):
    """A CompilationTask whose workflow runs the program ``spec``."""
    from bqskit.compiler.task import CompilationTask
    from bqskit.ir.circuit import Circuit
    from vt.simrt.progpass import ProgPass
    task = CompilationTask(Circuit(1), [ProgPass(spec)])
    task.request_data = request_data
    return task
