"""Scripted passes, predicates and comparison functions used by C11.

Everything here must be importable (passes are pickled/dilled when they are
shipped to the simulated workers).  The passes do exactly what their *action
spec* (a small JSON dict) says; the reference interpreter in
``vt/props/c11.py`` implements the same specs over an abstract state.

Action specs
  {"a": "identity"}
  {"a": "record"}                       append the leaf id to data['trace']
  {"a": "probe"}                        snapshot what the pass sees into data['vt_seen']
  {"a": "rewrite", "q": Q, "k": K, "g": G}
        insert a 1-qudit gate and its inverse on qudit Q % width right after
        the K-th operation touching that qudit (K = 0: before everything;
        fewer than K such operations: at the end)
  {"a": "shrink"}                       drop every operation tagged PLANT
  {"a": "grow", "k": K}                 append K inverse pairs (1- and 2-qudit;
        a 2-qudit pair needs two qudits of equal radix, else a 1-qudit pair)
  {"a": "perturb", "theta": T, "q": Q}  rotate qudit Q % width by T and
        account for the known distance in data.error (update_error_mul)
  {"a": "fail"}                         raise ScriptedFailure('vt-fail:<id>')
  {"a": "setmap", "fields": [...], "k": K, "x": X}
        change the listed PassData fields deterministically

Per-block behaviour: a ``Scripted`` pass running inside a ForEachBlockPass body
looks its action up under the documented pass-down keys
(``ForEachBlockPass.pass_down_block_specific_key_prefix + 'vt'`` first, then
``ForEachBlockPass.pass_down_key_prefix + 'vt'``) and falls back to the spec it
was constructed with.  Scripted predicates pop their verdicts from the same
places (``data['vt']`` outside of blocks).
"""
from __future__ import annotations

import math

import numpy as np
from bqskit.compiler.basepass import BasePass
from bqskit.ir.circuit import Circuit
from bqskit.ir.operation import Operation
from bqskit.passes.control.foreach import ForEachBlockPass
from bqskit.passes.control.predicate import PassPredicate

PD = ForEachBlockPass.pass_down_key_prefix + 'vt'
PDS = ForEachBlockPass.pass_down_block_specific_key_prefix + 'vt'
TOP = 'vt'
PLANT = 'vt-plant'

# global execution log: the simulator runs every worker in this process
LOG: list = []


class ScriptedFailure(ValueError):
    pass


# ------------------------------------------------------------------ vocabulary
def pair1(radix: int, g: int) -> list:
    """[(gate, params), (gate, params)]: a 1-qudit gate and its inverse."""
    import bqskit.ir.gates as G
    if radix == 2:
        g = g % 3
        if g == 0:
            return [(G.HGate(), []), (G.HGate(), [])]
        if g == 1:
            return [(G.SGate(), []), (G.SdgGate(), [])]
        return [(G.RZGate(), [0.37]), (G.RZGate(), [-0.37])]
    if g % 2 == 0:
        s = G.ShiftGate(radix)
    else:
        s = G.ClockGate(radix)
    return [(s, []), (G.DaggerGate(s), [])]


def pair2(radix: int) -> list:
    import bqskit.ir.gates as G
    if radix == 2:
        return [(G.CXGate(), []), (G.CXGate(), [])]
    c = G.CSUMGate(radix)
    return [(c, []), (G.DaggerGate(c), [])]


def perturb_gate(radix: int, theta: float):
    """(gate, params, distance from the identity in the repo's metric)."""
    import bqskit.ir.gates as G
    if radix == 2:
        return G.RZGate(), [float(theta)], abs(math.sin(theta / 2))
    d = np.ones(radix, dtype=np.complex128)
    d[0] = np.exp(-0.5j * theta)
    d[1] = np.exp(0.5j * theta)
    f = abs(2 * math.cos(theta / 2) + (radix - 2)) / radix
    return (
        G.ConstantUnitaryGate(np.diag(d), [radix]), [],
        math.sqrt(max(0.0, 1 - f * f)),
    )


def rotate(lst: list, k: int) -> list:
    lst = list(lst)
    w = len(lst)
    if w < 2:
        return lst
    s = 1 + (k % (w - 1))
    return lst[s:] + lst[:s]


def graph_edges(m: int, k: int) -> list:
    """The coupling graph a 'setmap' with field 'model' installs."""
    if k % 2 == 0:
        return [(i, i + 1) for i in range(m - 1)]
    return [(0, i) for i in range(1, m)]


def target_matrix(dim: int, k: int) -> np.ndarray:
    return np.exp(0.1j * (k + 1)) * np.eye(dim, dtype=np.complex128)


# ------------------------------------------------------------------ lookups
def in_block(data) -> bool:
    return 'subnumbering' in data


def point_of(data):
    if 'point' in data:
        p = data['point']
        return (int(p[0]), int(p[1]))
    return None


def _tables(data, kind: str) -> list:
    out = []
    keys = (PDS, PD) if in_block(data) else (TOP,)
    for key in keys:
        if key in data:
            d = data[key]
            if isinstance(d, dict) and isinstance(d.get(kind), dict):
                out.append(d[kind])
    return out


def lookup_action(data, ident: str, default: dict) -> dict:
    if in_block(data):
        for t in _tables(data, 'act'):
            if ident in t:
                return t[ident]
    return default


# ------------------------------------------------------------------ actions
def _rebuild(circuit: Circuit, ops: list) -> None:
    new = Circuit(circuit.num_qudits, circuit.radixes)
    for op in ops:
        new.append(op)
    circuit.become(new)


def _is_plant(gate) -> bool:
    from bqskit.ir.gates import TaggedGate
    return isinstance(gate, TaggedGate) and gate.tag == PLANT


def apply_action(spec: dict, ident: str, circuit: Circuit, data) -> None:
    a = spec['a']
    LOG.append((ident, point_of(data)))
    w = circuit.num_qudits
    rad = circuit.radixes
    if a == 'identity':
        return
    if a == 'record':
        if 'trace' not in data:
            data['trace'] = []
        data['trace'].append(ident)
        return
    if a == 'probe':
        if 'vt_seen' not in data:
            data['vt_seen'] = []
        data['vt_seen'].append({
            'circuit': circuit.copy(), 'model': data.model,
            'seed': data.seed, 'placement': list(data.placement),
            'imap': list(data.initial_mapping),
            'fmap': list(data.final_mapping), 'error': float(data.error),
        })
        return
    if a == 'fail':
        raise ScriptedFailure(f'vt-fail:{ident}')
    if a == 'rewrite':
        q = spec['q'] % w
        k = spec['k']
        pair = [Operation(g, [q], p) for g, p in pair1(rad[q], spec['g'])]
        ops: list = []
        done = False
        seen = 0
        if k <= 0:
            ops.extend(pair)
            done = True
        for op in circuit:
            ops.append(op)
            if q in op.location:
                seen += 1
                if not done and seen == k:
                    ops.extend(pair)
                    done = True
        if not done:
            ops.extend(pair)
        _rebuild(circuit, ops)
        return
    if a == 'shrink':
        _rebuild(circuit, [op for op in circuit if not _is_plant(op.gate)])
        return
    if a == 'grow':
        ops = list(circuit)
        for j in range(spec['k']):
            a0, a1 = j % w, (j + 1) % w
            if w >= 2 and j % 2 == 1 and rad[a0] == rad[a1]:
                ops.extend(
                    Operation(g, [a0, a1], p) for g, p in pair2(rad[a0])
                )
            else:
                ops.extend(
                    Operation(g, [a0], p) for g, p in pair1(rad[a0], j)
                )
        _rebuild(circuit, ops)
        return
    if a == 'perturb':
        from bqskit.ir.gates import RZGate
        q = spec['q'] % w
        theta = float(spec['theta'])
        radix = rad[q]
        gate, params, dist = perturb_gate(radix, theta)
        ops = list(circuit)
        last = None
        for i, op in enumerate(ops):
            if q in op.location:
                last = i
        if radix == 2 and last is not None and \
                isinstance(ops[last].gate, RZGate):
            old = ops[last]
            ops[last] = Operation(
                old.gate, old.location, [float(old.params[0]) + theta],
            )
        else:
            ops.append(Operation(gate, [q], params))
        _rebuild(circuit, ops)
        data.update_error_mul(dist)
        return
    if a == 'setmap':
        from bqskit.compiler.machine import MachineModel
        from bqskit.qis.graph import CouplingGraph
        from bqskit.qis.unitary.unitarymatrix import UnitaryMatrix
        k = int(spec['k'])
        for f in spec['fields']:
            if f == 'placement':
                data.placement = rotate(data.placement, k)
            elif f == 'imap':
                data.initial_mapping = rotate(data.initial_mapping, k)
            elif f == 'fmap':
                data.final_mapping = list(reversed(data.final_mapping))
            elif f == 'error':
                data.update_error_mul(float(spec['x']))
            elif f == 'seed':
                data.seed = k
            elif f == 'user':
                data['vt_user'] = list(data.get('vt_user', [])) + [k]
            elif f == 'target':
                data.target = UnitaryMatrix(
                    target_matrix(circuit.dim, k), circuit.radixes,
                )
            elif f == 'model':
                old = data.model
                data.model = MachineModel(
                    old.num_qudits,
                    CouplingGraph(graph_edges(old.num_qudits, k),
                                  old.num_qudits),
                    old.gate_set, old.radixes,
                )
            else:
                raise RuntimeError(f'harness: unknown field {f}')
        return
    raise RuntimeError(f'harness: unknown action {a}')


# ------------------------------------------------------------------ passes
class Scripted(BasePass):
    """A leaf whose behaviour may be overridden per block through the
    documented pass-down keys."""

    def __init__(self, ident: str, spec: dict) -> None:
        self.ident = ident
        self.spec = spec

    async def run(self, circuit: Circuit, data) -> None:
        spec = lookup_action(data, self.ident, self.spec)
        apply_action(spec, self.ident, circuit, data)


class _Fixed(BasePass):
    ACTION = ''

    def __init__(self, ident: str, **kw) -> None:
        self.ident = ident
        self.spec = dict(kw, a=self.ACTION)

    async def run(self, circuit: Circuit, data) -> None:
        apply_action(self.spec, self.ident, circuit, data)


class Identity(_Fixed):
    ACTION = 'identity'


class Record(_Fixed):
    ACTION = 'record'


class Probe(_Fixed):
    ACTION = 'probe'


class EquivalentRewrite(_Fixed):
    ACTION = 'rewrite'


class Shrink(_Fixed):
    ACTION = 'shrink'


class Grow(_Fixed):
    ACTION = 'grow'


class Perturb(_Fixed):
    ACTION = 'perturb'


class Fail(_Fixed):
    ACTION = 'fail'


class SetMapping(_Fixed):
    ACTION = 'setmap'


FIXED = {
    c.ACTION: c for c in (
        Identity, Record, Probe, EquivalentRewrite, Shrink, Grow, Perturb,
        Fail, SetMapping,
    )
}


class ScriptedPredicate(PassPredicate):
    """Pops its next verdict from a list stored in the pass data; False when
    the list is exhausted or missing (so loops terminate)."""

    def __init__(self, ident: str) -> None:
        self.ident = ident

    def get_truth_value(self, circuit: Circuit, data) -> bool:
        LOG.append(('pred:' + self.ident, point_of(data)))
        for t in _tables(data, 'pred'):
            if self.ident in t:
                lst = t[self.ident]
                if lst:
                    return bool(lst.pop(0))
                return False
        return False


# ---------------------------------------------- collection filters (by op)
def cf_circuitgate(op) -> bool:
    from bqskit.ir.gates.circuitgate import CircuitGate
    return isinstance(op.gate, CircuitGate)


def cf_unitary(op) -> bool:
    from bqskit.ir.gates import ConstantUnitaryGate
    from bqskit.ir.gates import VariableUnitaryGate
    return isinstance(op.gate, (ConstantUnitaryGate, VariableUnitaryGate))


def cf_wide(op) -> bool:
    return op.num_qudits >= 2


def cf_narrow(op) -> bool:
    return op.num_qudits == 1


def cf_even(op) -> bool:
    return op.location[0] % 2 == 0


def cf_odd(op) -> bool:
    return op.location[0] % 2 == 1


def cf_all(op) -> bool:
    return True


def cf_none(op) -> bool:
    return False


COLLECTION = {
    'default': None, 'circuitgate': cf_circuitgate, 'unitary': cf_unitary,
    'wide': cf_wide, 'narrow': cf_narrow, 'even': cf_even, 'odd': cf_odd,
    'all': cf_all, 'none': cf_none,
}


# ------------------------------------------------- replace filters (callables)
def _old_count(op) -> int:
    from bqskit.ir.gates.circuitgate import CircuitGate
    if isinstance(op.gate, CircuitGate):
        return op.gate._circuit.num_operations
    return 1


def rf_never(new, op) -> bool:
    return False


def rf_always(new, op) -> bool:
    return True


def rf_not_longer(new, op) -> bool:
    return new.num_operations <= _old_count(op)


def rf_longer(new, op) -> bool:
    return new.num_operations > _old_count(op)


def rf_even(new, op) -> bool:
    return op.location[0] % 2 == 0


REPLACE_FN = {
    'fn:never': rf_never, 'fn:always': rf_always,
    'fn:not-longer': rf_not_longer, 'fn:longer': rf_longer,
    'fn:even': rf_even,
}


# --------------------------------------------------- DoThenDecide conditions
def dtd_accept(old, new) -> bool:
    return True


def dtd_reject(old, new) -> bool:
    return False


def dtd_fewer(old, new) -> bool:
    return new.num_operations < old.num_operations


def dtd_not_more(old, new) -> bool:
    return new.num_operations <= old.num_operations


def dtd_more(old, new) -> bool:
    return new.num_operations > old.num_operations


DTD = {
    'accept': dtd_accept, 'reject': dtd_reject, 'fewer': dtd_fewer,
    'not-more': dtd_not_more, 'more': dtd_more,
}


# ------------------------------------------------------ ParallelDo orderings
def lt_fewer(a, b) -> bool:
    return a.num_operations < b.num_operations


def lt_more(a, b) -> bool:
    return a.num_operations > b.num_operations


def lt_never(a, b) -> bool:
    return False


LESS = {'fewer': lt_fewer, 'more': lt_more, 'never': lt_never}
