"""A pass whose body is a task program (see programs.py)."""
from __future__ import annotations

from bqskit.compiler.basepass import BasePass

from vt.simrt.programs import run_node


class ProgPass(BasePass):
    def __init__(self, spec) -> None:
        self.spec = spec

    async def run(self, circuit, data) -> None:
        data['res'] = await run_node(self.spec)
