"""CLI: /venv/bin/python -m vt.run <ID> --tier quick|thorough [--replay F]

Exit 0: property held on everything explored (known findings are printed as
KNOWN-FINDING lines).  Exit 1 + ``VIOLATION property=<id> replay=<path>``: a
violation that known_findings.json does not list.  Exit 2: harness error.
"""
from __future__ import annotations

import argparse
import importlib
import json
import multiprocessing as mp
import os
import sys
import time
import traceback

from vt import core
from vt import evidence
from vt import findings


def _reexec_with_hashseed() -> None:
    if os.environ.get('PYTHONHASHSEED') != '0' or \
            os.environ.get('OMP_NUM_THREADS') != '1':
        env = dict(
            os.environ, PYTHONHASHSEED='0', OMP_NUM_THREADS='1',
            OPENBLAS_NUM_THREADS='1', MKL_NUM_THREADS='1',
            RAYON_NUM_THREADS='1', NUMEXPR_NUM_THREADS='1',
        )
        os.execve(sys.executable, [sys.executable, '-m', 'vt.run'] + sys.argv[1:], env)


def _check_repo_import() -> None:
    import warnings
    warnings.filterwarnings('ignore')
    import bqskit
    root = core.repo_root()
    f = os.path.abspath(bqskit.__file__)
    if not f.startswith(root + os.sep):
        raise core.HarnessError(
            f'bqskit imported from {f}, expected under {root}',
        )


def _quiet() -> None:
    import warnings
    warnings.filterwarnings('ignore')
    import logging
    logging.disable(logging.CRITICAL)


def _child_init() -> None:
    """Pool initializer: a shard must not outlive the runner (a killed or
    timed-out runner would otherwise leave shards burning CPU).  A watchdog
    thread polls the parent pid; PR_SET_PDEATHSIG is NOT used because it
    fires when the forking *thread* (Pool's worker handler) exits, which
    kills idle pool workers holding the queue lock and hangs terminate()."""
    import threading
    ppid = os.getppid()

    def watch() -> None:
        while True:
            time.sleep(2.0)
            if os.getppid() != ppid:
                os._exit(3)
    threading.Thread(target=watch, daemon=True).start()


def _load(prop: str):
    return importlib.import_module(f'vt.props.{prop.lower()}')


def _shard_entry(args: tuple) -> dict:
    prop, tier, seed, shard, nshards, budget, scale, known = args
    try:
        _quiet()
        _check_repo_import()
        mod = _load(prop)
        ctx = core.Ctx(
            prop, tier, seed, shard, nshards,
            time.monotonic() + budget, scale, tuple(known),
        )
        res = mod.run_shard(ctx)
        return {'ok': True, 'res': res.to_json()}
    except BaseException:
        return {'ok': False, 'tb': traceback.format_exc()}


def _replay_entry(args: tuple) -> dict:
    prop, case = args
    try:
        _quiet()
        _check_repo_import()
        mod = _load(prop)
        out = mod.replay(case)
        return {
            'ok': True,
            'violations': [v.to_json() for v in out.violations],
            'nontrivial': out.nontrivial,
        }
    except BaseException:
        return {'ok': False, 'tb': traceback.format_exc()}


def main(argv=None) -> int:
    ap = argparse.ArgumentParser()
    ap.add_argument('prop')
    ap.add_argument('--tier', default='quick', choices=['quick', 'thorough'])
    ap.add_argument('--replay', default=None)
    ap.add_argument('--shards', type=int, default=None)
    ap.add_argument('--no-evidence', action='store_true')
    a = ap.parse_args(argv)
    prop = a.prop.upper()
    tier = os.environ.get('VERIF_TIER') or a.tier
    if tier not in ('quick', 'thorough'):
        tier = a.tier
    try:
        seed = int(os.environ.get('VERIF_SEED', '1'))
    except ValueError:
        seed = 1
    scale = float(os.environ.get('VT_SCALE', '1'))
    t0 = time.time()
    os.chdir(core.VERIF_ROOT)

    try:
        _quiet()
        _check_repo_import()
        mod = _load(prop)
        kf = findings.load(prop)
    except Exception:
        traceback.print_exc()
        print(f'HARNESS-ERROR property={prop} import/setup failed')
        return 2
    known = [e['sig'] for e in kf if e.get('status') == 'open']
    ctxm = mp.get_context('spawn')

    # ---- single replay mode
    if a.replay:
        with open(a.replay) as f:
            doc = json.load(f)
        case = doc['case'] if isinstance(doc, dict) and 'case' in doc else doc
        with ctxm.Pool(1, initializer=_child_init) as pool:
            r = pool.map(_replay_entry, [(prop, case)])[0]
        if not r['ok']:
            print(r['tb'])
            print(f'HARNESS-ERROR property={prop} replay crashed')
            return 2
        bad = [
            v for v in r['violations']
            if not any(core.sig_matches(k, v['sig']) for k in known)
        ]
        for v in r['violations']:
            print(f"replay: {v['sig']}: {v['detail'][:300]}")
        if bad:
            print(f'VIOLATION property={prop} replay={a.replay}')
            return 1
        print(f'replay of {a.replay}: no unlisted violation')
        return 0

    # ---- replay tier (committed regression corpus)
    rdir = os.path.join(core.VERIF_ROOT, 'replays', prop)
    replay_files = sorted(
        os.path.join(rdir, f) for f in os.listdir(rdir) if f.endswith('.json')
    ) if os.path.isdir(rdir) else []
    nshards = a.shards or getattr(mod, 'SHARDS', {}).get(tier, 16)
    budget = getattr(mod, 'BUDGET_S', {}).get(
        tier, 240 if tier == 'quick' else 2400,
    )
    budget = float(os.environ.get('VT_BUDGET_S', budget))

    merged = core.ShardResult()
    buckets: dict = {}
    harness_fail = None
    replayed = 0

    def absorb_bucket(sig, b, origin):
        cur = buckets.get(sig)
        if cur is None:
            buckets[sig] = dict(b, origin=origin)
        else:
            cur['count'] += b['count']
            if b.get('size', 1 << 30) < cur.get('size', 1 << 30):
                cur.update(case=b['case'], detail=b['detail'], size=b['size'])

    jobs = [
        (prop, tier, seed, s, nshards, budget, scale, known)
        for s in range(nshards)
    ]
    with ctxm.Pool(min(16, max(nshards, 1)), initializer=_child_init,
                   maxtasksperchild=1) as pool:
        rep_async = None
        if replay_files:
            cases = []
            for f in replay_files:
                with open(f) as fh:
                    doc = json.load(fh)
                cases.append((prop, doc['case'] if 'case' in doc else doc))
            rep_async = pool.map_async(_replay_entry, cases, chunksize=1)
        shard_async = pool.map_async(_shard_entry, jobs, chunksize=1)
        if rep_async is not None:
            for f, r in zip(replay_files, rep_async.get()):
                replayed += 1
                if not r['ok']:
                    harness_fail = f'replay {f} crashed:\n{r["tb"]}'
                    continue
                for v in r['violations']:
                    absorb_bucket(
                        v['sig'], {
                            'count': 1, 'detail': v['detail'],
                            'case': v['case'] if v['case'] is not None else
                            json.load(open(f)).get('case'),
                            'size': 0,
                        }, f,
                    )
        try:
            shard_results = shard_async.get(timeout=budget * 2 + 600)
        except mp.TimeoutError:
            pool.terminate()
            print(f'HARNESS-ERROR property={prop} shards exceeded hard limit')
            return 2
        for r in shard_results:
            if not r['ok']:
                harness_fail = r['tb']
                continue
            j = r['res']
            merged.evaluations += j['evaluations']
            merged.cases += j['cases']
            merged.nontrivial.update(j['nontrivial'])
            merged.labels.update(j['labels'])
            for s in j['samples']:
                if len(merged.samples) < 8:
                    merged.samples.append(s)
            if not j['samples'] and j['cases']:
                print(f'note: a shard returned no samples '
                      f'(cases={j["cases"]}, nontrivial={len(j["nontrivial"])})')
            merged.excluded += j['excluded']
            merged.budget_exhausted |= j['budget_exhausted']
            for k, v in j['extra'].items():
                if isinstance(v, (int, float)) and not isinstance(v, bool):
                    merged.extra[k] = merged.extra.get(k, 0) + v
                elif isinstance(v, bool):
                    merged.extra[k] = merged.extra.get(k, True) and v
                else:
                    merged.extra.setdefault(k, v)
            for sig, b in j['buckets'].items():
                absorb_bucket(sig, b, 'generated')

    if harness_fail:
        print(harness_fail)
        print(f'HARNESS-ERROR property={prop}')
        return 2

    # ---- triage against known findings
    known_seen: dict = {}
    unknown: dict = {}
    for sig, b in buckets.items():
        ent = findings.match(kf, sig)
        if ent is not None:
            known_seen.setdefault(ent['sig'], {'entry': ent, 'count': 0})
            known_seen[ent['sig']]['count'] += b['count']
        else:
            unknown[sig] = b
    for k in sorted(known_seen):
        ent = known_seen[k]['entry']
        print(
            f"KNOWN-FINDING: property={prop} {ent['what']} "
            f"[sig={ent['sig']} seen={known_seen[k]['count']}]",
        )
    # open findings that this run did not hit are still announced (the finding
    # stands whether or not this seed reached it)
    for ent in kf:
        if ent.get('status') == 'open' and ent['sig'] not in known_seen:
            print(
                f"KNOWN-FINDING: property={prop} {ent['what']} "
                f"[sig={ent['sig']} seen=0]",
            )

    vpaths = []
    if unknown:
        vdir = os.path.join(core.VERIF_ROOT, 'out', 'violations', prop)
        os.makedirs(vdir, exist_ok=True)
        for sig, b in sorted(unknown.items()):
            name = core.case_hash([sig])[:10] + '.json'
            path = os.path.join(vdir, name)
            with open(path, 'w') as f:
                json.dump(
                    {
                        'property': prop, 'sig': sig, 'detail': b['detail'],
                        'count': b['count'], 'origin': b.get('origin'),
                        'seed': seed, 'tier': tier, 'case': b['case'],
                    }, f, indent=1, default=str,
                )
            vpaths.append((sig, path, b))

    wall = time.time() - t0
    if not a.no_evidence:
        try:
            evidence.write(
                mod, prop, tier, seed, merged, wall,
                violations=len(unknown),
                known_seen={k: v['count'] for k, v in known_seen.items()},
                replayed=replayed, nshards=nshards,
            )
        except Exception:
            traceback.print_exc()
            print(f'HARNESS-ERROR property={prop} evidence invalid')
            return 2

    print(
        f'{prop} tier={tier} seed={seed} shards={nshards} cases={merged.cases} '
        f'evaluations={merged.evaluations} '
        f'distinct_nontrivial={len(merged.nontrivial)} replays={replayed} '
        f'excluded={merged.excluded} budget_exhausted={merged.budget_exhausted} '
        f'wall={wall:.1f}s',
    )
    top = sorted(merged.labels.items(), key=lambda kv: -kv[1])[:25]
    print('labels: ' + ', '.join(f'{k}={v}' for k, v in top))
    if vpaths:
        for sig, path, b in vpaths:
            print(f'violation: {sig} x{b["count"]}: {b["detail"][:400]}')
            rel = os.path.relpath(path, core.VERIF_ROOT)
            print(f'VIOLATION property={prop} replay={rel}')
        return 1
    return 0


if __name__ == '__main__':
    _reexec_with_hashseed()
    sys.exit(main())
