"""known_findings.json: committed list of genuine defects (open or fixed).

An entry suppresses a violation only if it is ``open`` and its ``sig`` matches
the violation's whole signature (``*`` suffix = prefix match).  ``fixed``
entries suppress nothing.  The file is never written at run time.
"""
from __future__ import annotations

import json
import os

from vt import core


def load(prop: str) -> list:
    path = os.path.join(core.VERIF_ROOT, 'known_findings.json')
    if not os.path.exists(path):
        return []
    with open(path) as f:
        doc = json.load(f)
    return [e for e in doc.get('findings', []) if e.get('property') == prop]


def match(entries: list, sig: str):
    for e in entries:
        if e.get('status') == 'open' and core.sig_matches(e['sig'], sig):
            return e
    return None
