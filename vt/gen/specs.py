"""JSON specs for gates and circuits, builders that turn them into BQSKit
objects, and Hypothesis strategies that generate them *by construction*
(a location is drawn first, then a gate that fits the radixes there).

Gate spec:   {"g": <ClassName>, "a": [ctor args...]}           library gate
             {"g": "ConstantUnitaryGate", "radixes": [...], "seed": S}
             {"g": "Dagger"|"Tagged"|"Power"|"Frozen"|"Controlled", "inner": spec, ...}
             {"g": "CircuitGate", "circ": circuit-spec}
             {"g": "Barrier", "radixes": [...]} {"g": "Measure", "n": k} {"g": "Reset", "radix": r}
Circuit spec: {"radixes": [...], "ops": [{"gate": spec, "loc": [...], "params": [...]}]}
"""
from __future__ import annotations

import math

import numpy as np
from hypothesis import strategies as st

PI = math.pi
SPECIAL_PARAMS = [
    0.0, PI / 2, -PI / 2, PI, -PI, 2 * PI, PI / 4, 1e-9, -1e-7, 50.25, -47.5,
]

Q1_CONST = ['HGate', 'XGate', 'YGate', 'ZGate', 'SGate', 'SdgGate', 'TGate',
            'TdgGate', 'SXGate', 'SqrtTGate', 'SXdgGate']
Q1_PARAM = ['RXGate', 'RYGate', 'RZGate', 'U1Gate', 'U2Gate', 'U3Gate',
            'U1qGate', 'PhasedXZGate']
Q2_CONST = ['CXGate', 'CYGate', 'CZGate', 'CHGate', 'CSGate', 'CTGate',
            'ISwapGate', 'SqrtISwapGate', 'SqrtCNOTGate', 'BGate',
            'ECRGate', 'SycamoreGate', 'SwapGate', 'XXGate', 'YYGate',
            'ZZGate']
Q2_PARAM = ['CPGate', 'CRXGate', 'CRYGate', 'CRZGate', 'CUGate', 'FSIMGate',
            'RXXGate', 'RYYGate', 'RZZGate']
Q3_CONST = ['CCXGate', 'IToffoliGate', 'MargolusGate', 'RCCXGate']
Q3_PARAM = ['CCPGate']
Q4_CONST = ['RC3XGate']


def _gates():
    import bqskit.ir.gates as G
    return G


def haar(dim: int, seed: int) -> np.ndarray:
    rng = np.random.default_rng(seed)
    z = rng.normal(size=(dim, dim)) + 1j * rng.normal(size=(dim, dim))
    q, r = np.linalg.qr(z)
    d = np.diag(r)
    return q * (d / np.abs(d))


def build_gate(spec: dict):
    G = _gates()
    g = spec['g']
    if g == 'ConstantUnitaryGate':
        r = list(spec['radixes'])
        return G.ConstantUnitaryGate(haar(int(np.prod(r)), spec['seed']), r)
    if g == 'Dagger':
        return G.DaggerGate(build_gate(spec['inner']))
    if g == 'Tagged':
        return G.TaggedGate(build_gate(spec['inner']), spec['tag'])
    if g == 'Power':
        return G.PowerGate(build_gate(spec['inner']), spec['power'])
    if g == 'Frozen':
        return G.FrozenParameterGate(
            build_gate(spec['inner']),
            {int(k): float(v) for k, v in spec['frozen'].items()},
        )
    if g == 'Controlled':
        return G.ControlledGate(
            build_gate(spec['inner']), spec['nc'], list(spec['cr']),
            spec.get('cl'),
        )
    if g == 'Embedded':
        return G.EmbeddedGate(
            build_gate(spec['inner']), list(spec['radixes']),
            spec.get('maps'),
        )
    if g == 'CircuitGate':
        return G.CircuitGate(build_circuit(spec['circ']))
    if g == 'Barrier':
        r = list(spec['radixes'])
        return G.BarrierPlaceholder(len(r), r)
    if g == 'Measure':
        n = spec['n']
        return G.MeasurementPlaceholder(
            [('c', n)], {i: ('c', i) for i in range(n)},
        )
    if g == 'Reset':
        return G.Reset(spec.get('radix', 2))
    cls = getattr(G, g)
    args = spec.get('a', [])
    km = spec.get('kwmode', 0)
    if km and args:
        # the same construction spelled with keyword arguments (1: values as
        # given, 2: lists as tuples so that the instance cache is used)
        import inspect
        names = list(inspect.signature(cls.__init__).parameters)[1:]
        if len(names) >= len(args):
            kw = {names[i]: (tuple(a) if km == 2 and isinstance(a, list)
                             else a) for i, a in enumerate(args)}
            return cls(**kw)
    return cls(*args)


def build_circuit(spec: dict):
    from bqskit.ir.circuit import Circuit
    radixes = list(spec['radixes'])
    c = Circuit(len(radixes), radixes)
    for op in spec['ops']:
        c.append_gate(
            build_gate(op['gate']), list(op['loc']), list(op.get('params', [])),
        )
    return c


def gate_num_params(spec: dict) -> int:
    return build_gate(spec).num_params


def is_placeholder(spec: dict) -> bool:
    return spec['g'] in ('Barrier', 'Measure', 'Reset')


# ------------------------------------------------------------ catalogue
def catalogue(radixes: tuple, rich: bool = True) -> list:
    """All base gate specs (no wrappers) that fit a location with these
    radixes.  Deterministic order."""
    k = len(radixes)
    out: list = []
    allq = all(r == 2 for r in radixes)
    same = len(set(radixes)) == 1
    r0 = radixes[0]
    if allq:
        if k == 1:
            out += [{'g': n} for n in Q1_CONST + Q1_PARAM]
        elif k == 2:
            out += [{'g': n} for n in Q2_CONST + Q2_PARAM]
        elif k == 3:
            out += [{'g': n} for n in Q3_CONST + Q3_PARAM]
        elif k == 4:
            out += [{'g': n} for n in Q4_CONST]
        if rich:
            if k <= 3:
                out.append({'g': 'PauliGate', 'a': [k]})
                out.append({'g': 'PauliZGate', 'a': [k]})
                out.append({'g': 'DiagonalGate', 'a': [k]})
            if 2 <= k <= 3:
                out.append({'g': 'MPRYGate', 'a': [k, k - 1]})
                out.append({'g': 'MPRZGate', 'a': [k, 0]})
                out.append({'g': 'PermutationGate',
                            'a': [k, list(range(1, k)) + [0]]})
    if k == 1:
        if r0 > 2:
            out += [
                {'g': 'HGate', 'a': [r0]}, {'g': 'ShiftGate', 'a': [r0]},
                {'g': 'ClockGate', 'a': [r0]},
                {'g': 'PDGate', 'a': [r0 - 1, r0]},
            ]
        if r0 == 3 and rich:
            out += [{'g': 'U8Gate'}, {'g': 'RSU3Gate', 'a': [2]},
                    {'g': 'RSU3Gate', 'a': [7]}, {'g': 'CKMGate'},
                    {'g': 'CKMdgGate'}]
    if k == 2 and same and r0 > 2:
        out += [
            {'g': 'CSUMGate', 'a': [r0]}, {'g': 'SwapGate', 'a': [r0]},
            {'g': 'SubSwapGate', 'a': [r0, f'0,1;{r0 - 1},0']},
        ]
        if r0 == 3:
            out.append({'g': 'CPIGate'})
    if k <= 3 and int(np.prod(radixes)) <= 64:
        out.append({'g': 'VariableUnitaryGate', 'a': [k, list(radixes)]})
        out.append({'g': 'IdentityGate', 'a': [k, list(radixes)]})
        if rich and k == 2:
            out.append({'g': 'ArbitraryCPhaseGate', 'a': [list(radixes)]})
    return out


def param_values(n: int):
    return st.lists(
        st.one_of(
            st.sampled_from(SPECIAL_PARAMS),
            st.floats(-2 * PI, 2 * PI, allow_nan=False, allow_infinity=False),
        ),
        min_size=n, max_size=n,
    )


@st.composite
def gate_for(draw, radixes: tuple, rich: bool = True, wrappers: bool = True,
             const_unitary: bool = True):
    """A gate spec (possibly wrapped) of arity len(radixes) with exactly
    these radixes."""
    k = len(radixes)
    cat = catalogue(radixes, rich)
    choices = ['cat'] * 8
    if const_unitary and int(np.prod(radixes)) <= 64 and k <= 3:
        choices.append('const')
    if wrappers:
        choices += ['dagger', 'tagged', 'power', 'frozen']
        if k >= 2:
            choices.append('controlled')
    kind = draw(st.sampled_from(choices))
    if kind == 'const' or not cat:
        return {'g': 'ConstantUnitaryGate', 'radixes': list(radixes),
                'seed': draw(st.integers(0, 2**31))}
    if kind == 'cat':
        return draw(st.sampled_from(cat))
    if kind == 'controlled':
        nc = draw(st.integers(1, k - 1))
        inner_r = tuple(radixes[nc:])
        inner = draw(gate_for(inner_r, rich=False, wrappers=False,
                              const_unitary=False))
        cr = list(radixes[:nc])
        cl = None
        if draw(st.booleans()):
            cl = [
                sorted(draw(st.sets(st.integers(0, r - 1), min_size=1,
                                    max_size=max(1, r - 1))))
                for r in cr
            ]
        spec = {'g': 'Controlled', 'inner': inner, 'nc': nc, 'cr': cr}
        if cl is not None:
            spec['cl'] = cl
        return spec
    inner = draw(gate_for(radixes, rich, wrappers=False,
                          const_unitary=const_unitary))
    if kind == 'dagger':
        return {'g': 'Dagger', 'inner': inner}
    if kind == 'tagged':
        return {'g': 'Tagged', 'inner': inner,
                'tag': draw(st.sampled_from(['t', 'u', 7]))}
    if kind == 'power':
        return {'g': 'Power', 'inner': inner,
                'power': draw(st.integers(-2, 3))}
    # frozen
    np_ = gate_num_params(inner)
    if np_ == 0:
        return inner
    idx = sorted(draw(st.sets(st.integers(0, np_ - 1), min_size=1,
                              max_size=np_)))
    vals = draw(param_values(len(idx)))
    return {'g': 'Frozen', 'inner': inner,
            'frozen': {str(i): v for i, v in zip(idx, vals)}}


@st.composite
def radix_lists(draw, min_n=1, max_n=5, max_dim=1024, choices=(2, 2, 2, 3, 4),
                uniform_prob=0.5):
    n = draw(st.integers(min_n, max_n))
    if draw(st.floats(0, 1)) < uniform_prob:
        r = draw(st.sampled_from(sorted(set(choices))))
        while r ** n > max_dim and n > min_n:
            n -= 1
        if r ** n > max_dim:
            r = 2
        return [r] * n
    out = []
    d = 1
    for _ in range(n):
        r = draw(st.sampled_from(choices))
        if d * r > max_dim and len(out) >= min_n:
            break
        if d * r > max_dim:
            r = 2
        out.append(r)
        d *= r
    return out


@st.composite
def locations(draw, n: int, max_k: int = 3):
    k = draw(st.integers(1, min(max_k, n)))
    return list(draw(st.permutations(range(n)))[:k])


@st.composite
def op_specs(draw, radixes: list, max_k=3, rich=True, wrappers=True,
             placeholders=False, nested_depth=0, const_unitary=True):
    n = len(radixes)
    if placeholders and draw(st.integers(0, 9)) == 0:
        kind = draw(st.sampled_from(['Barrier', 'Measure', 'Reset']))
        if kind == 'Barrier':
            loc = draw(locations(n, max_k=n))
            return {'gate': {'g': 'Barrier',
                             'radixes': [radixes[q] for q in loc]},
                    'loc': loc, 'params': []}
        if kind == 'Measure':
            loc = draw(locations(n, max_k=n))
            return {'gate': {'g': 'Measure', 'n': len(loc)}, 'loc': loc,
                    'params': []} if all(radixes[q] == 2 for q in loc) else \
                {'gate': {'g': 'Barrier',
                          'radixes': [radixes[q] for q in loc]},
                 'loc': loc, 'params': []}
        q = draw(st.integers(0, n - 1))
        return {'gate': {'g': 'Reset', 'radix': radixes[q]}, 'loc': [q],
                'params': []}
    if nested_depth > 0 and n >= 1 and draw(st.integers(0, 7)) == 0:
        loc = draw(locations(n, max_k=min(3, n)))
        sub = draw(circuit_specs(
            radixes=[radixes[q] for q in loc], max_ops=4, rich=rich,
            wrappers=False, nested_depth=nested_depth - 1,
            const_unitary=const_unitary,
        ))
        gspec = {'g': 'CircuitGate', 'circ': sub}
        params = [p for o in sub['ops'] for p in o['params']]
        return {'gate': gspec, 'loc': loc, 'params': params}
    loc = draw(locations(n, max_k=max_k))
    gspec = draw(gate_for(tuple(radixes[q] for q in loc), rich, wrappers,
                          const_unitary))
    params = draw(param_values(gate_num_params(gspec)))
    return {'gate': gspec, 'loc': loc, 'params': params}


@st.composite
def circuit_specs(draw, radixes=None, min_n=1, max_n=5, max_dim=1024,
                  max_ops=12, max_k=3, rich=True, wrappers=True,
                  placeholders=False, nested_depth=1, const_unitary=True,
                  min_ops=0):
    if radixes is None:
        radixes = draw(radix_lists(min_n, max_n, max_dim))
    ops = draw(st.lists(
        op_specs(radixes, max_k, rich, wrappers, placeholders, nested_depth,
                 const_unitary),
        min_size=min_ops, max_size=max_ops,
    ))
    return {'radixes': list(radixes), 'ops': ops}
