"""C02 - compile() output is executable on the target machine model."""
from __future__ import annotations

import numpy as np
from hypothesis import strategies as st

from vt import core
from vt.core import Outcome
from vt.oracle import refsim
from vt.props import c01
from vt.props import c03
from vt.props import compilecommon as cc

ID = 'C02'
LEVEL = 'exploration'
RULE = (
    'cases: (a) "comp": the public compile() on the simulated runtime for '
    'circuit inputs (as C01) and unitary/state/state-system inputs (as C03) '
    'with an explicit model (graph line/ring/star/grid/tree/tree+/all, '
    'machine width n..n+2, ten gate sets) or the default one; the output is '
    'judged by an independent predicate for the three conditions (width and '
    'radixes of the model, every non-placeholder gate native, every '
    'multi-qudit location pairwise coupled) and MachineModel.is_compatible '
    'must agree with it on the output stripped of placeholders. (b) "syn": '
    'synthetic circuits built to satisfy a generated model and then mutated '
    'to break exactly one condition (foreign gate, uncoupled pair, wrong '
    'radix, too wide, or none), judged by the same agreement clause in both '
    'directions. Non-trivial: model graph not complete or gate set not the '
    'default; synthetic negatives count. Distinct = sha1 of the JSON case.'
)
ASSUMPTIONS = [
    'the independent predicate in vt/props/compilecommon.py '
    '(executable_violations) is the definition of "executable"',
    'placeholders (barrier, measurement, reset) are set aside as the '
    'property states; is_compatible is compared on circuits without them',
    'the runtime is simulated; real processes are not started',
]
SHARDS = {'quick': 16, 'thorough': 16}
BUDGET_S = {'quick': 170, 'thorough': 3000}


def default_model(n, radix=2):
    from bqskit.compiler.machine import MachineModel
    return MachineModel(n, radixes=[radix] * n)


def strip_placeholders(c):
    from bqskit.ir.circuit import Circuit
    out = Circuit(c.num_qudits, c.radixes)
    for _, op in refsim.grid_ops(c):
        if type(op.gate).__name__ in cc.PLACEHOLDERS:
            continue
        out.append(op)
    return out


def agreement(out: Outcome, circ, model, tag) -> None:
    bad = cc.executable_violations(circ, model)
    if circ.num_qudits < model.num_qudits:
        # is_compatible documents (placement argument) that a narrower
        # circuit may be compatible; width is judged by the executability
        # clause, not by the agreement clause
        bad = [b for b in bad if b[0] != 'width']
        if not bad:
            return
    want = not bad
    try:
        got = bool(model.is_compatible(strip_placeholders(circ)))
    except Exception as e:
        out.fail(core.exc_sig('is_compatible_raises', e), repr(e))
        return
    if got != want:
        out.fail(
            f'is_compatible_disagrees|{tag}|'
            f'{"false_negative" if want else "false_positive:" + bad[0][0]}',
            f'is_compatible={got}, independent predicate: {bad}',
        )


def check_comp(case) -> Outcome:
    out = Outcome()
    kind = case['kind']
    if kind == 'circuit':
        r = c01.run_case(case)
        c01.labels(case, r, out)
        if r.get('timeout'):
            out.label('inconclusive:case-time-limit')
            return out
        if 'error' in r:
            out.label('compile-failed(C01/C03 business)')
            return out
        outs = [r['out']]
        n = case['circ']['n']
        radix = case['circ'].get('radix', 2)
    else:
        targets = case['targets']
        built = [c03.build_target(t) for t in targets]
        try:
            res = cc.run_compile(
                built[0][0], cc.build_model(case['model']), case['level'],
                case['mss'], case['eps'], case['seed'], case['nw'],
                case['sched'], case.get('policy'), None,
                cc.CASE_LIMIT_S[case.get('tier', 'quick')],
            )
        except cc.CaseTimeLimit:
            out.label('inconclusive:case-time-limit')
            return out
        except BaseException as e:
            from vt.simrt.sim import SimSignal
            if not isinstance(e, (Exception, SimSignal)):
                raise
            out.label('compile-failed(C01/C03 business)')
            return out
        outs = [res[0]]
        n = targets[0]['n']
        radix = targets[0]['radix']
        out.label(f'input:{targets[0]["type"]}', f'level:{case["level"]}')
    model = cc.build_model(case['model']) or default_model(n, radix)
    # recorded root cause: with a native gate on >= 3 qudits the mapping
    # stage accepts any CONNECTED triple as a site for it, so that gate - and
    # the 2-qudit gates its retargeting puts around it - end up on a pair
    # that is not coupled.  The signature names that condition so that the
    # known finding covers nothing else.
    wide_native = any(g.num_qudits >= 3 for g in model.gate_set)
    for o in outs:
        bad = cc.executable_violations(o, model)
        for clause, det in bad[:2]:
            tag = ''
            if kind == 'circuit' and wide_native and \
                    clause.startswith('uncoupled_qudits'):
                tag = '|model_with_3q_native_gate'
            out.fail(f'not_executable|{clause}|input:{kind}'
                     + (f':{case["targets"][0]["type"]}' if kind != 'circuit'
                        else '') + tag, det)
        agreement(out, o, model, 'compile_output')
    ms = case['model']
    out.nontrivial = ms is not None and (
        ms['graph'] is not None or ms.get('gs', 'cx+u3') != 'cx+u3')
    return out


def check_syn(case) -> Outcome:
    """Synthetic circuit respecting the model, then one mutation."""
    from bqskit.ir.circuit import Circuit
    import bqskit.ir.gates as G
    out = Outcome()
    ms = case['model']
    model = cc.build_model(ms)
    m = ms['m']
    rng = np.random.default_rng(case['seed'])
    edges = sorted((min(a, b), max(a, b)) for a, b in model.coupling_graph)
    width = m
    mut = case['mut']
    if mut == 'too_wide':
        width = m + 1
    elif mut == 'narrower' and m > 1:
        width = m - 1
    radixes = [2] * width
    if mut == 'wrong_radix':
        radixes[int(rng.integers(0, width))] = 3
    c = Circuit(width, radixes)
    native1 = [g for g in model.gate_set if g.num_qudits == 1]
    native2 = [g for g in model.gate_set if g.num_qudits == 2]
    usable_edges = [e for e in edges if e[1] < width
                    and radixes[e[0]] == 2 and radixes[e[1]] == 2]
    for _ in range(case['nops']):
        if native2 and usable_edges and rng.integers(0, 2):
            e = usable_edges[int(rng.integers(0, len(usable_edges)))]
            loc = list(e) if rng.integers(0, 2) else list(e)[::-1]
            g = native2[int(rng.integers(0, len(native2)))]
            c.append_gate(g, loc, list(rng.uniform(-3, 3, g.num_params)))
        elif native1:
            qs = [q for q in range(width) if radixes[q] == 2]
            if not qs:
                continue
            q = qs[int(rng.integers(0, len(qs)))]
            g = native1[int(rng.integers(0, len(native1)))]
            c.append_gate(g, [q], list(rng.uniform(-3, 3, g.num_params)))
    if mut == 'foreign_gate':
        foreign = [g for g in (G.HGate(), G.TGate(), G.RYGate(), G.SGate())
                   if g not in model.gate_set]
        q = int(rng.integers(0, width))
        g = foreign[0]
        c.append_gate(g, [q], [0.3] * g.num_params)
    elif mut == 'foreign_2q':
        foreign = [g for g in (G.CYGate(), G.CHGate(), G.SwapGate())
                   if g not in model.gate_set]
        if usable_edges:
            c.append_gate(foreign[0], list(usable_edges[0]))
        else:
            mut = 'none'
    elif mut == 'uncoupled':
        pairs = [(a, b) for a in range(width) for b in range(a + 1, width)
                 if (a, b) not in edges]
        if pairs and native2:
            a, b = pairs[int(rng.integers(0, len(pairs)))]
            g = native2[0]
            c.append_gate(g, [b, a] if rng.integers(0, 2) else [a, b],
                          [0.1] * g.num_params)
        else:
            mut = 'none'
    elif mut == 'wrong_radix':
        q = radixes.index(3)
        c.append_gate(G.ShiftGate(3), [q])
    out.label('mut:' + mut)
    out.nontrivial = True
    # the independent predicate requires the model width; a NARROWER circuit
    # is documented as compatible by is_compatible (num_qudits <= model), so
    # it is judged against the sub-model of its own width
    if width < m:
        bad = []
        native = set(model.gate_set)
        for _, op in refsim.grid_ops(c):
            if op.gate not in native:
                bad.append(('non_native_gate', op.gate.name))
            loc = list(op.location)
            for i in range(len(loc)):
                for j in range(i + 1, len(loc)):
                    if (min(loc[i], loc[j]), max(loc[i], loc[j])) not in edges:
                        bad.append(('uncoupled_qudits', str(loc)))
        want = not bad
        got = bool(model.is_compatible(c))
        if got != want:
            out.fail('is_compatible_disagrees|narrower|'
                     + ('false_negative' if want else 'false_positive'),
                     f'{got} vs {bad}')
        return out
    if width > m:
        got = bool(model.is_compatible(c))
        if got:
            out.fail('is_compatible_disagrees|too_wide|false_positive', '')
        return out
    agreement(out, c, model, 'synthetic:' + mut)
    return out


def check(case) -> Outcome:
    out = check_syn(case) if case['k'] == 'syn' else check_comp(case)
    out.label('k:' + case['k'])
    return out


replay = check


@st.composite
def comp_cases(draw, quick=True):
    if draw(st.integers(0, 3)) == 0:
        # unitary / state / system input (1-2 qubits quick)
        t = draw(c03.target_specs(quick, radix=2))
        model = draw(cc.model_specs(t['n'], 2))
        if model and model.get('gs') == 'cx+u3+ccx':
            model = dict(model, gates=cc.GATESETS['cx+u3'], gs='cx+u3')
        level = draw(st.sampled_from([1, 1, 2]))
        return {
            'k': 'comp', 'kind': 'target', 'targets': [t], 'model': model,
            'level': level, 'mss': 3, 'eps': 1e-8,
            'seed': draw(st.integers(0, 10**6)), 'nw': draw(st.integers(1, 3)),
            'sched': draw(cc.schedules), 'policy': None,
            'tier': 'quick' if quick else 'thorough',
        }
    case = draw(c01.cases(quick))
    case['k'] = 'comp'
    case['kind'] = 'circuit'
    return case


@st.composite
def syn_cases(draw):
    m = draw(st.integers(1, 7))
    ms = draw(cc.model_specs(m, 2, max_extra=0, allow_default=False))
    ms = dict(ms, m=m, graph=draw(cc.graphs(m)))
    return {
        'k': 'syn', 'model': ms, 'seed': draw(st.integers(0, 10**6)),
        'nops': draw(st.integers(0, 12)),
        'mut': draw(st.sampled_from([
            'none', 'none', 'foreign_gate', 'foreign_2q', 'uncoupled',
            'uncoupled', 'wrong_radix', 'too_wide', 'narrower',
        ])),
    }


def run_shard(ctx: core.Ctx) -> core.ShardResult:
    res = core.ShardResult()
    quick = ctx.tier == 'quick'
    core.run_hypothesis(ctx, res, syn_cases(), check, ctx.n(300, 5000),
                        sub=1)
    core.run_hypothesis(ctx, res, comp_cases(quick), check, ctx.n(10, 100),
                        shrink=False, sub=2, min_cases=2)
    return res
