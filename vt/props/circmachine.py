"""Model-based interpreter for histories of public Circuit editing calls.

A *history* is a JSON list of steps; every argument is a small integer
*selector* that is resolved against the circuit's current state (qudit
indices, cycle indices, occupied points, gate catalogue for the radixes at the
chosen location), so every generated call is well-formed by construction and a
history is replayable without Hypothesis.

Oracle (C04): list-of-cycles reference semantics at the level of per-qudit
operation sequences.  Before each call the top-level grid is read into a plain
snapshot (list of records); from the call's *documented* effect the expected
per-qudit sequences are computed; after the call the real grid is read again
and both sides are flattened (CircuitGates expanded) and compared qudit by
qudit.  The model then adopts the real grid (validated to be a layout of the
expected program), because later calls take cycle indices.

Oracle (C05): cross-view invariants recomputed from the grid through the
public read API, after every step; unexpected exception types.
"""
from __future__ import annotations

import itertools as it

import numpy as np
from hypothesis import strategies as st

from vt import core
from vt.gen import specs
from vt.oracle import refsim
from vt.oracle import trace as tr

_GATE_CACHE: dict = {}


def gate_of(spec: dict):
    k = core.canon(spec)
    g = _GATE_CACHE.get(k)
    if g is None:
        g = specs.build_gate(spec)
        _GATE_CACHE[k] = g
    return g


_CAT_CACHE: dict = {}


def cat_for(radixes: tuple) -> list:
    c = _CAT_CACHE.get(radixes)
    if c is None:
        c = specs.catalogue(radixes, rich=False)
        k = len(radixes)
        if all(r == 2 for r in radixes):
            # a few composed gates so wrappers are exercised
            if k == 1:
                c = c + [
                    {'g': 'Dagger', 'inner': {'g': 'U3Gate'}},
                    {'g': 'Frozen', 'inner': {'g': 'U3Gate'},
                     'frozen': {'1': 0.25}},
                    {'g': 'Power', 'inner': {'g': 'TGate'}, 'power': 3},
                ]
            if k == 2:
                c = c + [
                    {'g': 'Controlled', 'inner': {'g': 'RYGate'}, 'nc': 1,
                     'cr': [2]},
                    {'g': 'Tagged', 'inner': {'g': 'CXGate'}, 'tag': 't'},
                ]
        if not c:
            c = [{'g': 'ConstantUnitaryGate', 'radixes': list(radixes),
                  'seed': 7}]
        _CAT_CACHE[radixes] = c
    return c


# ------------------------------------------------------------------ snapshot
class Rec:
    __slots__ = ('gate', 'loc', 'params', 'cycle', 'op')

    def __init__(self, gate, loc, params, cycle, op=None):
        self.gate = gate
        self.loc = tuple(loc)
        self.params = tuple(float(p) for p in params)
        self.cycle = cycle
        self.op = op


def snapshot(c):
    """Top-level grid -> (num_qudits, radixes, num_cycles, records) using only
    num_cycles/num_qudits/is_point_idle/__getitem__."""
    recs = []
    for cyc, op in refsim.grid_ops(c):
        recs.append(Rec(op.gate, op.location, op.params, cyc, op))
    return recs


def per_qudit(recs, n):
    s = [[] for _ in range(n)]
    for r in sorted(recs, key=lambda r: r.cycle):
        for q in r.loc:
            s[q].append(r)
    return s


def flatten_rec(r):
    """Flat (gate, global loc, params) keys of a record, in an order compatible
    with each qudit's inner timeline."""
    from bqskit.ir.gates.circuitgate import CircuitGate
    if isinstance(r.gate, CircuitGate):
        sub = r.gate._circuit.copy()
        if sub.num_params:
            sub.set_params(list(r.params))
        return list(tr.flat_ops(sub, {i: q for i, q in enumerate(r.loc)}))
    return [(r.gate, r.loc, r.params)]


def flat_proj(seqs, n):
    """seqs: per-qudit lists of records -> per-qudit lists of flat keys."""
    cache: dict = {}
    out = []
    for q in range(n):
        row = []
        for r in seqs[q]:
            fl = cache.get(id(r))
            if fl is None:
                fl = flatten_rec(r)
                cache[id(r)] = fl
            row.extend(k for k in fl if q in k[1])
        out.append(row)
    return out


def proj_diff(a, b):
    for q, (x, y) in enumerate(zip(a, b)):
        if x != y:
            for i, (u, v) in enumerate(zip(x, y)):
                if u != v:
                    return f'qudit {q} pos {i}: expected {tr._s(u)} got {tr._s(v)}'
            return f'qudit {q}: expected {len(x)} ops got {len(y)}'
    if len(a) != len(b):
        return f'width {len(a)} vs {len(b)}'
    return None


def place_at(seqs, new_recs_per_q, cyc):
    """Insert per-qudit lists of new records 'at cycle cyc': after everything
    in cycles < cyc, before everything in cycles >= cyc."""
    out = []
    for q, row in enumerate(seqs):
        new = new_recs_per_q.get(q, [])
        if not new:
            out.append(list(row))
            continue
        out.append(
            [r for r in row if r.cycle < cyc] + new
            + [r for r in row if r.cycle >= cyc],
        )
    return out


def sub_records(sub, loc):
    """Records of the ops of circuit ``sub`` mapped onto ``loc``; per-qudit
    lists in sub's own order."""
    recs = []
    for cyc, op in refsim.grid_ops(sub):
        recs.append(Rec(op.gate, [loc[q] for q in op.location], op.params, cyc))
    per: dict = {}
    for r in sorted(recs, key=lambda r: r.cycle):
        for q in r.loc:
            per.setdefault(q, []).append(r)
    return recs, per


# ------------------------------------------------------------ C05 invariants
def check_views(c, fail) -> None:
    """Recompute every derived view from the grid and compare."""
    n, m = c.num_qudits, c.num_cycles
    if len(c.radixes) != n:
        fail('views_radixes_len', f'{len(c.radixes)} != {n}')
        return
    grid = []
    seen_ops: dict = {}
    for cy in range(m):
        row = []
        occupied = False
        for q in range(n):
            idle = c.is_point_idle((cy, q))
            if idle:
                row.append(None)
                try:
                    c[cy, q]
                    fail('views_idle_getitem', f'({cy},{q}) idle but readable')
                except IndexError:
                    pass
                continue
            occupied = True
            op = c[cy, q]
            row.append(op)
            ent = seen_ops.setdefault(id(op), [op, cy, []])
            if ent[1] != cy:
                fail('views_op_in_two_cycles', f'{op} in {ent[1]} and {cy}')
            ent[2].append(q)
        if not occupied:
            fail('views_idle_cycle', f'cycle {cy} of {m} is empty')
        grid.append(row)
    ops = []
    for op, cy, qs in seen_ops.values():
        if sorted(qs) != sorted(op.location):
            fail(
                'views_op_location',
                f'{op} occupies {qs} in cycle {cy}, location {op.location}',
            )
        for gr, q in zip(op.gate.radixes, op.location):
            if q < n and c.radixes[q] != gr:
                fail(
                    'views_radix_mismatch',
                    f'{op} radix {gr} on qudit {q} of radix {c.radixes[q]}',
                )
        ops.append((cy, op))
    ops.sort(key=lambda t: (t[0], min(t[1].location)))
    # timelines from the grid
    line = [[] for _ in range(n)]
    for cy in range(m):
        for q in range(n):
            if grid[cy][q] is not None:
                line[q].append((cy, grid[cy][q]))

    def pt(cy, op):
        return (cy, op.location[0])

    # next/prev
    for q in range(n):
        for i, (cy, op) in enumerate(line[q]):
            p = pt(cy, op)
            want_next = {
                pt(*line[x][[id(o) for _, o in line[x]].index(id(op)) + 1])
                for x in op.location
                if [id(o) for _, o in line[x]].index(id(op)) + 1 < len(line[x])
            } if q == op.location[0] else None
            if want_next is not None:
                try:
                    got = {tuple(x) for x in c.next(p)}
                    if got != want_next:
                        fail('views_next', f'{p}: {got} want {want_next}')
                    want_prev = {
                        pt(*line[x][[id(o) for _, o in line[x]].index(id(op)) - 1])
                        for x in op.location
                        if [id(o) for _, o in line[x]].index(id(op)) >= 1
                    }
                    gotp = {tuple(x) for x in c.prev(p)}
                    if gotp != want_prev:
                        fail('views_prev', f'{p}: {gotp} want {want_prev}')
                except Exception as e:
                    fail(core.exc_sig('views_next_prev_raises', e), repr(e))
    # first_on / last_on / front / rear / active
    for q in range(n):
        wf = pt(*line[q][0]) if line[q] else None
        wl = pt(*line[q][-1]) if line[q] else None
        gf, gl = c.first_on(q), c.last_on(q)
        if (None if gf is None else tuple(gf)) != wf:
            fail('views_first_on', f'q{q}: {gf} want {wf}')
        if (None if gl is None else tuple(gl)) != wl:
            fail('views_last_on', f'q{q}: {gl} want {wl}')
        if c.is_qudit_idle(q) != (not line[q]):
            fail('views_is_qudit_idle', f'q{q}')
    want_front = {
        pt(cy, op) for cy, op in ops
        if all(line[x][0][1] is op for x in op.location)
    }
    want_rear = {
        pt(cy, op) for cy, op in ops
        if all(line[x][-1][1] is op for x in op.location)
    }
    try:
        if {tuple(p) for p in c.front} != want_front:
            fail('views_front', f'{c.front} want {want_front}')
        if {tuple(p) for p in c.rear} != want_rear:
            fail('views_rear', f'{c.rear} want {want_rear}')
    except Exception as e:
        fail(core.exc_sig('views_front_rear_raises', e), repr(e))
    if list(c.active_qudits) != [q for q in range(n) if line[q]]:
        fail('views_active_qudits', str(c.active_qudits))
    # counters
    nops = len(ops)
    if c.num_operations != nops or len(c) != nops:
        fail('views_num_operations', f'{c.num_operations} want {nops}')
    if c.is_empty != (nops == 0):
        fail('views_is_empty', '')
    want_np = sum(op.num_params for _, op in ops)
    if c.num_params != want_np:
        fail('views_num_params', f'{c.num_params} want {want_np}')
    counts: dict = {}
    for _, op in ops:
        counts[op.gate] = counts.get(op.gate, 0) + 1
    try:
        gc = c.gate_counts
        if gc != counts:
            fail('views_gate_counts', f'{gc} want {counts}')
        if set(c.gate_set) != set(counts):
            fail('views_gate_set', f'{set(c.gate_set)} want {set(counts)}')
        for g, k in counts.items():
            if c.count(g) != k:
                fail('views_count_gate', f'{g}: {c.count(g)} want {k}')
    except Exception as e:
        fail(core.exc_sig('views_counts_raise', e), repr(e))
    want_edges = set()
    for _, op in ops:
        for a, b in it.combinations(sorted(op.location), 2):
            want_edges.add((a, b))
    try:
        cg = c.coupling_graph
        got_edges = {(min(a, b), max(a, b)) for a, b in cg}
        if got_edges != want_edges or cg.num_qudits != n:
            fail('views_coupling_graph', f'{sorted(got_edges)} want '
                 f'{sorted(want_edges)}')
    except Exception as e:
        fail(core.exc_sig('views_coupling_graph_raises', e), repr(e))
    # depth: longest chain
    d = [0] * n
    for _, op in ops:
        nd = max(d[q] for q in op.location) + 1
        for q in op.location:
            d[q] = nd
    # iteration
    try:
        it_ops = list(c.operations_with_cycles())
        plain = list(c)
        rev = list(reversed(c))
        if c.depth != (max(d) if d else 0):
            fail('views_depth', f'{c.depth} want {max(d) if d else 0}')
        pv = list(c.params)
    except Exception as e:
        fail(core.exc_sig('views_iteration_raises', e), repr(e))
        return
    ids = sorted(id(op) for _, op in ops)
    if sorted(id(o) for _, o in it_ops) != ids:
        fail('views_iter_cycles_once', f'{len(it_ops)} yielded, {nops} ops')
    if sorted(id(o) for o in plain) != ids:
        fail('views_iter_once', f'{len(plain)} yielded, {nops} ops')
    if sorted(id(o) for o in rev) != ids:
        fail('views_reversed_once', f'{len(rev)} yielded, {nops} ops')
    cyc_of = {id(op): cy for cy, op in ops}
    for cy, o in it_ops:
        if cyc_of.get(id(o)) != cy:
            fail('views_iter_cycle_index', f'{o}: {cy} want {cyc_of.get(id(o))}')
            break

    def linear_ext(seq, reverse=False):
        pos = {id(o): i for i, o in enumerate(seq)}
        for q in range(n):
            order = [pos.get(id(o), -1) for _, o in line[q]]
            if reverse:
                order = order[::-1]
            if any(x >= y for x, y in zip(order, order[1:])):
                return q
        return None
    if len(plain) == nops:
        q = linear_ext(plain)
        if q is not None:
            fail('views_iter_not_linear_extension', f'qudit {q}')
        if [id(o) for _, o in it_ops] != [id(o) for o in plain]:
            fail('views_iter_with_cycles_order', '')
    if len(rev) == nops:
        q = linear_ext(rev, reverse=True)
        if q is not None:
            fail('views_reversed_not_reverse_compatible', f'qudit {q}')
    want_pv = [float(p) for o in plain for p in o.params]
    if [float(p) for p in pv] != want_pv:
        fail('views_params_vector', f'{pv} want {want_pv}')


# ------------------------------------------------------------- interpreter
DOC_ERRORS = (IndexError, ValueError, TypeError)


class Stop(Exception):
    pass


class Interp:
    """Executes a history against a real Circuit and judges every step."""

    def __init__(self, out: core.Outcome, want_trace=True, want_views=True,
                 want_unitary=True):
        self.out = out
        self.want_trace = want_trace
        self.want_views = want_views
        self.want_unitary = want_unitary
        self.nmut = 0
        self.kinds: set = set()
        self.saw_multi = 0
        self.idle_cycle = False
        self.log: list = []

    # -- failure helpers (C04 sigs start with 'prog_', C05 with 'views_'/'err_')
    def fail_prog(self, sig, detail):
        if self.want_trace:
            self.out.fail(sig, f'{detail} | history: {self.log[-6:]}')

    def fail_view(self, sig, detail):
        if self.want_views:
            self.out.fail(sig, f'{detail} | history: {self.log[-6:]}')

    # -- selectors
    def pick_loc(self, c, sels, k_sel, maxk=3):
        n = c.num_qudits
        k = 1 + k_sel % min(maxk, n)
        pool = list(range(n))
        loc = []
        for i in range(k):
            loc.append(pool.pop(sels[i % len(sels)] % len(pool)))
        return loc

    def pick_gate(self, radixes, g_sel, p):
        cat = cat_for(tuple(radixes))
        spec = cat[g_sel % len(cat)]
        g = gate_of(spec)
        params = [p[i % len(p)] + 0.125 * i for i in range(g.num_params)]
        return spec, g, params

    def occupied(self, c):
        return [(r.cycle, r.loc[0]) for r in self.pre]

    def build_sub(self, radixes, subops):
        from bqskit.ir.circuit import Circuit
        sub = Circuit(len(radixes), list(radixes))
        for so in subops:
            loc = self.pick_loc(sub, so['loc'], so['k'], maxk=2)
            _, g, params = self.pick_gate(
                [radixes[q] for q in loc], so['g'], so['p'],
            )
            sub.append_gate(g, loc, params)
        return sub

    # -- main
    def run(self, case):
        from bqskit.ir.circuit import Circuit
        radixes = list(case['radixes'])
        c = Circuit(len(radixes), radixes)
        self.c = c
        try:
            for step in case['steps']:
                self.step(step)
        except Stop:
            pass
        return self.c

    def expect_unchanged(self, name, pre_proj):
        c = self.c
        post = snapshot(c)
        pp = flat_proj(per_qudit(post, c.num_qudits), c.num_qudits)
        d = proj_diff(pre_proj, pp)
        if d is not None:
            self.fail_prog(f'prog_rejected_call_changed_circuit|{name}', d)

    def step(self, s):
        from bqskit.ir.operation import Operation
        from bqskit.ir.gates.circuitgate import CircuitGate
        c = self.c
        name = s['op']
        n, m = c.num_qudits, c.num_cycles
        self.pre = pre = snapshot(c)
        seqs = per_qudit(pre, n)
        exp = None          # expected per-qudit record sequences (width may change)
        exp_n = n
        valid = True        # arguments valid by construction?
        post_checks = []    # callables(real circuit) -> None
        new_c = None        # when the call yields a new circuit to continue with
        call = None
        desc = name

        def rec_new(g, loc, params, cyc=-1):
            return Rec(g, loc, params, cyc)

        if name in ('append', 'append_gate'):
            loc = self.pick_loc(c, s['loc'], s['k'])
            spec, g, params = self.pick_gate(
                [c.radixes[q] for q in loc], s['g'], s['p'],
            )
            r = rec_new(g, loc, params)
            exp = [row + ([r] if q in loc else []) for q, row in enumerate(seqs)]
            desc = f'{name}({spec.get("g")}{spec.get("a", "")},{loc})'
            if name == 'append':
                op = Operation(g, loc, params)
                call = lambda: c.append(op)
            else:
                call = lambda: c.append_gate(g, loc, params)

            def chk_ret(ret, loc=loc):
                if not isinstance(ret, (int, np.integer)) or not (
                    0 <= ret < c.num_cycles
                ):
                    self.fail_prog('prog_append_return', f'returned {ret!r}')
                    return
                for q in loc:
                    if c.is_point_idle((ret, q)) or \
                            tuple(c[ret, q].location) != tuple(loc):
                        self.fail_prog(
                            'prog_append_return',
                            f'returned cycle {ret} does not hold the op on {q}',
                        )
                        return
            post_checks.append(chk_ret)
        elif name in ('insert', 'insert_gate'):
            loc = self.pick_loc(c, s['loc'], s['k'])
            spec, g, params = self.pick_gate(
                [c.radixes[q] for q in loc], s['g'], s['p'],
            )
            ci = s['cyc'] % (2 * m + 5) - (m + 2)     # in [-m-2, m+2]
            r = rec_new(g, loc, params)
            if m == 0 or ci >= m:
                exp = [row + ([r] if q in loc else [])
                       for q, row in enumerate(seqs)]
                eff = None
            else:
                eff = 0 if ci < -m else (ci + m if ci < 0 else ci)
                exp = place_at(seqs, {q: [r] for q in loc}, eff)
            desc = f'{name}({ci},{spec.get("g")}{spec.get("a", "")},{loc})'
            if name == 'insert':
                op = Operation(g, loc, params)
                call = lambda: c.insert(ci, op)
            else:
                call = lambda: c.insert_gate(ci, g, loc, params)
            if eff is not None:
                def chk_pos(ret, eff=eff, loc=loc, g=g):
                    for q in loc:
                        if c.is_point_idle((eff, q)) or \
                                c[eff, q].gate != g or \
                                tuple(c[eff, q].location) != tuple(loc):
                            self.fail_prog(
                                'prog_insert_position',
                                f'op not at cycle {eff} qudit {q} after insert',
                            )
                            return
                post_checks.append(chk_pos)
        elif name in ('append_circuit', 'insert_circuit'):
            loc = self.pick_loc(c, s['loc'], s['k'])
            sub = self.build_sub([c.radixes[q] for q in loc], s['sub'])
            as_gate = bool(s.get('as_gate'))
            move = bool(s.get('move')) and as_gate
            if as_gate:
                g = CircuitGate(sub)
                r = rec_new(g, loc, list(sub.params))
                newper = {q: [r] for q in loc}
            else:
                _, newper = sub_records(sub, loc)
            if name == 'append_circuit':
                exp = [row + newper.get(q, []) for q, row in enumerate(seqs)]
                call = lambda: c.append_circuit(sub, loc, as_gate, move)
                desc = f'append_circuit({sub.num_operations}ops,{loc},{as_gate})'
            else:
                ci = s['cyc'] % (2 * m + 5) - (m + 2)
                if m == 0 or ci >= m:
                    exp = [row + newper.get(q, [])
                           for q, row in enumerate(seqs)]
                else:
                    eff = 0 if ci < -m else (ci + m if ci < 0 else ci)
                    exp = place_at(seqs, newper, eff)
                call = lambda: c.insert_circuit(ci, sub, loc, as_gate, move)
                desc = (f'insert_circuit({ci},{sub.num_operations}ops,{loc},'
                        f'{as_gate})')
        elif name == 'extend':
            news = []
            exp = [list(row) for row in seqs]
            for so in s['sub']:
                loc = self.pick_loc(c, so['loc'], so['k'])
                _, g, params = self.pick_gate(
                    [c.radixes[q] for q in loc], so['g'], so['p'],
                )
                news.append(Operation(g, loc, params))
                r = rec_new(g, loc, params)
                for q in loc:
                    exp[q].append(r)
            call = lambda: c.extend(news)
        elif name in ('pop', 'remove_op'):
            if not pre:
                valid = False
                call = lambda: c.pop()
                exp = seqs
                desc = 'pop() on empty'
            else:
                r = pre[s['pt'] % len(pre)]
                mode = s.get('mode', 0) % 4
                exp = [[x for x in row if x is not r] for row in seqs]
                if name == 'remove_op':
                    # remove(op): removes the FIRST occurrence of an equal op
                    first = None
                    for x in sorted(pre, key=lambda x: (x.cycle, min(x.loc))):
                        if x.gate == r.gate and x.loc == r.loc and \
                                x.params == r.params:
                            first = x
                            break
                    exp = [[x for x in row if x is not first] for row in seqs]
                    op = Operation(r.gate, r.loc, list(r.params))
                    call = lambda: c.remove(op)
                    desc = f'remove({r.gate.name}@{r.loc})'
                elif mode == 0 and r is max(
                    (x for x in pre if x.cycle == m - 1),
                    key=lambda x: max(x.loc), default=None,
                ):
                    call = lambda: c.pop()
                    desc = 'pop()'
                else:
                    q = r.loc[s.get('q', 0) % len(r.loc)]
                    cy = r.cycle - m if mode == 1 else r.cycle
                    qq = q - n if mode == 2 else q
                    call = lambda: c.pop((cy, qq))
                    desc = f'pop(({cy},{qq}))'

                    def chk_pop(ret, r=r):
                        if ret is not r.op and not (
                            ret.gate == r.gate
                            and tuple(ret.location) == r.loc
                        ):
                            self.fail_prog('prog_pop_return', f'{ret}')
                    post_checks.append(chk_pop)
        elif name == 'remove_gate':
            if not pre:
                return
            r = pre[s['pt'] % len(pre)]
            cands = sorted(
                (x for x in pre if x.gate == r.gate),
                key=lambda x: (x.cycle, min(x.loc)),
            )
            every = bool(s.get('all'))
            gone = cands if every else cands[:1]
            exp = [[x for x in row if all(x is not y for y in gone)]
                   for row in seqs]
            if every:
                call = lambda: c.remove_all(r.gate)
            else:
                call = lambda: c.remove(r.gate)
            desc = f'remove{"_all" if every else ""}({r.gate.name})'
        elif name == 'batch_pop':
            if not pre:
                return
            idx = sorted({x % len(pre) for x in s['pts']})
            gone = [pre[i] for i in idx]
            pts = [(r.cycle, r.loc[j % len(r.loc)])
                   for j, r in enumerate(gone)]
            exp = [[x for x in row if all(x is not y for y in gone)]
                   for row in seqs]
            call = lambda: c.batch_pop(pts)
            desc = f'batch_pop({pts})'

            def chk_bp(ret, gone=gone):
                qs = sorted({q for r in gone for q in r.loc})
                if ret.num_qudits != len(qs):
                    self.fail_prog('prog_batch_pop_return_width',
                                   f'{ret.num_qudits} want {len(qs)}')
                    return
                want = per_qudit(
                    [Rec(r.gate, [qs.index(q) for q in r.loc], r.params,
                         r.cycle) for r in gone], len(qs),
                )
                got = per_qudit(snapshot(ret), len(qs))
                d = proj_diff(flat_proj(want, len(qs)),
                              flat_proj(got, len(qs)))
                if d is not None:
                    self.fail_prog('prog_batch_pop_return', d)
            post_checks.append(chk_bp)
        elif name == 'pop_cycle':
            if m == 0:
                return
            ci = s['cyc'] % (2 * m) - m
            eff = ci + m if ci < 0 else ci
            exp = [[x for x in row if x.cycle != eff] for row in seqs]
            call = lambda: c.pop_cycle(ci)
            desc = f'pop_cycle({ci})'
        elif name in ('replace', 'replace_gate'):
            if not pre:
                return
            r = pre[s['pt'] % len(pre)]
            mode = s.get('mode', 0) % 3
            if mode == 0:      # same location (any order of the same qudits)
                loc = list(r.loc)
                pm = s.get('perm', 0) % 4
                if pm == 1 and len(loc) > 1:
                    loc = loc[1:] + loc[:1]
                elif pm == 2 and len(loc) > 2:
                    loc = loc[:1] + loc[:0:-1]    # same first qudit
                elif pm == 3 and len(loc) > 1:
                    loc = loc[::-1]
            else:              # overlapping different location
                keep = r.loc[s.get('q', 0) % len(r.loc)]
                others = [q for q in range(n) if q != keep]
                extra = []
                if others and mode == 2:
                    extra = [others[s['loc'][0] % len(others)]]
                loc = [keep] + extra
                if s.get('perm', 0) % 2:
                    loc = loc[::-1]
            spec, g, params = self.pick_gate(
                [c.radixes[q] for q in loc], s['g'], s['p'],
            )
            nr = rec_new(g, loc, params)
            base = [[x for x in row if x is not r] for row in seqs]
            exp = place_at(base, {q: [nr] for q in loc}, r.cycle)
            neg = bool(s.get('neg'))
            cy = r.cycle - m if neg else r.cycle
            pq = [q for q in r.loc if q in loc][0]
            if name == 'replace':
                op = Operation(g, loc, params)
                call = lambda: c.replace((cy, pq), op)
            else:
                call = lambda: c.replace_gate((cy, pq), g, loc, params)
            desc = f'{name}(({cy},{pq}),{spec.get("g")},{loc}) old={r.loc}'
        elif name == 'batch_replace':
            if not pre:
                return
            idx = sorted({x % len(pre) for x in s['pts']})
            olds = sorted((pre[i] for i in idx), key=lambda r: r.cycle)
            busy = {q for r in olds for q in r.loc}
            pts, ops_ = [], []
            exp = [list(row) for row in seqs]
            for j, r in enumerate(olds):
                loc = list(r.loc)
                mode = (s['g'] + j + s.get('perm', 0)) % 4
                mode = 2 if mode == 3 else mode
                if mode == 1 and len(loc) > 1:
                    loc = loc[1:] + loc[:1]
                elif mode == 2:
                    # widen onto a qudit no other replaced op of this batch
                    # touches: the new op may then collide with a neighbour
                    # in its cycle and make the circuit GROW during the batch
                    free = [q for q in range(n) if q not in busy]
                    occupied_here = {q for x in pre if x.cycle == r.cycle
                                     for q in x.loc}
                    colliding = [q for q in free if q in occupied_here]
                    if colliding and (s['g'] + j) % 4 != 3:
                        free = colliding
                    if free and len(loc) < 3:
                        x = free[(s['g'] + j) % len(free)]
                        busy.add(x)
                        loc = loc + [x]
                spec, g, params = self.pick_gate(
                    [c.radixes[q] for q in loc], s['g'] + j, s['p'],
                )
                pts.append((r.cycle, r.loc[0]))
                ops_.append(Operation(g, loc, params))
                nr = rec_new(g, loc, params, r.cycle)
                base = [[x for x in row if x is not r] for row in exp]
                exp = place_at(base, {q: [nr] for q in loc}, r.cycle)
            order = list(range(len(pts)))
            if s.get('perm', 0) % 2:
                order = order[::-1]
            pts = [pts[i] for i in order]
            ops_ = [ops_[i] for i in order]
            call = lambda: c.batch_replace(pts, ops_)
            desc = f'batch_replace({pts}, locs={[list(o.location) for o in ops_]})'
        elif name == 'replace_with_circuit':
            if not pre:
                return
            r = pre[s['pt'] % len(pre)]
            sub = self.build_sub([c.radixes[q] for q in r.loc], s['sub'])
            as_gate = bool(s.get('as_gate'))
            if as_gate:
                nr = rec_new(CircuitGate(sub), r.loc, list(sub.params))
                newper = {q: [nr] for q in r.loc}
            else:
                _, newper = sub_records(sub, r.loc)
            base = [[x for x in row if x is not r] for row in seqs]
            exp = place_at(base, newper, r.cycle)
            neg = bool(s.get('neg'))
            cy = r.cycle - m if neg else r.cycle
            pq = r.loc[s.get('q', 0) % len(r.loc)]
            call = lambda: c.replace_with_circuit((cy, pq), sub, as_gate)
            desc = (f'replace_with_circuit(({cy},{pq}),{sub.num_operations}ops,'
                    f'{as_gate}) old={r.loc}')
        elif name in ('fold', 'straighten'):
            if not pre:
                return
            mode = [0, 1, 2, 2][s.get('mode', 0) % 4]
            region = None
            if mode == 0:      # region of a set of ops
                idx = sorted({x % len(pre) for x in s['pts']})
                pts = [(pre[i].cycle, pre[i].loc[0]) for i in idx]
                try:
                    region = c.get_region(pts)
                except ValueError:
                    self.out.label('region:get_region-rejected')
                    return
            elif mode == 1:    # surround of one op
                r = pre[s['pt'] % len(pre)]
                try:
                    region = c.surround(
                        (r.cycle, r.loc[0]), 1 + s['k'] % min(4, n) + (
                            len(r.loc) - 1),
                    )
                except ValueError:
                    return
            else:              # arbitrary per-qudit intervals
                loc = self.pick_loc(c, s['loc'], s['k'], maxk=4)
                region = {}
                for j, q in enumerate(loc):
                    lo = s['pts'][j % len(s['pts'])] % m
                    hi = lo + s['pts'][(j + 1) % len(s['pts'])] % (m - lo)
                    region[q] = (lo, hi)
                valid = False  # may be invalid: ValueError is documented
            exp = seqs
            rd = {int(k): (int(v[0]), int(v[1])) for k, v in dict(region).items()}
            if not rd:
                return
            if name == 'fold':
                call = lambda: c.fold(rd)

                def chk_fold(ret, rd=rd):
                    p = tuple(ret)
                    if not c.is_point_in_range(p):
                        self.fail_prog('prog_fold_return',
                                       f'returned point {p} is outside the '
                                       f'circuit ({c.num_cycles} cycles)')
                        return
                    if c.is_point_idle(p) or not isinstance(
                            c[p].gate, CircuitGate):
                        self.fail_prog('prog_fold_return',
                                       f'no CircuitGate at returned {p}')
                post_checks.append(chk_fold)
            else:
                call = lambda: c.straighten(rd)
            desc = f'{name}({rd})'
            # a valid region must be accepted; validity is judged by the
            # repo's own documented predicate only to label the case
            self.out.label('region:mode%d' % mode)
        elif name in ('unfold', 'batch_unfold', 'unfold_all'):
            blocks = [r for r in pre if isinstance(r.gate, CircuitGate)]
            exp = seqs
            if name == 'unfold_all':
                call = lambda: c.unfold_all()
            elif not blocks:
                return
            elif name == 'unfold':
                r = blocks[s['pt'] % len(blocks)]
                pq = r.loc[s.get('q', 0) % len(r.loc)]
                call = lambda: c.unfold((r.cycle, pq))
                desc = f'unfold(({r.cycle},{pq}))'
            else:
                idx = sorted({x % len(blocks) for x in s['pts']})
                pts = [(blocks[i].cycle, blocks[i].loc[-1]) for i in idx]
                call = lambda: c.batch_unfold(pts)
                desc = f'batch_unfold({pts})'
        elif name == 'compress':
            exp = seqs
            call = lambda: c.compress()
        elif name == 'copy':
            exp = seqs
            old = c

            def do_copy():
                nonlocal new_c
                new_c = old.copy()
            call = do_copy
        elif name == 'become':
            from bqskit.ir.circuit import Circuit
            exp = seqs
            old = c
            deep = bool(s.get('deep', 1))

            def do_become():
                nonlocal new_c
                new_c = Circuit(1)
                new_c.become(old, deep)
            call = do_become
        elif name == 'clear':
            exp = [[] for _ in range(n)]
            call = lambda: c.clear()
        elif name in ('append_qudit', 'insert_qudit', 'extend_qudits'):
            radix = [2, 2, 3, 4][s.get('radix', 0) % 4]
            if name == 'append_qudit':
                eff = n
                call = lambda: c.append_qudit(radix)
                k = 1
            elif name == 'extend_qudits':
                eff = n
                k = 1 + s.get('k', 0) % 2
                call = lambda: c.extend_qudits([radix] * k)
            else:
                qi = s['q'] % (2 * n + 3) - (n + 1)     # [-n-1, n+1]
                eff = n if qi >= n else (0 if qi <= -n else (qi + n if qi < 0 else qi))
                k = 1
                call = lambda: c.insert_qudit(qi, radix)
                desc = f'insert_qudit({qi},{radix})'
            if n + k > 7:
                return
            relabel = {q: (q if q < eff else q + k) for q in range(n)}
            exp_n = n + k
            exp = [[] for _ in range(exp_n)]
            moved = {id(r): Rec(r.gate, [relabel[q] for q in r.loc], r.params,
                                r.cycle) for r in pre}
            for q, row in enumerate(seqs):
                exp[relabel[q]] = [moved[id(r)] for r in row]

            def chk_radix(ret, eff=eff, k=k, radix=radix, old=tuple(c.radixes)):
                want = old[:eff] + (radix,) * k + old[eff:]
                if tuple(c.radixes) != want:
                    self.fail_prog('prog_qudit_radixes',
                                   f'{c.radixes} want {want}')
            post_checks.append(chk_radix)
        elif name == 'pop_qudit':
            qi = s['q'] % (2 * n) - n
            eff = qi + n if qi < 0 else qi
            if n == 1:
                valid = False
                exp = seqs
            else:
                relabel = {q: (q if q < eff else q - 1)
                           for q in range(n) if q != eff}
                exp_n = n - 1
                keep = [r for r in pre if eff not in r.loc]
                moved = {id(r): Rec(r.gate, [relabel[q] for q in r.loc],
                                    r.params, r.cycle) for r in keep}
                exp = [[] for _ in range(exp_n)]
                for q, row in enumerate(seqs):
                    if q == eff:
                        continue
                    exp[relabel[q]] = [moved[id(r)] for r in row
                                       if id(r) in moved]

                def chk_radix2(ret, eff=eff, old=tuple(c.radixes)):
                    want = old[:eff] + old[eff + 1:]
                    if tuple(c.radixes) != want:
                        self.fail_prog('prog_qudit_radixes',
                                       f'{c.radixes} want {want}')
                post_checks.append(chk_radix2)
            call = lambda: c.pop_qudit(qi)
            desc = f'pop_qudit({qi})'
        elif name == 'renumber':
            perm = list(range(n))
            # selector-driven permutation
            pool = list(range(n))
            perm = [pool.pop(s['perm'][i % len(s['perm'])] % len(pool))
                    for i in range(n)]
            exp = [[] for _ in range(n)]
            moved = {id(r): Rec(r.gate, [perm[q] for q in r.loc], r.params,
                                r.cycle) for r in pre}
            for q, row in enumerate(seqs):
                exp[perm[q]] = [moved[id(r)] for r in row]
            call = lambda: c.renumber_qudits(perm)
            desc = f'renumber({perm})'

            def chk_radix3(ret, perm=perm, old=tuple(c.radixes)):
                want = [None] * len(old)
                for q, r_ in enumerate(old):
                    want[perm[q]] = r_
                if tuple(c.radixes) != tuple(want):
                    self.fail_prog('prog_renumber_radixes',
                                   f'{c.radixes} want {tuple(want)}')
            post_checks.append(chk_radix3)
        elif name in ('add', 'mul', 'iadd', 'imul', 'inverse'):
            if name in ('add', 'iadd'):
                sub = self.build_sub(list(c.radixes), s['sub'])
                _, newper = sub_records(sub, list(range(n)))
                exp = [row + newper.get(q, []) for q, row in enumerate(seqs)]
                if name == 'add':
                    def do_add():
                        nonlocal new_c
                        new_c = c + sub
                    call = do_add
                else:
                    def do_iadd():
                        nonlocal new_c
                        x = c
                        x += sub
                        new_c = x
                    call = do_iadd
            elif name in ('mul', 'imul'):
                k = s.get('k', 0) % 3 + (0 if name == 'mul' else 1)
                if len(pre) * max(k, 1) > 60:
                    return
                exp = [[] for _ in range(n)]
                for _ in range(k):
                    cp = {id(r): Rec(r.gate, r.loc, r.params, r.cycle)
                          for r in pre}
                    for q, row in enumerate(seqs):
                        exp[q] += [cp[id(r)] for r in row]
                if name == 'mul':
                    def do_mul():
                        nonlocal new_c
                        new_c = c * k
                    call = do_mul
                else:
                    def do_imul():
                        nonlocal new_c
                        x = c
                        x *= k
                        new_c = x
                    call = do_imul
                desc = f'{name}({k})'
            else:
                # inverse: judged by unitary (inverse gates have other forms)
                dim = int(np.prod(c.radixes))
                if dim > 256 or any(refsim.is_placeholder(r.op) for r in pre):
                    return
                inv = c.get_inverse()
                both = [(refsim.op_matrix(o), list(o.location))
                        for _, o in refsim.grid_ops(c)] + \
                       [(refsim.op_matrix(o), list(o.location))
                        for _, o in refsim.grid_ops(inv)]
                U = refsim.unitary_of_ops(c.radixes, both)
                if np.abs(U - np.eye(dim)).max() > 1e-7:
                    self.fail_prog('prog_inverse_not_identity',
                                   f'max dev {np.abs(U - np.eye(dim)).max():.2e}')
                self.kinds.add('inverse')
                return
        elif name == 'set_params':
            k = c.num_params
            if k == 0:
                return
            newp = [s['p'][i % len(s['p'])] - 0.0625 * i for i in range(k)]
            order = list(c)          # iteration order defines param slices
            byid = {}
            i = 0
            for o in order:
                byid[id(o)] = newp[i:i + o.num_params]
                i += o.num_params
            moved = {id(r): Rec(r.gate, r.loc, byid.get(id(r.op), r.params),
                                r.cycle) for r in pre}
            exp = [[moved[id(r)] for r in row] for row in seqs]
            call = lambda: c.set_params(newp)
        elif name == 'freeze':
            k = c.num_params
            dim = int(np.prod(c.radixes))
            if k == 0 or dim > 256 or \
                    any(refsim.is_placeholder(r.op) for r in pre):
                return
            i = s['pt'] % k
            U0 = refsim.circuit_unitary(c)
            try:
                c.freeze_param(i)
            except Exception as e:
                self.fail_view(core.exc_sig('err_freeze_param', e), repr(e))
                raise Stop()
            U1 = refsim.circuit_unitary(c)
            if c.num_params != k - 1:
                self.fail_prog('prog_freeze_num_params',
                               f'{c.num_params} want {k - 1}')
            if np.abs(U0 - U1).max() > 1e-9:
                self.fail_prog('prog_freeze_changed_unitary', '')
            self.kinds.add('freeze')
            self.log.append(f'freeze({i})')
            if self.want_views:
                check_views(c, self.fail_view)
            return
        else:
            raise core.HarnessError(f'unknown step {name}')

        # ---- execute
        self.log.append(desc)
        pre_proj = flat_proj(seqs, n)
        dimU = int(np.prod(c.radixes))
        U_before = None
        structural = name in (
            'fold', 'straighten', 'unfold', 'batch_unfold', 'unfold_all',
            'compress', 'renumber',
        )
        if self.want_unitary and structural and dimU <= 128 and pre and \
                not any(refsim.is_placeholder(r.op) for r in pre):
            try:
                U_before = np.asarray(c.get_unitary().numpy)
            except Exception:
                U_before = None
        try:
            ret = call()
        except DOC_ERRORS as e:
            if valid:
                self.fail_view(
                    core.exc_sig(f'err_valid_call_rejected|{name}', e),
                    f'{desc}: {e!r}',
                )
                raise Stop()
            self.out.label(f'rejected:{name}')
            self.expect_unchanged(name, pre_proj)
            if self.want_views:
                check_views(c, self.fail_view)
            return
        except Exception as e:
            self.fail_view(core.exc_sig('err_internal', e),
                           f'{desc}: {e!r}')
            raise Stop()
        if new_c is not None:
            if new_c is None or not hasattr(new_c, 'num_qudits'):
                self.fail_prog(f'prog_{name}_returns_no_circuit', repr(new_c))
                raise Stop()
            if name in ('copy', 'become', 'add', 'mul'):
                # source must be untouched
                self.expect_unchanged(name + '_source', pre_proj)
            self.c = c = new_c
        elif name in ('iadd', 'imul'):
            self.fail_prog(f'prog_{name}_returns_no_circuit',
                           f'"c {"+=" if name == "iadd" else "*="} x" rebinds c '
                           f'to None')
            # continue with the in-place object, which was mutated
        self.nmut += 1
        self.kinds.add(name)
        if name == 'batch_replace':
            if len({pt[0] for pt in pts}) > 1:
                self.out.label('batch_replace:several-cycles')
                if c.num_cycles > m:
                    self.out.label('batch_replace:several-cycles+grew')
            if c.num_cycles < m:
                self.out.label('batch_replace:shrank')
        # ---- judge
        post = snapshot(c)
        if c.num_qudits != exp_n:
            self.fail_prog(f'prog_width|{name}',
                           f'{c.num_qudits} want {exp_n}')
            raise Stop()
        got_proj = flat_proj(per_qudit(post, exp_n), exp_n)
        want_proj = flat_proj(exp, exp_n)
        d = proj_diff(want_proj, got_proj)
        if d is not None:
            self.fail_prog(f'prog_order|{name}', f'{desc}: {d}')
            raise Stop()
        for chk in post_checks:
            chk(ret)
        if U_before is not None:
            try:
                U_after = np.asarray(c.get_unitary().numpy)
                if name == 'renumber':
                    # conjugation by the qudit permutation: compare through
                    # refsim on the expected relabelled program
                    ref = refsim.unitary_of_ops(
                        c.radixes,
                        [(refsim.op_matrix(o), list(o.location))
                         for _, o in refsim.grid_ops(c)],
                    )
                    if np.abs(U_after - ref).max() > 1e-8:
                        self.fail_prog('prog_unitary|renumber', '')
                elif np.abs(U_after - U_before).max() > 1e-8:
                    self.fail_prog(
                        f'prog_unitary_changed|{name}',
                        f'max dev {np.abs(U_after - U_before).max():.2e}',
                    )
            except Exception as e:
                self.fail_view(core.exc_sig(f'err_get_unitary_after|{name}', e),
                               repr(e))
        if sum(1 for r in post if len(r.loc) > 1) >= 2:
            self.saw_multi += 1
        if not self.want_views and name in ('fold', 'straighten'):
            # C05's open finding: these calls can leave an empty cycle.  The
            # circuit is then outside the invariant every other call assumes;
            # the program-order oracle stops here instead of reporting
            # follow-on effects of that finding under other names.
            if any(
                all(c.is_point_idle((cy, q)) for q in range(c.num_qudits))
                for cy in range(c.num_cycles)
            ):
                self.out.label('stopped:idle-cycle-after-' + name)
                self.idle_cycle = True
                raise Stop()
        if self.want_views:
            before = len(self.out.violations)
            check_views(c, self.fail_view)
            if len(self.out.violations) > before:
                # tag the call that broke the views into the first new sig
                for v in self.out.violations[before:]:
                    v.sig = f'{v.sig}|after:{name}'
                raise Stop()


# ------------------------------------------------------------- strategies
SEL = st.integers(0, 40)
P3 = st.lists(
    st.one_of(st.sampled_from(specs.SPECIAL_PARAMS),
              st.floats(-6.3, 6.3, allow_nan=False)),
    min_size=3, max_size=3,
)
SUBOP = st.fixed_dictionaries({'loc': st.lists(SEL, min_size=2, max_size=2),
                               'k': SEL, 'g': SEL, 'p': P3})
SUB = st.lists(SUBOP, min_size=0, max_size=4)


def _step(name, **kw):
    return st.fixed_dictionaries(dict({'op': st.just(name)}, **kw))


LOC = st.lists(SEL, min_size=3, max_size=3)
PTS = st.lists(SEL, min_size=1, max_size=5)
PTS2 = st.lists(SEL, min_size=2, max_size=5, unique=True)
B = st.integers(0, 1)

STEP_STRATS = {
    'append': _step('append', loc=LOC, k=SEL, g=SEL, p=P3),
    'append_gate': _step('append_gate', loc=LOC, k=SEL, g=SEL, p=P3),
    'insert': _step('insert', loc=LOC, k=SEL, g=SEL, p=P3, cyc=SEL),
    'insert_gate': _step('insert_gate', loc=LOC, k=SEL, g=SEL, p=P3, cyc=SEL),
    'append_circuit': _step('append_circuit', loc=LOC, k=SEL, sub=SUB,
                            as_gate=B, move=B),
    'insert_circuit': _step('insert_circuit', loc=LOC, k=SEL, sub=SUB,
                            as_gate=B, move=B, cyc=SEL),
    'extend': _step('extend', sub=SUB),
    'pop': _step('pop', pt=SEL, mode=SEL, q=SEL),
    'remove_op': _step('remove_op', pt=SEL),
    'remove_gate': _step('remove_gate', pt=SEL, all=B),
    'batch_pop': _step('batch_pop', pts=PTS2),
    'pop_cycle': _step('pop_cycle', cyc=SEL),
    'replace': _step('replace', pt=SEL, mode=SEL, q=SEL, perm=SEL, loc=LOC,
                     g=SEL, p=P3, neg=B),
    'replace_gate': _step('replace_gate', pt=SEL, mode=SEL, q=SEL, perm=SEL,
                          loc=LOC, g=SEL, p=P3, neg=B),
    'batch_replace': _step('batch_replace', pts=PTS2, g=SEL, p=P3, perm=SEL),
    'replace_with_circuit': _step('replace_with_circuit', pt=SEL, q=SEL,
                                  sub=SUB, as_gate=B, neg=B),
    'fold': _step('fold', mode=SEL, pts=PTS, pt=SEL, k=SEL, loc=LOC),
    'straighten': _step('straighten', mode=SEL, pts=PTS, pt=SEL, k=SEL,
                        loc=LOC),
    'unfold': _step('unfold', pt=SEL, q=SEL),
    'batch_unfold': _step('batch_unfold', pts=PTS2),
    'unfold_all': _step('unfold_all'),
    'compress': _step('compress'),
    'copy': _step('copy'),
    'become': _step('become', deep=B),
    'clear': _step('clear'),
    'append_qudit': _step('append_qudit', radix=SEL),
    'extend_qudits': _step('extend_qudits', radix=SEL, k=SEL),
    'insert_qudit': _step('insert_qudit', q=SEL, radix=SEL),
    'pop_qudit': _step('pop_qudit', q=SEL),
    'renumber': _step('renumber', perm=LOC),
    'add': _step('add', sub=SUB),
    'iadd': _step('iadd', sub=SUB),
    'mul': _step('mul', k=SEL),
    'imul': _step('imul', k=SEL),
    'inverse': _step('inverse'),
    'set_params': _step('set_params', p=P3),
    'freeze': _step('freeze', pt=SEL),
}

WEIGHTS = {
    'append': 6, 'append_gate': 4, 'insert': 6, 'insert_gate': 3,
    'append_circuit': 3, 'insert_circuit': 3, 'extend': 1, 'pop': 5,
    'remove_op': 1, 'remove_gate': 1, 'batch_pop': 3, 'pop_cycle': 2,
    'replace': 4, 'replace_gate': 2, 'batch_replace': 5,
    'replace_with_circuit': 3, 'fold': 5, 'straighten': 2, 'unfold': 4,
    'batch_unfold': 3, 'unfold_all': 1, 'compress': 1, 'copy': 1, 'become': 1,
    'clear': 0, 'append_qudit': 1, 'extend_qudits': 1, 'insert_qudit': 2,
    'pop_qudit': 2, 'renumber': 3, 'add': 1, 'iadd': 1, 'mul': 1, 'imul': 1,
    'inverse': 1, 'set_params': 1, 'freeze': 1,
}


def steps_strategy(exclude=()):
    names = [n for n, w in WEIGHTS.items() for _ in range(w)
             if n not in exclude]
    return st.sampled_from(names).flatmap(lambda n: STEP_STRATS[n])


@st.composite
def histories(draw, max_steps=30, max_n=5, exclude=()):
    radixes = draw(specs.radix_lists(1, max_n, 512))
    steps = draw(st.lists(steps_strategy(exclude), min_size=min(4, max_steps),
                          max_size=max_steps))
    return {'radixes': radixes, 'steps': steps}
