"""C10 - every circuit-rewriting pass preserves its target within stated
tolerance and establishes its advertised postcondition.

Case (JSON):
  {"row": <catalogue row>, "opts": {...ctor options...}, "circ": circuit-spec,
   "seed": S, ...row specific...}
circuit-spec is the vt.gen.specs format; an op may carry
  "u": {"kind": K, "seed": S}   -> parameters of a VariableUnitaryGate are
                                   derived from a (structured) unitary
instead of "params" (see ``materialise``).

The CATALOGUE table at the bottom has one row per pass: constructor-option
strategy + domain generator (``gen``), builder (``make``), exactness class,
rewrite bound R and postcondition.  Development aids:
``/venv/bin/python -m vt.props.c10 ROW|all N [seed]`` runs N generated cases of
one row in-process; ``C10_ROWS=RowA,RowB ./check C10`` restricts a run to some
rows.  Pass classes exported by ``bqskit.passes`` that no row covers are
reported as ``not-in-catalogue:<name>`` labels (never a failure).
"""
from __future__ import annotations

import atexit
import math
import os
import re
import socket
import subprocess
import sys
import time
import traceback

import numpy as np
from hypothesis import strategies as st

from vt import core
from vt.core import Outcome
from vt.gen import specs
from vt.oracle import refsim

ID = 'C10'
LEVEL = 'exploration'
RULE = (
    'cases: for every row of the CATALOGUE (one per shipped rewriting pass) a '
    'circuit from the domain the pass documents/its callers respect (rich in '
    'the gate it rewrites, widths 1-5 for exact rows, <=3 for numerical rows, '
    'parameters from {0, +-pi/2, +-pi, 2pi, pi/4, tiny, large, generic}) x the '
    'constructor options that change behaviour. Oracle: independent numpy '
    'simulator on the input spec and on the output circuit; exact rows '
    'd<=1e-7 (HS distance and phase-insensitive max-diff), analytic rows 1e-6, '
    'numerical rows (R+1)*sqrt(2*eps)*4; per-row postcondition. Non-trivial: '
    'the pass changed the operation list (removal/substitution rows: a '
    'removable gate was planted as well; CompressPass: an operation changed '
    'cycle; passes that must not rewrite: >= 3 operations). '
    'Distinct = sha1 of the JSON case.'
)
ASSUMPTIONS = [
    'vt/oracle/refsim.py (numpy tensor contraction) composes operations '
    'correctly; single gate matrices come from Gate.get_unitary (C18)',
    'Gate equality/isinstance is used only to classify operations '
    '(postconditions), never to judge the unitary',
    'passes that await the runtime run on a real attached runtime server '
    '(one per shard, private ports) - the runtime itself is C07/C12-C15',
    'a wall-clock hang guard (GUARD_S) turns a non-terminating numerical pass '
    'into an inconclusive, labelled case; it never produces a violation',
]
SHARDS = {'quick': 16, 'thorough': 16}
BUDGET_S = {'quick': 230, 'thorough': 2400}

# ------------------------------------------------------------------ constants
EXACT_TOL = 1e-7        # exact rows: HS distance and phase-insensitive max diff
ANALYTIC_TOL = 1e-6     # CS/eigen/Schur based decompositions (no threshold)
NUM_FACTOR = 4.0        # numerical rows: (R+1) * sqrt(2 eps) * NUM_FACTOR
GUARD_S = 75.0          # hang guard for one runtime case (inconclusive if hit)
PI = math.pi


class HangGuard(Exception):
    pass


class RuntimeLost(Exception):
    """The runtime server went away (not judged here: C13/C14)."""


class RemoteError(Exception):
    """A pass raised inside the runtime; carries the remote traceback text."""


# ------------------------------------------------------------------ unitaries
def _perm_matrix(n: int, radix: int, perm) -> np.ndarray:
    """P|x_0..x_{n-1}> = |x_{perm[0]}..x_{perm[n-1]}>, qudit 0 most
    significant (definition of PermutationMatrix.from_qudit_location, which
    C20 checks against the same definition)."""
    dim = radix ** n
    P = np.zeros((dim, dim))
    for col in range(dim):
        ds, c = [], col
        for _ in range(n):
            ds.append(c % radix)
            c //= radix
        ds.reverse()
        row = 0
        for i in range(n):
            row = row * radix + ds[perm[i]]
        P[row, col] = 1
    return P


U_KINDS = ['haar', 'haar', 'haar', 'identity', 'phase', 'diag', 'perm', 'cu',
           'blockdiag', 'kron', 'real', 'cnotlike', 'near_id']


def unitary_kind(kind: str, dim: int, seed: int) -> np.ndarray:
    rng = np.random.default_rng(seed)
    if kind == 'haar':
        return specs.haar(dim, seed)
    if kind == 'identity':
        return np.eye(dim, dtype=np.complex128)
    if kind == 'phase':
        return np.exp(1j * rng.uniform(-PI, PI)) * np.eye(dim)
    if kind == 'diag':
        return np.diag(np.exp(1j * rng.uniform(-PI, PI, dim)))
    if kind == 'perm':
        return np.eye(dim, dtype=np.complex128)[rng.permutation(dim)]
    if kind == 'cu':      # controlled-U on the most significant qudit (qubit)
        h = dim // 2
        M = np.eye(dim, dtype=np.complex128)
        M[h:, h:] = specs.haar(h, seed + 1)
        return M
    if kind == 'blockdiag':
        h = dim // 2
        M = np.zeros((dim, dim), dtype=np.complex128)
        M[:h, :h] = specs.haar(h, seed + 1)
        M[h:, h:] = specs.haar(h, seed + 2)
        return M
    if kind == 'kron':
        h = dim // 2
        return np.kron(specs.haar(2, seed + 1), specs.haar(h, seed + 2))
    if kind == 'real':
        z = rng.normal(size=(dim, dim))
        q, r = np.linalg.qr(z)
        return (q * np.sign(np.diag(r))).astype(np.complex128)
    if kind == 'cnotlike':   # X on the least significant qubit controlled by
        M = np.eye(dim, dtype=np.complex128)      # the most significant one
        h = dim // 2
        idx = np.arange(h, dim)
        M[h:, h:] = np.eye(h)[(idx - h) ^ 1]
        return M
    if kind == 'near_id':
        z = rng.normal(size=(dim, dim)) + 1j * rng.normal(size=(dim, dim))
        H = (z + z.conj().T) * 1e-6
        w, v = np.linalg.eigh(H)
        return (v * np.exp(1j * w)) @ v.conj().T
    raise core.HarnessError(f'unknown unitary kind {kind}')


def vu_params(U: np.ndarray) -> list:
    return [float(x) for x in np.real(U).flatten()] + \
        [float(x) for x in np.imag(U).flatten()]


def materialise(spec: dict) -> dict:
    """Replace every {"u": ...} annotation by explicit parameters."""
    ops = []
    for o in spec['ops']:
        g = o['gate']
        if g.get('g') == 'CircuitGate':
            sub = materialise(g['circ'])
            o = dict(o, gate={'g': 'CircuitGate', 'circ': sub},
                     params=[p for so in sub['ops'] for p in so['params']])
        elif 'u' in o:
            dim = int(np.prod([spec['radixes'][q] for q in o['loc']]))
            U = unitary_kind(o['u']['kind'], dim, o['u']['seed'])
            o = {'gate': g, 'loc': o['loc'], 'params': vu_params(U)}
        ops.append(o)
    return {'radixes': list(spec['radixes']), 'ops': ops}


# ------------------------------------------------------------------ distances
def hs_distance_stable(U: np.ndarray, V: np.ndarray) -> float:
    """sqrt(1 - x^2) with x = |<U,V>| / (|U|_F |V|_F), evaluated as
    sqrt((1-x)(1+x)) where 1-x = |U/|U| - e^{i phi} V/|V||_F^2 / 2.  For
    unitaries x = |tr U^dag V|/N, the repo's metric; the direct formula
    (refsim.hs_distance) loses half the digits near 0 (noise floor ~3e-8,
    more when a gate matrix is unitary only to 1e-14)."""
    nu, nv = float(np.linalg.norm(U)), float(np.linalg.norm(V))
    if nu == 0 or nv == 0:
        return float('inf')
    A, B = U / nu, V / nv
    ov = np.vdot(B, A)
    ph = ov / abs(ov) if abs(ov) > 1e-300 else 1.0
    one_minus_x = float(np.linalg.norm(A - ph * B)) ** 2 / 2
    x = 1 - one_minus_x
    return float(np.sqrt(max(0.0, one_minus_x * (1 + x))))


def distance(U: np.ndarray, V: np.ndarray) -> tuple:
    """(hs distance, phase-insensitive max diff).  refsim.hs_distance is the
    judge; when it exceeds 5e-8 it is re-evaluated in the well-conditioned
    form so that rounding in 1-x^2 cannot raise an alarm."""
    d = refsim.hs_distance(U, V)
    if d > 1e-8:
        d = hs_distance_stable(U, V)
    return d, refsim.phase_max_diff(U, V)


def numerical_tol(eps: float, R: int) -> float:
    return (R + 1) * math.sqrt(2 * eps) * NUM_FACTOR


# ------------------------------------------------------------------ execution
def drive_inproc(passes, circuit, data) -> None:
    """Run passes that never await the runtime (BUILDING.md)."""
    from bqskit.compiler.workflow import Workflow
    coro = Workflow(passes).run(circuit, data)
    try:
        coro.send(None)
    except StopIteration:
        return
    coro.close()
    raise core.HarnessError(
        f'pass in {[type(p).__name__ for p in passes]} awaited the runtime '
        'but its catalogue row says in-process',
    )


def _free_port() -> int:
    s = socket.socket()
    s.bind(('localhost', 0))
    p = s.getsockname()[1]
    s.close()
    return p


class Runtime:
    """One attached runtime server with ONE worker, on private ports.

    ``Compiler(num_workers=1)`` always makes its server listen on the fixed
    default ports (7472/7474): sixteen shards (or two checks running at the
    same time) would cross-connect.  The server is therefore started with the
    repository's own ``start_attached_server(1, port=, worker_port=)`` and the
    Compiler connects to it by address; a client disconnect shuts an attached
    server down, and the process tree is killed on a hang."""

    def __init__(self) -> None:
        self.proc = None
        self.comp = None
        self.starts = 0

    def get(self):
        if self.comp is not None and self.comp.conn is None:
            self.kill()
        if self.comp is None:
            self._start()
        return self.comp

    def _start(self) -> None:
        from bqskit.compiler import Compiler
        last = None
        for _ in range(3):
            sp, wp = _free_port(), _free_port()
            code = (
                'import warnings; warnings.filterwarnings("ignore");'
                'from bqskit.runtime.attached import start_attached_server;'
                f'start_attached_server(1, port={sp}, worker_port={wp}, '
                'log_level=50, num_blas_threads=1)'
            )
            self.proc = subprocess.Popen(
                [sys.executable, '-c', code], stdout=subprocess.DEVNULL,
                stderr=subprocess.DEVNULL, cwd=core.VERIF_ROOT,
            )
            try:
                self.comp = Compiler('localhost', sp)
                self.starts += 1
                self._warm_up()
                return
            except Exception as e:       # port race / server died: retry
                last = e
                self.kill()
        raise core.HarnessError(f'cannot start a runtime server: {last!r}')

    def _warm_up(self) -> None:
        """The worker imports bqskit on its first task (tens of seconds on a
        busy machine); keep that out of the first case's hang guard."""
        from bqskit.ir.circuit import Circuit
        from bqskit.passes.noop import NOOPPass
        self.compile(Circuit(1), [NOOPPass()], {}, 900.0)

    def kill(self) -> None:
        procs = []
        if self.proc is not None:
            try:
                import psutil
                p = psutil.Process(self.proc.pid)
                procs = p.children(recursive=True) + [p]
            except Exception:
                procs = []
        comp, self.comp = self.comp, None
        if comp is not None:
            try:
                if comp.conn is not None:
                    comp.conn.close()
                comp.conn = None
                comp.close()
            except Exception:
                pass
        for p in procs:
            try:
                p.kill()
            except Exception:
                pass
        if self.proc is not None:
            try:
                self.proc.wait(timeout=10)
            except Exception:
                pass
        self.proc = None

    def close(self) -> None:
        if self.comp is not None and self.comp.conn is not None:
            try:
                self.comp.close()
                self.comp = None
                if self.proc is not None:
                    self.proc.wait(timeout=10)
                    self.proc = None
                    return
            except Exception:
                pass
        self.kill()

    def _rpc(self, msg, payload, t_end: float):
        """One round trip.  Compiler._send_recv closes the client on ANY pass
        error (and an attached server shuts down when its client goes), which
        would cost a server restart per failing case; the wire protocol is
        spoken directly instead: LOG messages are dropped, an ERROR (the
        remote traceback of a failed task) is raised after the reply to the
        current request has been consumed, so the connection stays in sync
        and the server and its worker live on."""
        from bqskit.runtime.message import RuntimeMessage as M
        conn = self.comp.conn
        conn.send((msg, payload))
        err = None
        while True:
            while not conn.poll(0.5):
                if time.monotonic() > t_end:
                    self.kill()
                    raise HangGuard()
            m, p = conn.recv()
            if m == M.LOG:
                continue
            if m == M.ERROR:
                err = p
                continue
            if err is not None:
                raise RemoteError(str(err))
            return m, p

    def compile(self, circuit, passes, data: dict, guard_s: float = GUARD_S):
        import logging
        from bqskit.compiler.status import CompilationStatus
        from bqskit.compiler.task import CompilationTask
        from bqskit.compiler.workflow import Workflow
        from bqskit.runtime.message import RuntimeMessage as M
        self.get()
        task = CompilationTask(circuit, Workflow(passes))
        task.request_data = True
        task.logging_level = logging.CRITICAL
        task.max_logging_depth = -1
        task.data.update(data)
        t_end = time.monotonic() + guard_s
        tid = task.task_id
        try:
            self.comp.conn.send((M.SUBMIT, task))
            nap = 0.004
            while True:
                m, st_ = self._rpc(M.STATUS, tid, t_end)
                if st_ == CompilationStatus.DONE:
                    break
                if time.monotonic() > t_end:
                    self.kill()
                    raise HangGuard()
                time.sleep(nap)
                nap = min(0.1, nap * 1.4)
            m, payload = self._rpc(M.REQUEST, tid, t_end)
            if m != M.RESULT:
                raise core.HarnessError(f'unexpected runtime message {m}')
            return payload
        except RemoteError:
            try:                      # forget the failed task on the server
                self._rpc(M.CANCEL, tid, time.monotonic() + 20)
            except RemoteError:
                pass
            raise
        except (EOFError, ConnectionError, OSError) as e:
            self.kill()
            raise RuntimeLost(repr(e))


RT = Runtime()
atexit.register(RT.kill)

_FRAME = re.compile(r'File "([^"]+)", line \d+, in (\S+)')


def _sig_from_frames(frames, etype: str) -> str:
    """exc|<innermost frame in bqskit/passes>|<type>|<innermost bqskit file>.
    The same root cause reached through different rows (or through different
    helper functions of the same module below the pass) gets the same sig."""
    inner = pas = 'outside'
    for fn, name in frames:
        fn = fn.replace(chr(92), '/')
        if '/bqskit/' in fn:
            inner = os.path.basename(fn)
            if '/bqskit/passes/' in fn:
                pas = f'{os.path.basename(fn)}:{name}'
    return f'exc|{pas}|{etype}|{inner}'


def remote_exc_sig(text: str) -> tuple:
    frames = _FRAME.findall(text)
    lines = text.rstrip().splitlines()
    last_frame = max(
        (i for i, ln in enumerate(lines) if ln.lstrip().startswith('File "')),
        default=-1,
    )
    head = next(
        (ln for ln in lines[last_frame + 1:] if ln and not ln[0].isspace()),
        lines[-1] if lines else 'Exception',
    )
    etype = head.split(':', 1)[0].strip().split('.')[-1]
    msg = ' '.join(lines[lines.index(head):])[:400] if head in lines else head
    return _sig_from_frames(frames, etype), msg


def local_exc_sig(exc: BaseException) -> tuple:
    frames = [
        (os.path.abspath(f.filename), f.name)
        for f in traceback.extract_tb(exc.__traceback__)
    ]
    return _sig_from_frames(frames, type(exc).__name__), repr(exc)[:400]


# ------------------------------------------------------------------ inspection
def G():
    import bqskit.ir.gates as g
    return g


def op_list(circuit) -> list:
    return [
        (op.gate, tuple(op.location), tuple(float(p) for p in op.params))
        for _, op in refsim.grid_ops(circuit)
    ]


def deep_gates(circuit) -> set:
    """Every gate of the circuit, CircuitGates and their contents included."""
    from bqskit.ir.gates.circuitgate import CircuitGate
    out = set()
    for _, op in refsim.grid_ops(circuit):
        out.add(op.gate)
        if isinstance(op.gate, CircuitGate):
            out |= deep_gates(op.gate._circuit)
    return out


def gname(g) -> str:
    return getattr(g, 'name', type(g).__name__)


def count_where(circuit, pred) -> int:
    return sum(1 for _, op in refsim.grid_ops(circuit) if pred(op))


def is_ph(op) -> bool:
    return refsim.is_placeholder(op)


# ------------------------------------------------------------------ catalogue
class Row:
    def __init__(
        self, name, klass, gen, make, post=None, runtime=False, R=None,
        eps=None, tol=None, rejects=None, reference=None, planted=None,
        q=4, t=100, guard_s=GUARD_S, nontrivial=None, feature=None,
    ):
        assert klass in ('exact', 'analytic', 'numerical')
        self.name, self.klass, self.gen, self.make = name, klass, gen, make
        self.post, self.runtime = post, runtime
        self.R = R or (lambda case, cin: cin.num_operations)
        self.eps = eps or (
            lambda case: case['opts'].get('success_threshold', 1e-8)
        )
        self.tol, self.rejects, self.reference = tol, rejects, reference
        self.planted = planted
        self.nontrivial = nontrivial
        self.feature = feature      # coarse input feature appended to sigs
        self.q, self.t, self.guard_s = q, t, guard_s

    def tolerance(self, case, cin) -> float:
        if self.tol is not None:
            return self.tol(case, cin)
        if self.klass == 'exact':
            return EXACT_TOL
        if self.klass == 'analytic':
            return ANALYTIC_TOL
        return numerical_tol(self.eps(case), self.R(case, cin))


ROWS: dict = {}


def row(*a, **k) -> None:
    r = Row(*a, **k)
    assert r.name not in ROWS
    ROWS[r.name] = r


def execute(r: Row, built: dict, work, case):
    """Returns (output circuit, PassData)."""
    passes, model = built['passes'], built.get('model')
    if r.runtime:
        d = {'seed': int(case['seed'])}
        if model is not None:
            d['model'] = model
        return RT.compile(work, passes, d, r.guard_s)
    from bqskit.compiler.passdata import PassData
    data = PassData(work)
    data.seed = int(case['seed'])
    if model is not None:
        data.model = model
    drive_inproc(passes, work, data)
    return work, data


def check(case) -> Outcome:
    r = ROWS[case['row']]
    out = Outcome()
    out.label('row:' + r.name, 'class:' + r.klass)
    out.excluded = int(case.get('excluded', 0))
    spec = materialise(case['circ'])
    if case.get('drop'):
        cin, spec = build_with_gaps(spec, case['drop'])
    else:
        cin = specs.build_circuit(spec)
    U_in = refsim.spec_unitary(spec)
    built = r.make(case)
    try:
        cout, data = execute(r, built, cin.copy(), case)
    except HangGuard:
        out.label('hang-guard:' + r.name)
        return out
    except RuntimeLost:
        out.label('runtime-lost:' + r.name)
        return out
    except RemoteError as e:
        sig, last = remote_exc_sig(str(e))
        if sig.startswith('exc|outside'):
            raise core.HarnessError('runtime task failed outside any pass:\n'
                                    + str(e))
        if r.rejects is not None and r.rejects(case, sig, last):
            out.label('documented-rejection:' + r.name)
            return out
        out.fail(sig, f'{r.name} opts={case["opts"]}: {last}')
        return out
    except core.HarnessError:
        raise
    except Exception as e:
        sig, last = local_exc_sig(e)
        if sig.startswith('exc|outside'):
            raise
        if r.rejects is not None and r.rejects(case, sig, last):
            out.label('documented-rejection:' + r.name)
            return out
        out.fail(sig, f'{r.name} opts={case["opts"]}: {last}')
        return out

    # width / radixes unchanged
    if tuple(cout.radixes) != tuple(cin.radixes):
        out.fail(
            f'radixes_changed|{r.name}',
            f'{tuple(cin.radixes)} -> {tuple(cout.radixes)}',
        )
        return out

    # unitary preserved
    feat = '' if r.feature is None else '|' + r.feature(case)
    try:
        U_out = refsim.circuit_unitary(cout)
        if not np.all(np.isfinite(U_out)):
            raise ValueError('non-finite entries')
    except Exception as e:
        # the pass emitted parameters its own gate cannot turn into a matrix
        out.fail(
            f'output_not_a_unitary|{r.name}{feat}|{type(e).__name__}',
            f'{e!r} opts={case["opts"]} out='
            f'{[(gname(g), p) for g, _, p in op_list(cout)][:4]}',
        )
        return out
    U_ref = U_in if r.reference is None else r.reference(case, U_in, data, out)
    if U_ref is not None:
        d, pm = distance(U_ref, U_out)
        tol = r.tolerance(case, cin)
        ptol = tol if r.klass != 'numerical' else tol * math.sqrt(
            U_in.shape[0],
        )
        if not (d <= tol) or not (pm <= ptol):
            out.fail(
                f'unitary|{r.name}{feat}',
                f'hs={d:.3e} maxdiff={pm:.3e} tol={tol:.3e} '
                f'opts={case["opts"]} in={cin.num_operations} ops '
                f'out={cout.num_operations} ops',
            )
        if r.klass != 'exact' and d > 0.1 * tol:
            out.label('d>tol/10')

    changed = op_list(cin) != op_list(cout)
    out.label('changed' if changed else 'unchanged')
    info = {'U_in': U_in, 'U_out': U_out, 'data': data, 'changed': changed,
            'built': built}
    if r.post is not None:
        r.post(case, cin, cout, info, out)
    if r.nontrivial is not None:
        out.nontrivial = bool(r.nontrivial(case, cin, cout, info))
    else:
        out.nontrivial = changed and (
            r.planted is None or bool(r.planted(case))
        )
    return out


def build_with_gaps(spec: dict, drop) -> tuple:
    """Append every op, then pop the ops whose indices are in `drop` (latest
    cycle first), which leaves idle gaps that appending alone never creates.
    Returns the circuit and the spec of what remains."""
    from bqskit.ir.circuit import Circuit
    c = Circuit(len(spec['radixes']), list(spec['radixes']))
    where = []
    for o in spec['ops']:
        cyc = c.append_gate(specs.build_gate(o['gate']), list(o['loc']),
                            list(o.get('params', [])))
        where.append((int(cyc), int(o['loc'][0])))
    idx = sorted({i for i in drop if 0 <= i < len(where)},
                 key=lambda i: where[i], reverse=True)
    if len(idx) >= len(where):
        idx = idx[1:]
    for i in idx:
        c.pop(where[i])
    keep = [o for i, o in enumerate(spec['ops']) if i not in set(idx)]
    return c, {'radixes': list(spec['radixes']), 'ops': keep}


def replay(case) -> Outcome:
    try:
        return check(case)
    finally:
        RT.close()


# ------------------------------------------------------------------ generators
def P(draw, n: int) -> list:
    return draw(specs.param_values(n)) if n else []


def _nparams(gspec: dict) -> int:
    return specs.gate_num_params(gspec)


def _has(op: dict, pred) -> bool:
    """pred(gate-spec) anywhere in an op spec (wrappers, nested circuits)."""
    def walk(g):
        if pred(g):
            return True
        if 'inner' in g and walk(g['inner']):
            return True
        if g.get('g') == 'CircuitGate':
            return any(walk(o['gate']) for o in g['circ']['ops'])
        return False
    return walk(op['gate'])


def _is_block(op: dict) -> bool:
    return op['gate'].get('g') == 'CircuitGate'


@st.composite
def radixes_with_qubits(draw, need: int, max_n: int = 5, qudits=True):
    n = draw(st.integers(max(need, 1), max_n))
    pool = [2, 2, 2, 3] if qudits else [2]
    r = [draw(st.sampled_from(pool)) for _ in range(n)]
    i = 0
    while sum(1 for x in r if x == 2) < need:
        if r[i] != 2:
            r[i] = 2
        i += 1
    while int(np.prod(r)) > 216:
        r[r.index(3)] = 2
    return r


def op(gate: dict, loc, params=()) -> dict:
    return {'gate': gate, 'loc': [int(q) for q in loc],
            'params': [float(p) for p in params]}


def gs(name: str, *a) -> dict:
    return {'g': name, 'a': list(a)} if a else {'g': name}


@st.composite
def any_op(draw, radixes, forbid=None, max_k=3, nested=1, wrappers=True):
    o = draw(specs.op_specs(
        radixes, max_k=max_k, rich=True, wrappers=wrappers,
        nested_depth=nested,
    ))
    if forbid is not None and _has(o, forbid):
        q = draw(st.integers(0, len(radixes) - 1))
        return op(gs('IdentityGate', 1, [radixes[q]]), [q])
    return o


@st.composite
def rich_in(draw, source: dict, k: int, forbid_nested, qudits=True,
            max_ops=10, source_radix=2):
    """Circuit rich in the k-qudit `source` gate (top level only), other ops
    from the shared generator (no `forbid_nested` gate inside blocks)."""
    radixes = draw(radixes_with_qubits(k, 5, qudits))
    qs = [i for i, x in enumerate(radixes) if x == source_radix]
    nops = draw(st.integers(1, max_ops))
    ops = []
    for _ in range(nops):
        if draw(st.integers(0, 9)) < 5:
            loc = draw(st.permutations(qs))[:k]
            ops.append(op(source, loc, P(draw, _nparams(source))))
        else:
            o = draw(any_op(radixes, None))
            if _is_block(o) and _has(o, forbid_nested):
                continue
            ops.append(o)
    return {'radixes': radixes, 'ops': ops}


def _name_is(*names):
    return lambda g: g.get('g') in names


# =================================================================== rule rows
def _passes():
    import bqskit.passes as p
    return p


RULE_ROWS = {
    # name: (module path or None, source spec, source class, introduced gates)
    'CHToCNOTPass': (None, gs('CHGate'), 'CHGate', ['RYGate', 'CNOTGate']),
    'CNOTToCHPass': (None, gs('CXGate'), 'CNOTGate', ['RYGate', 'CHGate']),
    'CNOTToCYPass': (None, gs('CXGate'), 'CNOTGate',
                     ['SGate', 'SdgGate', 'CYGate']),
    'CNOTToCZPass': (None, gs('CXGate'), 'CNOTGate', ['HGate', 'CZGate']),
    'CYToCNOTPass': (None, gs('CYGate'), 'CYGate',
                     ['SGate', 'SdgGate', 'CNOTGate']),
    'CZToCNOTPass': ('bqskit.passes.rules.cz2cnot', gs('CZGate'), 'CZGate',
                     ['HGate', 'CNOTGate']),
    'SwapToCNOTPass': (None, gs('SwapGate'), 'SwapGate', ['CNOTGate']),
}


def _pass_class(name: str, module=None):
    if module:
        import importlib
        return getattr(importlib.import_module(module), name)
    return getattr(_passes(), name)


def _rule_gen(name):
    module, src, cls, intro = RULE_ROWS[name]
    src_names = {src['g']}

    def forbid(g):
        if g.get('g') in src_names:
            return True
        # the qubit rule for SWAP says nothing about qudit swaps
        return name == 'SwapToCNOTPass' and g.get('g') == 'SwapGate'

    @st.composite
    def gen(draw, avoid):
        circ = draw(rich_in(src, 2, forbid))
        if name == 'SwapToCNOTPass':
            circ['ops'] = [
                o for o in circ['ops'] if not _has(
                    o, lambda g: g.get('g') == 'SwapGate' and g.get('a')
                    and g['a'][0] != 2,
                )
            ]
        return {'opts': {}, 'circ': circ, 'seed': 0}
    return gen


def _rule_make(name):
    def make(case):
        return {'passes': [_pass_class(name, RULE_ROWS[name][0])()]}
    return make


def _rule_post(name):
    module, src, cls, intro = RULE_ROWS[name]

    def post(case, cin, cout, info, out):
        g = G()
        C = getattr(g, cls)
        left = count_where(cout, lambda o: isinstance(o.gate, C))
        had = count_where(cin, lambda o: isinstance(o.gate, C))
        out.label('source_ops>0' if had else 'source_ops=0')
        if left:
            out.fail(f'post_source_gone|{name}', f'{left} of {had} remain')
        allowed = deep_gates(cin) | {getattr(g, n)() for n in intro}
        extra = deep_gates(cout) - allowed
        if extra:
            out.fail(
                f'post_gate_set|{name}',
                f'introduced {sorted(map(gname, extra))}',
            )
    return post


for _n in RULE_ROWS:
    row(_n, 'exact', _rule_gen(_n), _rule_make(_n), _rule_post(_n),
        q=4, t=150)


# ------------------------------------------------- single-qudit rule passes
@st.composite
def sq_circuit(draw, radix=2, max_ops=6, min_ops=0):
    n = draw(st.integers(min_ops, max_ops))
    ops = [draw(any_op([radix], None, max_k=1)) for _ in range(n)]
    return {'radixes': [radix], 'ops': ops}


@st.composite
def _u3_gen(draw, avoid):
    return {'opts': {}, 'circ': draw(sq_circuit()), 'seed': 0}


def _u3_post(case, cin, cout, info, out):
    ops = op_list(cout)
    if len(ops) != 1 or not isinstance(ops[0][0], G().U3Gate):
        out.fail('post_single_u3|U3Decomposition',
                 str([gname(o[0]) for o in ops]))


row('U3Decomposition', 'exact', _u3_gen,
    lambda case: {'passes': [_passes().U3Decomposition()]}, _u3_post,
    q=4, t=150)

ZX_SETS = {
    'default': None,
    'rx_u1': ['RXGate', 'U1Gate', 'CNOTGate'],
    'rx_rz': ['RXGate', 'RZGate', 'CNOTGate'],
    'sx_u1': ['SqrtXGate', 'U1Gate', 'CNOTGate'],
    'sx_rz': ['SqrtXGate', 'RZGate', 'CNOTGate'],
    'all4': ['SqrtXGate', 'RXGate', 'U1Gate', 'RZGate', 'CNOTGate'],
}


@st.composite
def _zx_gen(draw, avoid):
    return {
        'opts': {
            'always_use_rx': draw(st.booleans()),
            'always_use_u1': draw(st.booleans()),
            'gate_set': draw(st.sampled_from(sorted(ZX_SETS))),
        },
        'circ': draw(sq_circuit()), 'seed': 0,
    }


def _model(n, radixes=None, gate_names=None, gates=None, graph=None):
    from bqskit.compiler.machine import MachineModel
    g = G()
    gset = None
    if gate_names is not None:
        gset = {getattr(g, x)() for x in gate_names}
    if gates is not None:
        gset = set(gates)
    return MachineModel(n, graph, gset, list(radixes) if radixes else [])


def _zx_make(case):
    o = case['opts']
    names = ZX_SETS[o['gate_set']]
    return {
        'passes': [_passes().ZXZXZDecomposition(
            o['always_use_rx'], o['always_use_u1'],
        )],
        'model': None if names is None else _model(1, gate_names=names),
    }


def _zx_post(case, cin, cout, info, out):
    g = G()
    o = case['opts']
    ops = [x[0] for x in op_list(cout)]
    zs, xs = (g.RZGate, g.U1Gate), (g.SqrtXGate, g.RXGate)
    shape = len(ops) == 5 and all(
        isinstance(op_, zs if i % 2 == 0 else xs) for i, op_ in enumerate(ops)
    )
    if not shape:
        out.fail('post_zxzxz_shape|ZXZXZDecomposition',
                 str([gname(x) for x in ops]))
        return
    if o['always_use_rx'] and any(isinstance(x, g.SqrtXGate) for x in ops):
        out.fail('post_always_use_rx|ZXZXZDecomposition', 'SX present')
    if o['always_use_u1'] and any(isinstance(x, g.RZGate) for x in ops):
        out.fail('post_always_use_u1|ZXZXZDecomposition', 'RZ present')
    if len({type(x) for x in ops}) != 2:
        out.fail('post_zxzxz_mixed|ZXZXZDecomposition',
                 str([gname(x) for x in ops]))


row('ZXZXZDecomposition', 'exact', _zx_gen, _zx_make, _zx_post, q=5, t=200)

GSQ_CHOICES = {
    2: ['U3Gate', 'PauliGate', 'VariableUnitaryGate'],
    3: ['U8Gate', 'VariableUnitaryGate'],
    4: ['VariableUnitaryGate'],
}
SIG_GSQ_QUDIT = 'exc|general.py:run|ValueError|circuit.py'


def _general_gate(name: str, radix: int):
    g = G()
    if name == 'PauliGate':
        return g.PauliGate(1)
    if name == 'VariableUnitaryGate':
        return g.VariableUnitaryGate(1, [radix])
    return getattr(g, name)()


@st.composite
def _gsq_gen(draw, avoid):
    radix = 2 if 'gsq_qudit' in avoid else draw(st.sampled_from([2, 2, 3, 3, 4]))
    choices = [g for g in GSQ_CHOICES[radix]
               if not (g == 'U8Gate' and {'u8_nan', 'u8_wrong'} & avoid)]
    case = {
        'opts': {'radix': radix, 'general': draw(st.sampled_from(choices))},
        'circ': draw(sq_circuit(radix, min_ops=1)), 'seed': 0,
    }
    if {'gsq_qudit', 'u8_nan', 'u8_wrong'} & avoid:
        case['excluded'] = 1
    return case


def _gsq_make(case):
    g = G()
    r = case['opts']['radix']
    gen_gate = _general_gate(case['opts']['general'], r)
    two = g.CNOTGate() if r == 2 else g.CSUMGate(r)
    return {'passes': [_passes().GeneralSQDecomposition()],
            'model': _model(1, [r], gates=[gen_gate, two]), 'general': gen_gate}


def _gsq_post(case, cin, cout, info, out):
    ops = op_list(cout)
    if len(ops) != 1 or ops[0][0] != info['built']['general']:
        out.fail('post_single_general|GeneralSQDecomposition',
                 str([gname(o[0]) for o in ops]))
    out.label(f'gsq-radix-{case["opts"]["radix"]}')


# U8Gate.calc_params inverts through arcsin/arccos (conditioning ~ sqrt(eps)
# near the ends of their ranges: 1.5e-7 observed), so that choice is judged
# with the analytic tolerance; the other general gates are exact
row('GeneralSQDecomposition', 'exact', _gsq_gen, _gsq_make, _gsq_post,
    q=5, t=200, feature=lambda case: case['opts']['general'],
    tol=lambda case, cin: ANALYTIC_TOL if case['opts']['general'] == 'U8Gate'
    else EXACT_TOL)


# =============================================================== utility rows
@st.composite
def general_sq_op(draw, radixes):
    q = draw(st.integers(0, len(radixes) - 1))
    r = radixes[q]
    if r == 2:
        kind = draw(st.sampled_from(['U3Gate', 'PauliGate', 'VU']))
    else:
        kind = draw(st.sampled_from(['VU', 'VU', 'U8Gate'] if r == 3 else ['VU']))
    if kind == 'VU':
        return {'gate': gs('VariableUnitaryGate', 1, [r]), 'loc': [q],
                'u': {'kind': draw(st.sampled_from(U_KINDS[:7])),
                      'seed': draw(st.integers(0, 2**31))}}
    gate = gs('PauliGate', 1) if kind == 'PauliGate' else gs(kind)
    return op(gate, [q], P(draw, _nparams(gate)))


@st.composite
def mixed_circuit(draw, extra, max_n=5, max_ops=10, p_extra=4, qubits_only=False,
                  nested=1, max_k=3):
    """Shared generator ops interleaved with ops from `extra(radixes)`."""
    if qubits_only:
        radixes = [2] * draw(st.integers(1, max_n))
    else:
        radixes = draw(specs.radix_lists(1, max_n, 216))
    ops = []
    for _ in range(draw(st.integers(0, max_ops))):
        if draw(st.integers(0, 9)) < p_extra:
            o = draw(extra(radixes))
            if o is not None:
                ops.append(o)
        else:
            ops.append(draw(any_op(radixes, None, nested=nested, max_k=max_k)))
    return {'radixes': radixes, 'ops': ops}


@st.composite
def _conv_gen(draw, avoid):
    return {'opts': {'all': draw(st.booleans())},
            'circ': draw(mixed_circuit(general_sq_op, p_extra=6)), 'seed': 0}


def _multi_ops(c):
    """the multi-qudit operations as every qudit sees them, in order.
    (A flat list in iteration order is stricter than 'untouched': operations
    on disjoint qudits may legitimately end up in another relative order of
    the grid when single-qudit gates are inserted or merged around them.)"""
    ops = [o for o in op_list(c) if len(o[1]) > 1]
    return [
        [o for o in ops if q in o[1]] for q in range(c.num_qudits)
    ]


def _tou3_post(case, cin, cout, info, out):
    g = G()
    from bqskit.ir.gates.generalgate import GeneralGate
    if cout.num_operations != cin.num_operations:
        out.fail('post_op_count|ToU3Pass',
                 f'{cin.num_operations}->{cout.num_operations}')
    if _multi_ops(cin) != _multi_ops(cout):
        out.fail('post_multi_untouched|ToU3Pass', '')
    for gate, loc, _ in op_list(cout):
        if len(loc) != 1 or cout.radixes[loc[0]] != 2:
            continue
        bad = (not isinstance(gate, g.U3Gate)) if case['opts']['all'] else (
            isinstance(gate, GeneralGate) and not isinstance(gate, g.U3Gate)
        )
        if bad:
            out.fail('post_source_gone|ToU3Pass',
                     f'{gname(gate)} at {loc} all={case["opts"]["all"]}')
            break


row('ToU3Pass', 'exact', _conv_gen,
    lambda case: {'passes': [_passes().ToU3Pass(case['opts']['all'])]},
    _tou3_post, q=4, t=150)


def _tovar_post(case, cin, cout, info, out):
    g = G()
    from bqskit.ir.gates.generalgate import GeneralGate
    if cout.num_operations != cin.num_operations:
        out.fail('post_op_count|ToVariablePass',
                 f'{cin.num_operations}->{cout.num_operations}')
    if _multi_ops(cin) != _multi_ops(cout):
        out.fail('post_multi_untouched|ToVariablePass', '')
    V = g.VariableUnitaryGate
    for gate, loc, _ in op_list(cout):
        if len(loc) != 1:
            continue
        bad = (not isinstance(gate, V)) if case['opts']['all'] else (
            isinstance(gate, GeneralGate) and not isinstance(gate, V)
        )
        if bad:
            out.fail('post_source_gone|ToVariablePass',
                     f'{gname(gate)} at {loc} all={case["opts"]["all"]}')
            break
        if isinstance(gate, V) and tuple(gate.radixes) != (cout.radixes[loc[0]],):
            out.fail('post_radix|ToVariablePass', f'{gate.radixes} at {loc}')


row('ToVariablePass', 'exact', _conv_gen,
    lambda case: {'passes': [_passes().ToVariablePass(case['opts']['all'])]},
    _tovar_post, q=4, t=150)


@st.composite
def block_op(draw, radixes):
    """VariableUnitaryGate / ConstantUnitaryGate / CircuitGate block."""
    loc = draw(specs.locations(len(radixes), 3))
    lr = [radixes[q] for q in loc]
    if int(np.prod(lr)) > 36:
        loc, lr = loc[:2], lr[:2]
    kind = draw(st.sampled_from(['vu', 'const', 'cg']))
    if kind == 'vu':
        return {'gate': gs('VariableUnitaryGate', len(loc), lr), 'loc': loc,
                'u': {'kind': draw(st.sampled_from(['haar', 'identity', 'diag',
                                                    'perm', 'real'])),
                      'seed': draw(st.integers(0, 2**31))}}
    if kind == 'const':
        return op({'g': 'ConstantUnitaryGate', 'radixes': lr,
                   'seed': draw(st.integers(0, 2**31))}, loc)
    sub = draw(specs.circuit_specs(
        radixes=lr, max_ops=4, wrappers=False, nested_depth=0, min_ops=1,
    ))
    return op({'g': 'CircuitGate', 'circ': sub}, loc,
              [p for o in sub['ops'] for p in o['params']])


@st.composite
def _bc_gen(draw, avoid):
    o = {'target': draw(st.sampled_from(['variable', 'constant'])),
         'variable': draw(st.booleans()), 'constant': draw(st.booleans()),
         'circuitgates': draw(st.booleans())}
    hit = {'bc_cg_variable', 'bc_cg_variable2'} & avoid
    if hit and o['target'] == 'variable':
        o['circuitgates'] = o['constant']
    return {
        'opts': o, 'excluded': int(bool(hit)),
        'circ': draw(mixed_circuit(block_op, max_n=4, max_ops=8, p_extra=7,
                                   nested=0)),
        'seed': 0,
    }


def _bc_make(case):
    o = case['opts']
    return {'passes': [_passes().BlockConversionPass(
        o['target'], o['variable'], o['constant'], o['circuitgates'],
    )]}


def _bc_post(case, cin, cout, info, out):
    g = G()
    o = case['opts']
    classes = {'variable': g.VariableUnitaryGate,
               'constant': g.ConstantUnitaryGate,
               'circuitgates': g.CircuitGate}

    def cnt(c, cls):
        return count_where(c, lambda x: isinstance(x.gate, cls))
    if cout.num_operations != cin.num_operations:
        out.fail('post_op_count|BlockConversionPass', '')
    for key, cls in classes.items():
        if key == o['target']:
            continue
        a, b = cnt(cin, cls), cnt(cout, cls)
        if a:
            out.label(f'bc:{key}->{o["target"]}:{"on" if o[key] else "off"}')
        if o[key] and b != 0:
            out.fail(
                f'post_source_gone|BlockConversionPass|{key}->{o["target"]}',
                f'{b} of {a} {key} blocks remain, opts={o}',
            )
        if not o[key] and b != a:
            out.fail(
                f'post_not_requested|BlockConversionPass|{key}->{o["target"]}',
                f'{key}: {a}->{b} although convert_{key}=False, opts={o}',
            )


row('BlockConversionPass', 'exact', _bc_gen, _bc_make, _bc_post, q=5, t=200)


# ------------------------------------------------------------ structural rows
def _timelines(c) -> list:
    """Per-qudit sequence of operations (grid order)."""
    tl = [[] for _ in range(c.num_qudits)]
    for _, o in refsim.grid_ops(c):
        for q in o.location:
            tl[q].append(o)
    return tl


@st.composite
def _fill_gen(draw, avoid):
    r = draw(st.sampled_from([2, 2, 2, 3]))
    n = draw(st.integers(1, 4 if r == 2 else 3))
    circ = draw(specs.circuit_specs(radixes=[r] * n, max_ops=10,
                                    nested_depth=1))
    return {'opts': {'radix': r}, 'circ': circ, 'seed': 0}


def _fill_make(case):
    rad = case['circ']['radixes']
    return {'passes': [_passes().FillSingleQuditGatesPass()],
            'model': _model(len(rad), rad)}


def _fill_post(case, cin, cout, info, out):
    g = G()
    r = case['opts']['radix']
    sq = g.U3Gate() if r == 2 else g.VariableUnitaryGate(1, [r])
    if _multi_ops(cin) != _multi_ops(cout):
        out.fail('post_multi_untouched|FillSingleQuditGatesPass', '')
    for q, tl in enumerate(_timelines(cout)):
        kinds = [o.num_qudits == 1 for o in tl]
        if any(o.num_qudits == 1 and o.gate != sq for o in tl):
            out.fail('post_sq_gate|FillSingleQuditGatesPass',
                     f'qudit {q}: {[gname(o.gate) for o in tl]}')
            break
        ok = len(kinds) >= 1 and kinds[0] and kinds[-1] and all(
            a != b for a, b in zip(kinds, kinds[1:])
        )
        if not ok:
            out.fail(
                'post_alternation|FillSingleQuditGatesPass',
                f'qudit {q}: single-qudit pattern {kinds}',
            )
            break


row('FillSingleQuditGatesPass', 'exact', _fill_gen, _fill_make, _fill_post,
    q=4, t=150)


@st.composite
def cg_block(draw, radixes):
    loc = draw(specs.locations(len(radixes), 3))
    lr = [radixes[q] for q in loc]
    sub = draw(specs.circuit_specs(
        radixes=lr, max_ops=4, wrappers=False, nested_depth=0, min_ops=1,
        max_k=len(lr),
    ))
    return op({'g': 'CircuitGate', 'circ': sub}, loc,
              [p for o in sub['ops'] for p in o['params']])


@st.composite
def _extend_gen(draw, avoid):
    circ = draw(mixed_circuit(cg_block, max_n=5, max_ops=8, p_extra=8,
                              nested=0))
    n = len(circ['radixes'])
    if n < 2:
        circ['radixes'] = circ['radixes'] + [2]
        n = 2
    ms = draw(st.sampled_from([None, min(n, 3)] + list(range(2, min(n, 4) + 1))))
    return {'opts': {'minimum_size': ms,
                     'graph': draw(st.sampled_from(['all', 'linear', 'star']))},
            'circ': circ, 'seed': 0}


def _graph(kind, n):
    if kind == 'linear':
        return [(i, i + 1) for i in range(n - 1)]
    if kind == 'star':
        return [(0, i) for i in range(1, n)]
    return None


def _extend_make(case):
    rad = case['circ']['radixes']
    g = G()
    # gate set only matters for minimum_size=None (smallest multi-qudit gate)
    gates = [g.VariableUnitaryGate(1, [r]) for r in sorted(set(rad))]
    gates.append(g.VariableUnitaryGate(2, [rad[0], rad[1]]))
    return {'passes': [_passes().ExtendBlockSizePass(
        case['opts']['minimum_size'],
    )], 'model': _model(len(rad), rad, gates=gates,
                        graph=_graph(case['opts']['graph'], len(rad)))}


def _extend_post(case, cin, cout, info, out):
    g = G()
    ms = case['opts']['minimum_size'] or 2
    small = count_where(
        cin, lambda o: isinstance(o.gate, g.CircuitGate) and o.num_qudits < ms,
    )
    out.label('small_blocks>0' if small else 'small_blocks=0')
    if cout.num_operations != cin.num_operations:
        out.fail('post_op_count|ExtendBlockSizePass',
                 f'{cin.num_operations}->{cout.num_operations}')
    left = count_where(
        cout, lambda o: isinstance(o.gate, g.CircuitGate) and o.num_qudits < ms,
    )
    if left:
        out.fail('post_min_size|ExtendBlockSizePass',
                 f'{left} blocks narrower than {ms} remain')


row('ExtendBlockSizePass', 'exact', _extend_gen, _extend_make, _extend_post,
    q=4, t=150)


@st.composite
def _any_gen(draw, avoid, placeholders=False, nested=2):
    circ = draw(specs.circuit_specs(
        max_n=5, max_dim=216, max_ops=12, placeholders=placeholders,
        nested_depth=nested,
    ))
    return {'opts': {}, 'circ': circ, 'seed': 0}


def _group_post(case, cin, cout, info, out):
    g = G()
    for q, tl in enumerate(_timelines(cout)):
        prev_single = False
        for o in tl:
            single = o.num_qudits == 1 and not is_ph(o)
            if single and not isinstance(o.gate, g.CircuitGate):
                out.fail('post_grouped|GroupSingleQuditGatePass',
                         f'qudit {q}: bare {gname(o.gate)}')
                return
            if single and prev_single:
                out.fail('post_maximal|GroupSingleQuditGatePass',
                         f'qudit {q}: two adjacent single-qudit blocks')
                return
            prev_single = single
    from vt.oracle import trace
    diff = trace.same_program(
        list(trace.flat_ops(cin)), list(trace.flat_ops(cout)),
        cin.num_qudits,
    )
    if diff:
        out.fail('post_same_program|GroupSingleQuditGatePass', diff)


row('GroupSingleQuditGatePass', 'exact',
    lambda avoid: _any_gen(avoid, placeholders=True, nested=1),
    lambda case: {'passes': [_passes().GroupSingleQuditGatePass()]},
    _group_post, q=4, t=150)


def _same_program_post(name, no_blocks):
    def post(case, cin, cout, info, out):
        from vt.oracle import trace
        diff = trace.same_program(
            list(trace.flat_ops(cin)), list(trace.flat_ops(cout)),
            cin.num_qudits,
        )
        if diff:
            out.fail(f'post_same_program|{name}', diff)
        if no_blocks and count_where(
            cout, lambda o: isinstance(o.gate, G().CircuitGate),
        ):
            out.fail(f'post_source_gone|{name}', 'CircuitGate remains')
        if cout.num_cycles > cin.num_cycles and not no_blocks:
            out.fail(f'post_cycles|{name}',
                     f'{cin.num_cycles}->{cout.num_cycles}')
    return post


@st.composite
def _compress_gen(draw, avoid):
    c = {'opts': {}, 'seed': 0, 'circ': draw(specs.circuit_specs(
        min_n=draw(st.sampled_from([1, 3, 3])), max_n=5, max_dim=216,
        min_ops=draw(st.sampled_from([0, 4, 4])), max_ops=14, max_k=2,
        placeholders=True, nested_depth=1,
    ))}
    n = len(c['circ']['ops'])
    c['drop'] = [i for i in range(n) if draw(st.integers(0, 9)) < 4]
    return c


def _placed(c):
    return [(cyc, o.gate, tuple(o.location)) for cyc, o in refsim.grid_ops(c)]


row('CompressPass', 'exact', _compress_gen,
    lambda case: {'passes': [_passes().CompressPass()]},
    _same_program_post('CompressPass', False), q=4, t=150,
    nontrivial=lambda case, cin, cout, info: _placed(cin) != _placed(cout))
row('UnfoldPass', 'exact', lambda avoid: _any_gen(avoid, True, 2),
    lambda case: {'passes': [_passes().UnfoldPass()]},
    _same_program_post('UnfoldPass', True), q=4, t=150)

READONLY = ['NOOPPass', 'LogPass', 'LogErrorPass', 'RecordStatsPass',
            'StructureAnalysisPass', 'SetRandomSeedPass', 'UpdateDataPass']


@st.composite
def _ro_gen(draw, avoid):
    c = draw(_any_gen(avoid, False, 2))
    c['opts'] = {'pass': draw(st.sampled_from(READONLY))}
    return c


def _ro_make(case):
    p = _passes()
    n = case['opts']['pass']
    args = {'LogPass': ('vt',), 'UpdateDataPass': ('vt_key', 1),
            'SetRandomSeedPass': (7,), 'LogErrorPass': (0.5,)}.get(n, ())
    return {'passes': [getattr(p, n)(*args)]}


def _ro_post(case, cin, cout, info, out):
    n = case['opts']['pass']
    out.label('readonly:' + n)
    if cout.num_operations != cin.num_operations or (
        n != 'StructureAnalysisPass' and info['changed']
    ):
        out.fail(f'post_untouched|{n}', 'operation list changed')


# non-trivial for passes that must not rewrite: the circuit has >= 3 operations
row('ReadOnlyUtilityPasses', 'exact', _ro_gen, _ro_make, _ro_post, q=4, t=100,
    nontrivial=lambda case, cin, cout, info: cin.num_operations >= 3)
ROWS['ReadOnlyUtilityPasses'].covers = READONLY


# -------------------------------------------------------------------- MGDPass
@st.composite
def mpr_op(draw, radixes):
    n = len(radixes)
    if n < 2:
        return None
    k = draw(st.integers(2, min(n, 4)))
    loc = list(draw(st.permutations(range(n)))[:k])
    gate = gs(draw(st.sampled_from(['MPRYGate', 'MPRZGate'])), k,
              draw(st.integers(0, k - 1)))
    return op(gate, loc, P(draw, 2 ** (k - 1)))


@st.composite
def _mgd_gen(draw, avoid):
    return {'opts': {'decompose_twice': draw(st.booleans())},
            'circ': draw(mixed_circuit(mpr_op, max_n=4, max_ops=6, p_extra=6,
                                       qubits_only=True, nested=0)),
            'seed': 0}


def _mpr_sizes(c):
    g = G()
    return [o.num_qudits for _, o in refsim.grid_ops(c)
            if isinstance(o.gate, (g.MPRYGate, g.MPRZGate))]


def _mgd_post(case, cin, cout, info, out):
    a, b = _mpr_sizes(cin), _mpr_sizes(cout)
    out.label('mpr>0' if a else 'mpr=0')
    if a and b and max(b) >= max(a):
        out.fail('post_source_gone|MGDPass',
                 f'widest multiplexed gate {max(a)} -> {max(b)}')
    g = G()
    allowed = deep_gates(cin) | {g.CNOTGate(), g.RYGate(), g.RZGate()} | {
        cls(k, k - 1) for cls in (g.MPRYGate, g.MPRZGate) for k in (2, 3, 4)
    }
    extra = deep_gates(cout) - allowed
    if extra:
        out.fail('post_gate_set|MGDPass', str(sorted(map(gname, extra))))


row('MGDPass', 'exact', _mgd_gen,
    lambda case: {'passes': [_passes().MGDPass(case['opts']['decompose_twice'])]},
    _mgd_post, q=4, t=150)


# ============================================================= numerical rows
NUM_1Q = ['U3Gate', 'U3Gate', 'RXGate', 'RYGate', 'RZGate', 'U1Gate', 'HGate',
          'XGate', 'TGate', 'SXGate']
NUM_2Q = ['CXGate', 'CXGate', 'CZGate', 'CRZGate', 'RZZGate', 'CPGate',
          'SwapGate', 'ISwapGate']
ID_1Q = ['U3Gate', 'RZGate', 'RXGate', 'U1Gate']       # identity at params 0
ID_2Q = ['CRZGate', 'RZZGate', 'CPGate']
SELF_INV = ['HGate', 'XGate', 'CXGate', 'CZGate', 'SwapGate']


@st.composite
def num_circuit(draw, min_n=1, max_n=3, max_ops=7, plant=2, pool1=None,
                pool2=None, p2=4, max_2q=99):
    """Small qubit circuit of natively differentiable gates with up to
    `plant` planted identities (zero-parameter gates, adjacent inverse
    pairs).  Returns (spec, number planted)."""
    pool1, pool2 = pool1 or NUM_1Q, pool2 or NUM_2Q
    n = draw(st.integers(min_n, max_n))
    ops, n2 = [], 0
    for _ in range(draw(st.integers(1, max_ops))):
        if n >= 2 and n2 < max_2q and draw(st.integers(0, 9)) < p2:
            g = gs(draw(st.sampled_from(pool2)))
            loc = list(draw(st.permutations(range(n)))[:2])
            n2 += 1
        else:
            g = gs(draw(st.sampled_from(pool1)))
            loc = [draw(st.integers(0, n - 1))]
        ops.append(op(g, loc, P(draw, _nparams(g))))
    planted = 0
    for _ in range(draw(st.integers(0, plant)) if plant else 0):
        pos = draw(st.integers(0, len(ops)))
        kind = draw(st.sampled_from(['zero1', 'zero2', 'pair']))
        if kind == 'zero2' and n < 2:
            kind = 'zero1'
        if kind == 'zero1':
            g = gs(draw(st.sampled_from(ID_1Q)))
            new = [op(g, [draw(st.integers(0, n - 1))], [0.0] * _nparams(g))]
        elif kind == 'zero2':
            g = gs(draw(st.sampled_from(ID_2Q)))
            loc = list(draw(st.permutations(range(n)))[:2])
            new = [op(g, loc, [0.0] * _nparams(g))]
        else:
            name = draw(st.sampled_from(SELF_INV if n >= 2 else SELF_INV[:2]))
            k = 1 if name in ('HGate', 'XGate') else 2
            loc = list(draw(st.permutations(range(n)))[:k])
            new = [op(gs(name), loc), op(gs(name), loc)]
        ops[pos:pos] = new
        planted += 1
    return {'radixes': [2] * n, 'ops': ops}, planted


def filter_single(o) -> bool:
    return o.num_qudits == 1


def filter_multi(o) -> bool:
    return o.num_qudits > 1


def filter_param(o) -> bool:
    return o.num_params > 0


FILTERS = {'none': None, 'single': filter_single, 'multi': filter_multi,
           'param': filter_param}
THRESHOLDS = [1e-8, 1e-8, 1e-6, 1e-10]


def _removal_post(name, honours_filter=True):
    def post(case, cin, cout, info, out):
        a, b = cin.num_operations, cout.num_operations
        out.label('removed>0' if b < a else 'removed=0')
        if case.get('planted'):
            out.label('planted&removed' if b < a else 'planted&kept')
        if b > a:
            out.fail(f'post_count_increased|{name}', f'{a} -> {b}')
        extra = deep_gates(cout) - deep_gates(cin)
        if extra:
            out.fail(f'post_gate_set|{name}', str(sorted(map(gname, extra))))
        f = FILTERS[case['opts'].get('filter', 'none')]
        if f is not None:
            def keep(c):
                d: dict = {}
                for _, o in refsim.grid_ops(c):
                    if not f(o):
                        k = (o.gate, tuple(o.location))
                        d[k] = d.get(k, 0) + 1
                return d
            if keep(cin) != keep(cout):
                out.fail(
                    f'post_filter|{name}',
                    f'operations rejected by collection_filter='
                    f'{case["opts"]["filter"]} were removed: '
                    f'{a} -> {b} ops',
                )
    return post


def _planted(case):
    return case.get('planted', 0) > 0


@st.composite
def _scan_gen(draw, avoid):
    circ, planted = draw(num_circuit())
    return {'opts': {'start_from_left': draw(st.booleans()),
                     'success_threshold': draw(st.sampled_from(THRESHOLDS)),
                     'filter': draw(st.sampled_from(
                         ['none', 'none', 'single', 'multi', 'param']))},
            'circ': circ, 'planted': planted,
            'seed': draw(st.integers(0, 2**20))}


def _scan_make(case):
    o = case['opts']
    return {'passes': [_passes().ScanningGateRemovalPass(
        o['start_from_left'], o['success_threshold'],
        collection_filter=FILTERS[o['filter']],
    )]}


row('ScanningGateRemovalPass', 'numerical', _scan_gen, _scan_make,
    _removal_post('ScanningGateRemovalPass'), planted=_planted, q=3, t=40)


@st.composite
def _tree_gen(draw, avoid):
    circ, planted = draw(num_circuit(max_ops=6))
    filt = 'none' if 'filter_tree' in avoid else draw(
        st.sampled_from(['none', 'none', 'none', 'single', 'multi']))
    left = True if 'tree_right' in avoid else draw(st.booleans())
    return {'opts': {'start_from_left': left,
                     'success_threshold': draw(st.sampled_from(THRESHOLDS)),
                     'tree_depth': draw(st.sampled_from([1, 2, 2, 3])),
                     'filter': filt},
            'circ': circ, 'planted': planted,
            'excluded': int(bool({'filter_tree', 'tree_right'} & avoid)),
            'seed': draw(st.integers(0, 2**20))}


def _tree_make(case):
    o = case['opts']
    return {'passes': [_passes().TreeScanningGateRemovalPass(
        o['start_from_left'], o['success_threshold'],
        tree_depth=o['tree_depth'], collection_filter=FILTERS[o['filter']],
    )]}


row('TreeScanningGateRemovalPass', 'numerical', _tree_gen, _tree_make,
    _removal_post('TreeScanningGateRemovalPass'), runtime=True,
    planted=_planted, q=2, t=15)


@st.composite
def _exh_gen(draw, avoid):
    circ, planted = draw(num_circuit(max_ops=4, plant=1))
    filt = 'none' if 'filter_exh' in avoid else draw(
        st.sampled_from(['none', 'none', 'none', 'single', 'multi']))
    return {'opts': {'success_threshold': draw(st.sampled_from(THRESHOLDS)),
                     'filter': filt},
            'circ': circ, 'planted': planted,
            'excluded': int('filter_exh' in avoid),
            'seed': draw(st.integers(0, 2**20))}


def _exh_make(case):
    o = case['opts']
    return {'passes': [_passes().ExhaustiveGateRemovalPass(
        o['success_threshold'], collection_filter=FILTERS[o['filter']],
    )]}


row('ExhaustiveGateRemovalPass', 'numerical', _exh_gen, _exh_make,
    _removal_post('ExhaustiveGateRemovalPass'), runtime=True,
    planted=_planted, q=2, t=15)


@st.composite
def _iter_gen(draw, avoid):
    circ, planted = draw(num_circuit(max_ops=6))
    w = draw(st.sampled_from([3, 3, 4, 5]))
    return {'opts': {'width_to_partition': w,
                     'block_size': draw(st.integers(2, w - 1)),
                     'start_from_left': draw(st.booleans()),
                     'success_threshold': draw(st.sampled_from(THRESHOLDS))},
            'circ': circ, 'planted': planted,
            'seed': draw(st.integers(0, 2**20))}


def _iter_make(case):
    o = case['opts']
    return {'passes': [_passes().IterativeScanningGateRemovalPass(
        o['width_to_partition'], o['block_size'], o['start_from_left'],
        o['success_threshold'],
    )]}


def _iter_post(case, cin, cout, info, out):
    o = case['opts']
    out.label('iter:partitioned' if cin.num_qudits >= o['width_to_partition']
              else 'iter:whole')
    _removal_post('IterativeScanningGateRemovalPass')(case, cin, cout, info,
                                                      out)


row('IterativeScanningGateRemovalPass', 'numerical', _iter_gen, _iter_make,
    _iter_post, runtime=True, planted=_planted, q=2, t=15)


# -------------------------------------------------------------- SubstitutePass
def is_u3(o) -> bool:
    return type(o.gate).__name__ == 'U3Gate'


def is_param_2q(o) -> bool:
    return o.num_qudits == 2 and o.num_params > 0


def is_cnot(o) -> bool:
    return type(o.gate).__name__ in ('CNOTGate', 'CXGate')


def is_vu2(o) -> bool:
    return type(o.gate).__name__ == 'VariableUnitaryGate' and o.num_qudits == 2


SUB_MODES = {
    # mode: (filter, replacement gate spec)
    'u3->rz': (is_u3, gs('RZGate')),
    'u3->rx': (is_u3, gs('RXGate')),
    '2q->u3': (is_param_2q, gs('U3Gate')),
    'cnot->cz': (is_cnot, gs('CZGate')),
    'vu2->vu1': (is_vu2, gs('VariableUnitaryGate', 1, [2])),
}


@st.composite
def _sub_gen(draw, avoid):
    mode = draw(st.sampled_from(sorted(SUB_MODES)))
    planted = 0
    if mode == 'vu2->vu1':
        n = draw(st.integers(2, 3))
        ops = []
        for _ in range(draw(st.integers(1, 3))):
            k = draw(st.sampled_from([1, 2, 2]))
            loc = list(draw(st.permutations(range(n)))[:k])
            kind = draw(st.sampled_from(
                ['haar', 'identity', 'kron', 'kron'] if k == 2 else
                ['haar', 'identity']))
            planted += int(k == 2 and kind != 'haar')
            ops.append({'gate': gs('VariableUnitaryGate', k, [2] * k),
                        'loc': loc,
                        'u': {'kind': kind, 'seed': draw(st.integers(0, 2**31))}})
        circ = {'radixes': [2] * n, 'ops': ops}
    else:
        circ, _ = draw(num_circuit(min_n=2 if mode[0] in '2c' else 1,
                                   plant=0, max_ops=5))
        n = len(circ['radixes'])
        for _ in range(draw(st.integers(0, 2))):      # substitutable gates
            pos = draw(st.integers(0, len(circ['ops'])))
            if mode.startswith('u3'):
                lam = draw(specs.param_values(1))[0]
                ps = [0.0, 0.0, lam] if mode == 'u3->rz' else \
                    [lam, -PI / 2, PI / 2]
                new = op(gs('U3Gate'), [draw(st.integers(0, n - 1))], ps)
            elif mode == '2q->u3':
                g = gs(draw(st.sampled_from(ID_2Q)))
                new = op(g, list(draw(st.permutations(range(n)))[:2]),
                         [0.0] * _nparams(g))
            else:
                loc = list(draw(st.permutations(range(n)))[:2])
                circ['ops'][pos:pos] = [op(gs('U3Gate'), [loc[1]], P(draw, 3)),
                                        op(gs('CXGate'), loc),
                                        op(gs('U3Gate'), [loc[1]], P(draw, 3))]
                planted += 1
                continue
            circ['ops'].insert(pos, new)
            planted += 1
    return {'opts': {'mode': mode,
                     'success_threshold': draw(st.sampled_from(THRESHOLDS))},
            'circ': circ, 'planted': planted,
            'seed': draw(st.integers(0, 2**20))}


def _sub_make(case):
    f, g = SUB_MODES[case['opts']['mode']]
    return {'passes': [_passes().SubstitutePass(
        f, specs.build_gate(g), case['opts']['success_threshold'],
    )]}


def _sub_post(case, cin, cout, info, out):
    f, g = SUB_MODES[case['opts']['mode']]
    new = specs.build_gate(g)
    out.label('sub:' + case['opts']['mode'])
    if cout.num_operations != cin.num_operations:
        out.fail('post_op_count|SubstitutePass',
                 f'{cin.num_operations}->{cout.num_operations}')
    extra = deep_gates(cout) - deep_gates(cin) - {new}
    if extra:
        out.fail('post_gate_set|SubstitutePass', str(sorted(map(gname, extra))))
    sel = count_where(cin, f)
    now = count_where(cout, f)
    out.label('substituted>0' if now < sel else 'substituted=0')

    def rest(c):
        d: dict = {}
        for _, o in refsim.grid_ops(c):
            if not f(o) and o.gate != new:
                k = (o.gate, tuple(o.location))
                d[k] = d.get(k, 0) + 1
        return d
    if rest(cin) != rest(cout):
        out.fail('post_filter|SubstitutePass', 'unselected operations changed')


row('SubstitutePass', 'numerical', _sub_gen, _sub_make, _sub_post,
    planted=_planted, q=3, t=40)
# ------------------------------------------------------------ retarget (2q)
# targets for which three applications suffice for any two-qubit block, so the
# pass's `while g in circuit.gate_set` loop can terminate (max_depth = 3)
REBASE_NEW = ['CZGate', 'CXGate', 'CYGate', 'CHGate', 'ISwapGate',
              'SqrtISwapGate', 'BGate', 'ECRGate']
REBASE_OLD = ['CXGate', 'CZGate', 'SwapGate', 'ISwapGate', 'CHGate', 'CYGate',
              'SqrtCNOTGate', 'CSGate', 'SycamoreGate', 'RZZGate', 'CPGate']


def _two_q(c):
    return [o for o in op_list(c) if len(o[1]) == 2]


@st.composite
def _rebase_gen(draw, avoid):
    old = draw(st.lists(st.sampled_from(REBASE_OLD), min_size=1, max_size=2,
                        unique=True))
    new = draw(st.lists(
        st.sampled_from([g for g in REBASE_NEW if g not in old]),
        min_size=1, max_size=2, unique=True,
    ))
    others = [g for g in NUM_2Q if g not in old]
    circ, _ = draw(num_circuit(
        min_n=2, max_n=3, max_ops=6, plant=0, p2=5, max_2q=3,
        pool2=old * 3 + others[:2],
    ))
    depth = draw(st.sampled_from([3, 3, 3, 2]))
    return {'opts': {'old': old, 'new': new, 'max_depth': depth,
                     'max_retries': 1 if depth == 2 else
                     draw(st.sampled_from([-1, -1, 2])),
                     'success_threshold': draw(st.sampled_from(
                         [1e-8, 1e-8, 1e-6]))},
            'circ': circ, 'seed': draw(st.integers(0, 2**20))}


def _rebase_make(case):
    o = case['opts']
    g = G()
    return {'passes': [_passes().Rebase2QuditGatePass(
        [getattr(g, x)() for x in o['old']],
        [getattr(g, x)() for x in o['new']],
        o['max_depth'], o['max_retries'], o['success_threshold'],
    )]}


def _rebase_R(case, cin):
    return max(1, len(_two_q(cin)))


def _rebase_post(case, cin, cout, info, out):
    g = G()
    o = case['opts']
    old = {getattr(g, x)() for x in o['old']}
    new = {getattr(g, x)() for x in o['new']}
    had = sum(1 for x in _two_q(cin) if x[0] in old)
    left = sum(1 for x in _two_q(cout) if x[0] in old)
    out.label('source_ops>0' if had else 'source_ops=0')
    if left:
        out.fail('post_source_gone|Rebase2QuditGatePass',
                 f'{left} of {had} remain, opts={o}')
    extra = deep_gates(cout) - deep_gates(cin) - new - {g.U3Gate()}
    if extra:
        out.fail('post_gate_set|Rebase2QuditGatePass',
                 str(sorted(map(gname, extra))))


row('Rebase2QuditGatePass', 'numerical', _rebase_gen, _rebase_make,
    _rebase_post, runtime=True, R=_rebase_R, q=2, t=15)


@st.composite
def _auto_gen(draw, avoid):
    new = draw(st.lists(st.sampled_from(REBASE_NEW), min_size=1, max_size=2,
                        unique=True))
    circ, _ = draw(num_circuit(
        min_n=2, max_n=3, max_ops=6, plant=0, p2=5, max_2q=3,
        pool2=REBASE_OLD + new,
    ))
    return {'opts': {'new': new,
                     'success_threshold': draw(st.sampled_from(
                         [1e-8, 1e-8, 1e-6]))},
            'circ': circ, 'seed': draw(st.integers(0, 2**20))}


def _auto_make(case):
    o = case['opts']
    n = len(case['circ']['radixes'])
    return {'passes': [_passes().AutoRebase2QuditGatePass(
        3, -1, o['success_threshold'],
    )], 'model': _model(n, gate_names=o['new'] + ['U3Gate'])}


def _auto_post(case, cin, cout, info, out):
    g = G()
    new = {getattr(g, x)() for x in case['opts']['new']}
    had = sum(1 for x in _two_q(cin) if x[0] not in new)
    bad = [gname(x[0]) for x in _two_q(cout) if x[0] not in new]
    out.label('source_ops>0' if had else 'source_ops=0')
    if bad:
        out.fail('post_source_gone|AutoRebase2QuditGatePass',
                 f'non-native two-qudit gates remain: {bad}')
    extra = deep_gates(cout) - deep_gates(cin) - new - {g.U3Gate()}
    if extra:
        out.fail('post_gate_set|AutoRebase2QuditGatePass',
                 str(sorted(map(gname, extra))))


row('AutoRebase2QuditGatePass', 'numerical', _auto_gen, _auto_make,
    _auto_post, runtime=True, R=_rebase_R, q=2, t=15)


# ------------------------------------------------------- numerical synthesis
@st.composite
def synth_target(draw, three_q_max_2q=2, p3=3):
    """2 qubits (any content) or, less often, a shallow 3-qubit circuit."""
    if draw(st.integers(0, 9)) < p3:
        c, _ = draw(num_circuit(min_n=3, max_n=3, max_ops=5, plant=0, p2=4,
                                max_2q=three_q_max_2q,
                                pool2=['CXGate', 'CZGate']))
    else:
        c, _ = draw(num_circuit(min_n=2, max_n=2, max_ops=6, plant=0, p2=5))
    return c


LEAP_GATES = {'U3Gate', 'CNOTGate', 'CXGate', 'RXGate', 'RYGate', 'RZGate'}


def _one(case, cin):
    return 1


def _synth_gen(p3=3, max2=2):
    @st.composite
    def gen(draw, avoid):
        return {'opts': {'success_threshold': draw(st.sampled_from(
            [1e-8, 1e-8, 1e-6]))},
            'circ': draw(synth_target(max2, p3)),
            'seed': draw(st.integers(0, 2**20))}
    return gen


def _synth_post(name, allowed_names):
    def post(case, cin, cout, info, out):
        out.label(f'{name}:{cin.num_qudits}q')
        bad = [gname(x) for x in deep_gates(cout)
               if type(x).__name__ not in allowed_names]
        if bad:
            out.fail(f'post_gate_set|{name}', str(sorted(bad)))
    return post


row('QFASTDecompositionPass', 'numerical', _synth_gen(2, 2),
    lambda case: {'passes': [_passes().QFASTDecompositionPass(
        success_threshold=case['opts']['success_threshold'])]},
    _synth_post('QFASTDecompositionPass', {'PauliGate'}),
    runtime=True, R=_one, q=1, t=8)
row('QPredictDecompositionPass', 'numerical', _synth_gen(5, 2),
    lambda case: {'passes': [_passes().QPredictDecompositionPass(
        success_threshold=case['opts']['success_threshold'])]},
    _synth_post('QPredictDecompositionPass',
                {'VariableUnitaryGate', 'ConstantUnitaryGate'}),
    runtime=True, R=_one, q=1, t=8)
row('LEAPSynthesisPass', 'numerical', _synth_gen(1, 1),
    lambda case: {'passes': [_passes().LEAPSynthesisPass(
        success_threshold=case['opts']['success_threshold'])]},
    _synth_post('LEAPSynthesisPass', LEAP_GATES),
    runtime=True, R=_one, q=1, t=8)
row('QSearchSynthesisPass', 'numerical', _synth_gen(1, 1),
    lambda case: {'passes': [_passes().QSearchSynthesisPass(
        success_threshold=case['opts']['success_threshold'])]},
    _synth_post('QSearchSynthesisPass', LEAP_GATES),
    runtime=True, R=_one, q=1, t=8)


@st.composite
def _pas_gen(draw, avoid):
    return {'opts': {'input_perm': draw(st.booleans()),
                     'output_perm': draw(st.booleans()),
                     'inner': draw(st.sampled_from(['leap', 'qsearch'])),
                     'success_threshold': 1e-8},
            'circ': draw(synth_target(1, 1)),
            'seed': draw(st.integers(0, 2**20))}


def _pas_make(case):
    p = _passes()
    o = case['opts']
    inner = p.LEAPSynthesisPass() if o['inner'] == 'leap' else \
        p.QSearchSynthesisPass()
    return {'passes': [p.PermutationAwareSynthesisPass(
        o['input_perm'], o['output_perm'], inner,
    )]}


def _pas_reference(case, U_in, data, out):
    """The pass reports the permutations it chose; the output must implement
    Po^T U Pi for exactly those."""
    n = int(round(math.log2(U_in.shape[0])))
    pi = tuple(data['initial_mapping'])
    po = tuple(data['final_mapping'])
    ident = tuple(range(n))
    if sorted(pi) != list(ident) or sorted(po) != list(ident):
        out.fail('post_mapping_invalid|PermutationAwareSynthesisPass',
                 f'{pi} {po}')
        return None
    o = case['opts']
    if (not o['input_perm'] and pi != ident) or \
            (not o['output_perm'] and po != ident):
        out.fail('post_perm_not_requested|PermutationAwareSynthesisPass',
                 f'pi={pi} po={po} opts={o}')
    out.label('pas:permuted' if (pi != ident or po != ident) else
              'pas:identity-perm')
    return _perm_matrix(n, 2, po).T @ U_in @ _perm_matrix(n, 2, pi)


row('PermutationAwareSynthesisPass', 'numerical', _pas_gen, _pas_make,
    _synth_post('PermutationAwareSynthesisPass',
                LEAP_GATES),
    runtime=True, R=_one, reference=_pas_reference, q=1, t=8)
# =============================================================== analytic rows
@st.composite
def vu_circuit(draw, n, kmin=2, max_vu=2, kinds=None, force=False):
    kinds = kinds or U_KINDS
    ops, nvu = [], 0
    for _ in range(draw(st.integers(1, 4))):
        if nvu < max_vu and (nvu == 0 or draw(st.integers(0, 9)) < 5):
            lo = min(kmin, n) if force or draw(st.integers(0, 9)) < 8 else 2
            k = draw(st.integers(lo, n))
            loc = list(draw(st.permutations(range(n)))[:k])
            ops.append({'gate': gs('VariableUnitaryGate', k, [2] * k),
                        'loc': loc,
                        'u': {'kind': draw(st.sampled_from(kinds)),
                              'seed': draw(st.integers(0, 2**31))}})
            nvu += 1
        else:
            ops.append(draw(any_op([2] * n, None, nested=0, wrappers=False)))
    return {'radixes': [2] * n, 'ops': ops}


def _vu_widths(c):
    V = G().VariableUnitaryGate
    return [o.num_qudits for _, o in refsim.grid_ops(c) if isinstance(o.gate, V)]


DECOMP_GATES = {'VariableUnitaryGate', 'MPRYGate', 'MPRZGate', 'CNOTGate',
                'CXGate', 'RYGate', 'RZGate', 'HGate'}


def _decomp_post(name, full):
    def post(case, cin, cout, info, out):
        m = case['opts']['min_qudit_size']
        a, b = _vu_widths(cin), _vu_widths(cout)
        big = [w for w in a if w > m]
        out.label('vu>min' if big else 'vu<=min')
        kinds = {o['u']['kind'] for o in case['circ']['ops'] if 'u' in o}
        for k in kinds:
            out.label('ukind:' + k)
        if big:
            limit = m if full else max(a) - 1
            if b and max(b) > limit:
                out.fail(f'post_source_gone|{name}',
                         f'VariableUnitaryGate widths {sorted(a)} -> '
                         f'{sorted(set(b))}, min_qudit_size={m}')
        bad = [gname(x) for x in deep_gates(cout) - deep_gates(cin)
               if type(x).__name__ not in DECOMP_GATES]
        if bad:
            out.fail(f'post_gate_set|{name}', str(sorted(bad)))
    return post


NONDEGENERATE = ['haar', 'haar', 'real', 'near_id']


def _decomp_gen(min_lo, extra=None, flags=()):
    @st.composite
    def gen(draw, avoid):
        n = draw(st.sampled_from([3, 3, 3, 4]))
        m = draw(st.integers(min_lo, n - 1))
        o = {'min_qudit_size': m}
        hit = set(flags) & avoid
        case = {'circ': draw(vu_circuit(
            n, m + 1,
            kinds=NONDEGENERATE if 'bzxz_degenerate' in hit else None,
            force='fullqsd_noop' in hit,
        )), 'seed': 0}
        if hit:
            case['excluded'] = 1
        if extra:
            extra(draw, avoid, o, case)
        case['opts'] = o
        return case
    return gen


row('QSDPass', 'analytic', _decomp_gen(1),
    lambda case: {'passes': [_passes().QSDPass(
        case['opts']['min_qudit_size'])]},
    _decomp_post('QSDPass', False), runtime=True, q=2, t=30)
row('FullQSDPass', 'analytic', _decomp_gen(1, flags=('fullqsd_noop',)),
    lambda case: {'passes': [_passes().FullQSDPass(
        case['opts']['min_qudit_size'])]},
    _decomp_post('FullQSDPass', True), runtime=True, q=2, t=30)
# min_qudit_size >= 2: the construction (section 5.2 merge) needs >= 3-qubit
# unitaries; FullBlockZXZPass enforces the same bound
row('BlockZXZPass', 'analytic', _decomp_gen(2, flags=('bzxz_degenerate',)),
    lambda case: {'passes': [_passes().BlockZXZPass(
        case['opts']['min_qudit_size'])]},
    _decomp_post('BlockZXZPass', False), runtime=True, q=2, t=30)

SIG_EXTRACT = 'exc|extract_diagonal.py:decompose|ValueError|circuit.py'


def _fbz_extra(draw, avoid, o, case):
    if 'extract' in avoid:
        o['perform_extract'] = False
        case['excluded'] = 1
    else:
        o['perform_extract'] = draw(st.sampled_from([False, False, True]))


def _fbz_eps(case):
    return 1e-8


row('FullBlockZXZPass', 'analytic',
    _decomp_gen(2, _fbz_extra, flags=('bzxz_degenerate',)),
    lambda case: {'passes': [_passes().FullBlockZXZPass(
        case['opts']['min_qudit_size'],
        perform_extract=case['opts']['perform_extract'])]},
    _decomp_post('FullBlockZXZPass', True), runtime=True,
    tol=lambda case, cin: ANALYTIC_TOL if not case['opts']['perform_extract']
    else numerical_tol(1e-8, 64), q=2, t=30)


# ------------------------------------------------- WalshDiagonalSynthesisPass
DIAG_1Q = ['RZGate', 'U1Gate', 'ZGate', 'SGate', 'TGate', 'TdgGate']
DIAG_2Q = ['CZGate', 'CPGate', 'RZZGate', 'CRZGate', 'ZZGate', 'CSGate',
           'CTGate']


@st.composite
def diag_op(draw, radixes):
    n = len(radixes)
    kind = draw(st.integers(0, 9))
    if kind < 4 or n == 1:
        g = gs(draw(st.sampled_from(DIAG_1Q)))
        loc = [draw(st.integers(0, n - 1))]
    elif kind < 8:
        g = gs(draw(st.sampled_from(DIAG_2Q)))
        loc = list(draw(st.permutations(range(n)))[:2])
    else:
        k = draw(st.integers(1, min(3, n)))
        loc = list(draw(st.permutations(range(n)))[:k])
        which = draw(st.sampled_from(['DiagonalGate', 'PauliZGate', 'MPRZGate']))
        if which == 'MPRZGate' and k < 2:
            which = 'PauliZGate'
        g = gs(which, k, draw(st.integers(0, k - 1))) if which == 'MPRZGate' \
            else gs(which, k)
    return op(g, loc, P(draw, _nparams(g)))


@st.composite
def _walsh_gen(draw, avoid):
    n = draw(st.integers(1, 5))
    ops = [draw(diag_op([2] * n)) for _ in range(draw(st.integers(0, 8)))]
    return {'opts': {'parameter_precision': draw(st.sampled_from(
        [1e-8, 1e-8, 1e-12, 1e-4]))},
        'circ': {'radixes': [2] * n, 'ops': ops}, 'seed': 0}


def _walsh_tol(case, cin):
    return ANALYTIC_TOL + cin.dim * case['opts']['parameter_precision']


row('WalshDiagonalSynthesisPass', 'analytic', _walsh_gen,
    lambda case: {'passes': [_passes().WalshDiagonalSynthesisPass(
        case['opts']['parameter_precision'])]},
    _synth_post('WalshDiagonalSynthesisPass', {'RZGate', 'CNOTGate', 'CXGate'}),
    tol=_walsh_tol, q=4, t=150)


# -------------------------------------------------------- ExtractDiagonalPass
@st.composite
def _ext_gen(draw, avoid):
    """The domain its only caller (FullBlockZXZPass) produces: two-qubit
    VariableUnitaryGates on ONE location, separated only by operations that
    commute with a diagonal on that location."""
    n = draw(st.integers(2, 3))
    loc = list(draw(st.permutations(range(n)))[:2])
    rest = [q for q in range(n) if q not in loc]
    m = draw(st.integers(0, 1)) if 'extract' in avoid else \
        draw(st.sampled_from([0, 1, 2, 2, 3]))
    ops = []
    for i in range(m):
        ops.append({'gate': gs('VariableUnitaryGate', 2, [2, 2]), 'loc': loc,
                    'u': {'kind': draw(st.sampled_from(
                        ['haar', 'haar', 'identity', 'diag', 'cnotlike'])),
                        'seed': draw(st.integers(0, 2**31))}})
        for _ in range(draw(st.integers(0, 2))):
            kind = draw(st.integers(0, 2))
            if kind == 0:
                g = gs(draw(st.sampled_from(DIAG_1Q)))
                ops.append(op(g, [draw(st.sampled_from(loc))],
                              P(draw, _nparams(g))))
            elif kind == 1 and rest:
                ops.append(op(gs('CXGate'),
                              [draw(st.sampled_from(loc)), rest[0]]))
            elif rest:
                g = gs(draw(st.sampled_from(NUM_1Q)))
                ops.append(op(g, [rest[0]], P(draw, _nparams(g))))
    case = {'opts': {'success_threshold': 1e-8}, 'circ':
            {'radixes': [2] * n, 'ops': ops},
            'seed': draw(st.integers(0, 2**20))}
    if 'extract' in avoid:
        case['excluded'] = 1
    return case


def _ext_make(case):
    from bqskit.passes.processing.extract_diagonal import ExtractDiagonalPass
    return {'passes': [ExtractDiagonalPass(
        2, instantiate_options={'seed': int(case['seed'])},
    )]}


def _ext_post(case, cin, cout, info, out):
    out.label(f'extract:vu={len(_vu_widths(cin))}')


row('ExtractDiagonalPass', 'numerical', _ext_gen, _ext_make, _ext_post,
    R=lambda case, cin: len(_vu_widths(cin)), q=2, t=15)
# ------------------------------------------------------------------- driver
def row_strategy(r: Row, avoid=frozenset()):
    return r.gen(avoid).map(lambda c, n=r.name: dict(c, row=n))


def uncatalogued() -> list:
    """Pass classes exported by bqskit.passes that no catalogue row covers."""
    import inspect
    from bqskit.compiler.basepass import BasePass
    p = _passes()
    covered = set(ROWS)
    for r in ROWS.values():
        covered |= set(getattr(r, 'covers', ()))
    out = []
    for name in sorted(set(dir(p))):
        obj = getattr(p, name)
        if inspect.isclass(obj) and issubclass(obj, BasePass) \
                and name not in covered:
            out.append(name)
    return out


def _skip_minimal(ctx: core.Ctx):
    """Hypothesis always starts a run with the all-minimal example, the same
    in every shard; only shard 0 executes it."""
    first: list = []

    def chk(case):
        h = core.case_hash(case)
        if not first:
            first.append(h)
        if ctx.shard != 0 and h == first[0]:
            o = Outcome(evals=0)
            o.label('minimal-example-left-to-shard-0')
            return o
        return check(case)
    return chk


def run_shard(ctx: core.Ctx) -> core.ShardResult:
    res = core.ShardResult()
    avoid = frozenset(
        flag for flag, sig in KNOWN_TRIGGERS.items() if ctx.is_known(sig)
    )
    try:
        only = [x for x in os.environ.get('C10_ROWS', '').split(',') if x]
        order = sorted(
            (r for r in ROWS.values() if not only or r.name in only),
            key=lambda r: (r.runtime, r.name),
        )
        # a budget that runs out must not starve the same rows in every shard
        k = (ctx.shard * 7) % len(order)
        for r in order[k:] + order[:k]:
            if ctx.expired():
                res.budget_exhausted = True
                break
            t0 = time.monotonic()
            core.run_hypothesis(
                ctx, res, row_strategy(r, avoid), _skip_minimal(ctx),
                ctx.n(r.q, r.t) + 1, sub=sorted(ROWS).index(r.name),
            )
            res.extra['sec:' + r.name] = round(time.monotonic() - t0, 2)
    finally:
        res.extra['runtime_starts'] = RT.starts
        RT.close()
    if ctx.shard == 0:
        for name in uncatalogued():
            res.labels['not-in-catalogue:' + name] += 1
    res.extra['catalogue_rows'] = len(ROWS) if ctx.shard == 0 else 0
    return res


KNOWN_TRIGGERS = {
    # flag understood by the generators -> signature that, when listed as an
    # open known finding, makes them avoid the trigger by construction so the
    # search goes on behind it (cases then carry "excluded": 1)
    'gsq_qudit': SIG_GSQ_QUDIT,
    'u8_nan': 'output_not_a_unitary|GeneralSQDecomposition|U8Gate|ValueError',
    'u8_wrong': 'unitary|GeneralSQDecomposition|U8Gate',
    'extract': SIG_EXTRACT,
    'filter_tree': 'post_filter|TreeScanningGateRemovalPass',
    'filter_exh': 'post_filter|ExhaustiveGateRemovalPass',
    'tree_right': 'exc|treescan.py:get_tree_circs|IndexError|circuit.py',
    'fullqsd_noop': 'exc|qsd.py:run|ValueError|workflow.py',
    'bzxz_degenerate': 'exc|bzxz.py:demultiplex|ValueError|unitarymatrix.py',
    'bc_cg_variable':
        'post_source_gone|BlockConversionPass|circuitgates->variable',
    'bc_cg_variable2':
        'post_not_requested|BlockConversionPass|circuitgates->variable',
}


def _dev_main(argv) -> None:
    import collections
    import warnings
    import logging
    warnings.filterwarnings('ignore')
    logging.disable(logging.CRITICAL)
    names = [n for n in ROWS if argv[1] in ('all', n) or (
        argv[1].endswith('*') and n.startswith(argv[1][:-1]))]
    n = int(argv[2]) if len(argv) > 2 else 20
    seed = int(argv[3]) if len(argv) > 3 else 1
    for name in names:
        ctx = core.Ctx('C10', 'quick', seed, 0, 1, time.monotonic() + 3600)
        res = core.ShardResult()
        t0 = time.time()
        core.run_hypothesis(ctx, res, row_strategy(ROWS[name]), check, n)
        dt = time.time() - t0
        print(f'== {name}: {res.cases} cases {dt:.1f}s '
              f'({dt / max(1, res.cases):.2f}s/case) nontrivial='
              f'{len(res.nontrivial)}')
        print('   labels', dict(collections.Counter(res.labels)))
        for sig, b in res.buckets.items():
            print('   FAIL', sig, 'x', b['count'], b['detail'][:300])
            print('        case', core.canon(b['case'])[:1500])
    RT.close()


if __name__ == '__main__':
    from vt.props import c10 as _m      # picklable module-level filters
    _m._dev_main(sys.argv)
