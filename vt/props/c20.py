"""C20 - coupling-graph and qudit-permutation utilities match their definitions.

Cases (JSON):
  {"k":"graph","n":N,"edges":[[u,v],...]}                      all graph queries
  {"k":"wgraph","n":N,"edges":..,"remote":[..],"over":[[u,v,w]],"dw":..,"drw":..}
  {"k":"sub","n":N,"edges":..,"loc":[..],"renum":[..]|null}
  {"k":"embed","n1":..,"e1":..,"n2":..,"e2":..}
  {"k":"ctor","name":..,"a":..,"b":..}
  {"k":"perm","n":..,"radix":..,"loc":[..]}
  {"k":"kron","dims":[[radixes],...],"seed":S,"power":p}
  {"k":"builder","radixes":[..],"ops":[{"loc":[..],"side":"L|R","inv":bool,"seed":S}],"env":[..]}
"""
from __future__ import annotations

import itertools as it
import warnings

import numpy as np
from hypothesis import strategies as st

from vt import core
from vt.core import Outcome
from vt.oracle import graphref as G

ID = 'C20'
LEVEL = 'exploration'
RULE = (
    'cases: every labelled graph on <=5 (quick) / <=6 (thorough) vertices '
    'enumerated exhaustively plus Hypothesis-generated graphs up to 12 '
    'vertices (isolated vertices, extra qudits, labels >= 8, remote edges and '
    'weight overrides), ordered/permuted locations and renumberings, pairs of '
    'graphs for the embedding test, constructors, all qudit permutations of '
    '<=4 (quick) / <=5 (thorough) qudits with radix 2-4 (dim <= 1024), random '
    'Kronecker/power/apply sequences. Non-trivial: graph neither empty nor '
    'complete; permutation not the identity; builder sequence with a '
    'non-sorted or non-adjacent location. Distinct = sha1 of the JSON case.'
)
ASSUMPTIONS = [
    'reference algorithms in vt/oracle/graphref.py (BFS, Dijkstra, brute force '
    'over combinations/permutations) are correct',
    'numpy kron/matrix_power/einsum are correct',
    'shortest paths are judged by validity + hop-optimality, not equality',
]
SHARDS = {'quick': 16, 'thorough': 16}
BUDGET_S = {'quick': 200, 'thorough': 2400}


def _cg():
    from bqskit.ir.circuit import Circuit  # noqa: F401 (import order)
    from bqskit.qis.graph import CouplingGraph
    return CouplingGraph


def _edges(case_edges):
    return [(int(u), int(v)) for u, v in case_edges]


# --------------------------------------------------------------- graph checks
def check_graph(case) -> Outcome:
    CG = _cg()
    out = Outcome()
    n = case['n']
    edges = G.norm_edges(_edges(case['edges']))
    m = len(edges)
    out.nontrivial = 0 < m < n * (n - 1) // 2
    if any(max(e) >= 8 for e in edges):
        out.label('label>=8')
    g = CG(sorted(edges), n)
    if g.num_qudits != n:
        out.fail('num_qudits', f'{g.num_qudits} != {n}')
    if set(g) != edges or len(g) != m:
        out.fail('edge_set', f'{sorted(g)} != {sorted(edges)}')
    a = G.adj(n, edges)
    conn = G.connected(n, edges)
    out.label('connected' if conn else 'disconnected')
    if any(not a[v] for v in range(n)) and n > 1:
        out.label('isolated-vertex')

    # connectivity
    try:
        got = g.is_fully_connected()
        if bool(got) != conn:
            out.fail('is_fully_connected', f'got {got} want {conn}')
    except Exception as e:
        out.fail(core.exc_sig('is_fully_connected', e), repr(e))

    # neighbours / degrees / membership
    for v in range(n):
        nb = g.get_neighbors_of(v)
        if sorted(nb) != sorted(a[v]) or len(nb) != len(set(nb)):
            out.fail('neighbors', f'v={v} got {nb} want {sorted(a[v])}')
    if list(g.get_qudit_degrees()) != [len(a[v]) for v in range(n)]:
        out.fail('degrees', str(g.get_qudit_degrees()))
    for u, v in it.combinations(range(n), 2):
        if ((u, v) in g) != ((u, v) in edges):
            out.fail('contains', f'{(u, v)}')

    # all pairs shortest path (unit weights)
    D = g.all_pairs_shortest_path()
    for s in range(n):
        ref = G.bfs_dist(n, edges, s)
        for t in range(n):
            if s == t:
                continue  # D[s][s] is inf or a cycle length in the repo; not a distance claim
            want = float('inf') if ref[t] is None else float(ref[t])
            if float(D[s][t]) != want:
                out.fail('all_pairs', f'D[{s}][{t}]={D[s][t]} want {want}')
                break

    # single-source tree
    for s in range(n):
        ref = G.bfs_dist(n, edges, s)
        try:
            paths = g.get_shortest_path_tree(s)
        except RuntimeError as e:
            if conn:
                out.fail('sp_tree_raises_on_connected', repr(e))
            continue
        except Exception as e:
            out.fail(core.exc_sig('sp_tree', e), repr(e))
            continue
        if not conn:
            out.fail('sp_tree_no_error_on_disconnected', f'src={s}')
            continue
        if len(paths) != n:
            out.fail('sp_tree_len', f'{len(paths)}')
            continue
        for t, p in enumerate(paths):
            p = tuple(p)
            ok = (
                len(p) >= 1 and p[0] == s and p[-1] == t
                and all(
                    (min(x, y), max(x, y)) in edges for x, y in zip(p, p[1:])
                )
                and len(set(p)) == len(p)
            )
            if not ok:
                out.fail('sp_tree_invalid_path', f'src={s} t={t} path={p}')
            elif len(p) - 1 != ref[t]:
                out.fail(
                    'sp_tree_not_shortest',
                    f'src={s} t={t} path={p} want {ref[t]} hops',
                )

    # connected subsets of every size
    # the repo's search is exponential in k on dense graphs; callers use
    # k <= 4, so larger graphs are asked only for small sizes
    kmax = n if n <= 6 else (4 if n <= 9 else 3)
    for k in range(1, kmax + 1):
        try:
            locs = g.get_subgraphs_of_size(k)
        except Exception as e:
            out.fail(core.exc_sig('subgraphs_of_size', e), f'k={k} {e!r}')
            continue
        want = G.connected_subsets(n, edges, k)
        got = [frozenset(l) for l in locs]
        if any(len(l) != k or len(set(l)) != k for l in locs):
            out.fail('subgraphs_bad_location', f'k={k} {locs}')
        if set(got) != want:
            out.fail(
                'subgraphs_set',
                f'k={k} missing={sorted(map(sorted, want - set(got)))} '
                f'extra={sorted(map(sorted, set(got) - want))}',
            )
        elif len(got) != len(set(got)):
            out.fail(
                'subgraphs_dup', f'k={k} {len(got)} locations for '
                f'{len(want)} subsets: {sorted(map(tuple, locs))}',
            )
    for bad in (0, -1, n + 1):
        try:
            g.get_subgraphs_of_size(bad)
            out.fail('subgraphs_size_no_error', f'size={bad}')
        except ValueError:
            pass
        except Exception as e:
            out.fail(core.exc_sig('subgraphs_size_error_type', e), repr(e))

    # is_linear: a path graph covering all vertices
    degs = [len(a[v]) for v in range(n)]
    want_lin = (
        n >= 2 and conn and m == n - 1 and max(degs) <= 2
    )
    got_lin = g.is_linear()
    if bool(got_lin) != want_lin:
        # a disjoint union of a path and cycles also has two degree-1 nodes;
        # "linearly connected" per the docstring means a single path
        out.fail('is_linear', f'got {got_lin} want {want_lin}')

    # connectivity without a vertex
    if n >= 3:
        for q in range(n):
            rest = [v for v in range(n) if v != q]
            want = G.connected(n, edges, rest)
            try:
                got = g.is_fully_connected_without(q)
                if bool(got) != want:
                    out.fail('connected_without', f'q={q} got {got}')
            except Exception as e:
                out.fail(core.exc_sig('connected_without', e), repr(e))

    # maximal matching: valid and maximal
    mm = g.maximal_matching()
    used = [v for e in mm for v in e]
    if len(used) != len(set(used)) or any(
        (min(e), max(e)) not in edges for e in mm
    ):
        out.fail('matching_invalid', str(mm))
    elif any(u not in used and v not in used for u, v in edges):
        out.fail('matching_not_maximal', str(mm))

    # rooted minimum span (connected graphs): a spanning tree where each
    # listed edge (parent, child) has its parent already reached and all
    # tree distances from the root equal the BFS distances
    if conn and n >= 1:
        for r in range(n):
            try:
                span = g.get_rooted_minimum_span(r)
            except Exception as e:
                out.fail(core.exc_sig('rooted_span', e), repr(e))
                continue
            reached = {r}
            depth = {r: 0}
            ok = len(span) == n - 1
            for p, c in span:
                if p not in reached or c in reached or \
                        (min(p, c), max(p, c)) not in edges:
                    ok = False
                    break
                reached.add(c)
                depth[c] = depth[p] + 1
            ref = G.bfs_dist(n, edges, r)
            if not ok or len(reached) != n:
                out.fail('rooted_span_invalid', f'root={r} {span}')
            elif any(depth[v] != ref[v] for v in range(n)):
                out.fail('rooted_span_not_minimal', f'root={r} {span}')

    # equality / hash of two builds
    g2 = CG([(v, u) for u, v in sorted(edges, reverse=True)], n)
    if not (g == g2):
        out.fail('eq_rebuild', 'same edges, different order/orientation')
    return out


def check_wgraph(case) -> Outcome:
    CG = _cg()
    out = Outcome()
    n = case['n']
    edges = G.norm_edges(_edges(case['edges']))
    remote = G.norm_edges(_edges(case['remote']))
    over = {(min(u, v), max(u, v)): float(w) for u, v, w in case['over']}
    dw, drw = float(case['dw']), float(case['drw'])
    out.nontrivial = bool(remote or over) and 0 < len(edges)
    g = CG(
        sorted(edges), n, remote_edges=sorted(remote), default_weight=dw,
        default_remote_weight=drw,
        edge_weights_overrides={k: over[k] for k in sorted(over)},
    )
    w = {}
    for e in edges:
        w[e] = dw
    for e in remote:
        w[e] = drw
    for e, x in over.items():
        w[e] = x
    D = g.all_pairs_shortest_path()
    for s in range(n):
        ref = G.dijkstra(n, w, s)
        for t in range(n):
            if s == t:
                continue
            a, b = float(D[s][t]), ref[t]
            if not (a == b or abs(a - b) <= 1e-9 * max(1.0, abs(b))):
                out.fail('all_pairs_weighted', f'D[{s}][{t}]={a} want {b}')
                return out
    # QPU partition: components of the graph minus remote edges
    local = edges - remote
    if remote:
        out.label('distributed')
        if not g.is_distributed():
            out.fail('is_distributed', 'False with remote edges')
        comps = []
        seen = set()
        for v in range(n):
            if v in seen:
                continue
            d = G.bfs_dist(n, local, v)
            comp = frozenset(u for u in range(n) if d[u] is not None)
            seen |= comp
            comps.append(comp)
        got = [frozenset(c) for c in g.get_qpu_to_qudit_map()]
        if sorted(map(sorted, got)) != sorted(map(sorted, comps)):
            out.fail('qpu_map', f'{got} want {comps}')
        if g.qpu_count() != len(comps):
            out.fail('qpu_count', str(g.qpu_count()))
    return out


def check_sub(case) -> Outcome:
    CG = _cg()
    out = Outcome()
    n = case['n']
    edges = G.norm_edges(_edges(case['edges']))
    loc = [int(x) for x in case['loc']]
    renum = case['renum']
    g = CG(sorted(edges), n)
    k = len(loc)
    out.nontrivial = k >= 2 and loc != sorted(loc) or renum is not None
    if renum is None:
        mapping = {q: i for i, q in enumerate(loc)}
        sub = g.get_subgraph(loc)
    else:
        mapping = {q: int(r) for q, r in zip(loc, renum)}
        sub = g.get_subgraph(loc, dict(mapping))
        out.label('renumbering')
    want = G.norm_edges(
        (mapping[u], mapping[v]) for u, v in edges
        if u in mapping and v in mapping
    )
    if sub.num_qudits != k:
        out.fail('subgraph_width', f'{sub.num_qudits} != {k}')
    if set(sub) != want:
        out.fail(
            'subgraph_edges', f'loc={loc} renum={renum} got {sorted(sub)} '
            f'want {sorted(want)}',
        )
    # deprecated helpers still documented: induced edges, relabel
    with warnings.catch_warnings():
        warnings.simplefilter('ignore')
        if k >= 2:
            ind = g.get_induced_subgraph(loc)
            wi = {(u, v) for u, v in edges if u in mapping and v in mapping}
            if G.norm_edges(ind) != wi or len(ind) != len(wi):
                out.fail('induced_subgraph', f'{ind} want {sorted(wi)}')
            if wi:
                rel = CG.relabel_subgraph(sorted(wi), dict(mapping))
                if set(rel) != want:
                    out.fail('relabel_subgraph', f'{sorted(rel)} want {want}')
    return out


def check_embed(case) -> Outcome:
    CG = _cg()
    out = Outcome()
    e1 = G.norm_edges(_edges(case['e1']))
    e2 = G.norm_edges(_edges(case['e2']))
    n1, n2 = case['n1'], case['n2']
    g1, g2 = CG(sorted(e1), n1), CG(sorted(e2), n2)
    want = G.monomorphic(n1, e1, n2, e2)
    got = g1.is_embedded_in(g2)
    out.nontrivial = len(e1) > 0 and len(e2) > 0
    out.label('embedded' if want else 'not-embedded')
    if bool(got) != want:
        out.fail('is_embedded_in', f'got {got} want {want}')
    return out


def check_ctor(case) -> Outcome:
    CG = _cg()
    out = Outcome()
    name, a, b = case['name'], case['a'], case['b']
    out.nontrivial = a >= 3
    if name == 'linear':
        g = CG.linear(a)
        want = {(i, i + 1) for i in range(a - 1)}
        n = a
    elif name == 'ring':
        g = CG.ring(a)
        want = G.norm_edges(
            [(i, (i + 1) % a) for i in range(a) if i != (i + 1) % a],
        )
        n = a
    elif name == 'star':
        g = CG.star(a)
        want = {(0, i) for i in range(1, a)}
        n = a
    elif name == 'all_to_all':
        g = CG.all_to_all(a)
        want = set(it.combinations(range(a), 2))
        n = a
    else:
        g = CG.grid(a, b)
        n = a * b
        want = set()
        for r in range(a):
            for c in range(b):
                v = r * b + c
                if c + 1 < b:
                    want.add((v, v + 1))
                if r + 1 < a:
                    want.add((v, v + b))
    if set(g) != want:
        out.fail(f'ctor_{name}', f'a={a} b={b} got {sorted(g)}')
    if n >= 2 and want and g.num_qudits != n:
        out.fail(f'ctor_{name}_width', f'{g.num_qudits} != {n}')
    return out


# ---------------------------------------------------------- matrices
def _haar(dim: int, seed: int) -> np.ndarray:
    rng = np.random.default_rng(seed)
    z = rng.normal(size=(dim, dim)) + 1j * rng.normal(size=(dim, dim))
    q, r = np.linalg.qr(z)
    d = np.diag(r)
    return q * (d / np.abs(d))


def ref_perm_matrix(n: int, radix: int, loc: list) -> np.ndarray:
    """P|x_0..x_{n-1}> = |x_{full[0]} .. x_{full[n-1]}>, full = loc followed by
    the remaining qudits in increasing order; qudit 0 most significant."""
    full = list(loc) + [i for i in range(n) if i not in loc]
    dim = radix ** n
    P = np.zeros((dim, dim))
    for col in range(dim):
        digits = []
        c = col
        for _ in range(n):
            digits.append(c % radix)
            c //= radix
        digits.reverse()
        nd = [digits[full[i]] for i in range(n)]
        row = 0
        for x in nd:
            row = row * radix + x
        P[row, col] = 1
    return P


def check_perm(case) -> Outcome:
    from bqskit.ir.circuit import Circuit  # noqa: F401
    from bqskit.qis.permutation import PermutationMatrix
    out = Outcome()
    n, radix, loc = case['n'], case['radix'], list(case['loc'])
    full = loc + [i for i in range(n) if i not in loc]
    out.nontrivial = full != list(range(n))
    P = PermutationMatrix.from_qudit_location(n, radix, loc)
    want = ref_perm_matrix(n, radix, loc)
    got = np.asarray(P.numpy)
    if got.shape != want.shape or not np.array_equal(np.real(got), want) \
            or np.abs(np.imag(got)).max() != 0:
        out.fail('perm_matrix', f'n={n} radix={radix} loc={loc}')
    if tuple(P.radixes) != (radix,) * n:
        out.fail('perm_radixes', str(P.radixes))
    if radix == 2:
        Q = PermutationMatrix.from_qubit_location(n, loc)
        if not np.array_equal(np.asarray(Q.numpy), got):
            out.fail('perm_qubit_variant', f'loc={loc}')
    if not PermutationMatrix.is_permutation(got):
        out.fail('is_permutation_false_negative', f'loc={loc}')
    return out


def _kron_embed(n, radixes, M, loc):
    """Explicit (M on loc) (x) identity elsewhere, qudit 0 most significant,
    computed by basis-state index arithmetic."""
    dim = int(np.prod(radixes))
    k = len(loc)
    out = np.zeros((dim, dim), dtype=np.complex128)
    rest = [q for q in range(n) if q not in loc]

    def digits(x):
        ds = []
        for r in reversed(radixes):
            ds.append(x % r)
            x //= r
        return ds[::-1]

    def undigits(ds):
        x = 0
        for d, r in zip(ds, radixes):
            x = x * r + d
        return x

    lrad = [radixes[q] for q in loc]

    def lidx(ds):
        x = 0
        for q, r in zip(loc, lrad):
            x = x * r + ds[q]
        return x
    ldim = int(np.prod(lrad))
    for col in range(dim):
        dc = digits(col)
        lc = lidx(dc)
        for lr in range(ldim):
            amp = M[lr, lc]
            if amp == 0:
                continue
            dr = list(dc)
            x = lr
            for q, r in zip(reversed(loc), reversed(lrad)):
                dr[q] = x % r
                x //= r
            out[undigits(dr), col] += amp
    del k, rest
    return out


def check_kron(case) -> Outcome:
    from bqskit.ir.circuit import Circuit  # noqa: F401
    from bqskit.qis.unitary.unitarymatrix import UnitaryMatrix
    out = Outcome()
    dims = case['dims']
    mats = [
        _haar(int(np.prod(r)), case['seed'] + i) for i, r in enumerate(dims)
    ]
    us = [UnitaryMatrix(m, r) for m, r in zip(mats, dims)]
    out.nontrivial = len(dims) >= 2
    got = us[0].otimes(*us[1:])
    want = mats[0]
    for m in mats[1:]:
        want = np.kron(want, m)
    if np.abs(np.asarray(got.numpy) - want).max() > 1e-12:
        out.fail('otimes_value', f'dims={dims}')
    wr = tuple(x for r in dims for x in r)
    if tuple(got.radixes) != wr:
        out.fail('otimes_radixes', f'{got.radixes} want {wr}')
    p = case['power']
    gp = us[0].ipower(p)
    wp = np.linalg.matrix_power(
        mats[0] if p >= 0 else mats[0].conj().T, abs(p),
    )
    if np.abs(np.asarray(gp.numpy) - wp).max() > 1e-9:
        out.fail('ipower', f'p={p} dims={dims[0]}')
    if tuple(gp.radixes) != tuple(dims[0]):
        out.fail('ipower_radixes', str(gp.radixes))
    d = us[0].dagger
    if np.abs(np.asarray(d.numpy) - mats[0].conj().T).max() > 1e-14:
        out.fail('dagger', '')
    return out


def check_builder(case) -> Outcome:
    from bqskit.ir.circuit import Circuit  # noqa: F401
    from bqskit.qis.unitary.unitarybuilder import UnitaryBuilder
    from bqskit.qis.unitary.unitarymatrix import UnitaryMatrix
    out = Outcome()
    radixes = list(case['radixes'])
    n = len(radixes)
    dim = int(np.prod(radixes))
    b = UnitaryBuilder(n, radixes)
    ref = np.eye(dim, dtype=np.complex128)
    for i, op in enumerate(case['ops']):
        loc = list(op['loc'])
        lr = [radixes[q] for q in loc]
        M = _haar(int(np.prod(lr)), op['seed'])
        if loc != sorted(loc) or any(y - x != 1 for x, y in zip(loc, loc[1:])):
            out.nontrivial = True
        E = _kron_embed(n, radixes, M.conj().T if op['inv'] else M, loc)
        U = UnitaryMatrix(M, lr)
        if op['side'] == 'R':
            # eval first: must not mutate and must equal the applied result
            ev = b.eval_apply_right(M.conj().T if op['inv'] else M, loc)
            b.apply_right(U, loc, inverse=op['inv'])
            ref = E @ ref
        else:
            ev = b.eval_apply_left(M.conj().T if op['inv'] else M, loc)
            b.apply_left(U, loc, inverse=op['inv'])
            ref = ref @ E
        got = np.asarray(b.get_unitary().numpy)
        if np.abs(got - ref).max() > 1e-10:
            out.fail(
                f'builder_apply_{op["side"]}',
                f'step {i} loc={loc} radixes={radixes} inv={op["inv"]}',
            )
            return out
        if np.abs(np.asarray(ev) - ref).max() > 1e-10:
            out.fail(f'builder_eval_apply_{op["side"]}', f'step {i} loc={loc}')
            return out
    env = case.get('env')
    if env and all(r == 2 for r in radixes) and len(env) < n:
        # environment matrix: partial trace over the qudits NOT in env of the
        # current unitary, as a matrix on env (documented for qubits)
        got = np.asarray(b.calc_env_matrix(env))
        t = ref.reshape(radixes + radixes)
        rest = [q for q in range(n) if q not in env]
        letters = 'abcdefghijklmnopqrstuvwxyz'
        row = [letters[q] for q in range(n)]
        col = [letters[n + q] for q in range(n)]
        for q in rest:
            col[q] = row[q]
        expr = ''.join(row) + ''.join(col) + '->' + \
            ''.join(row[q] for q in env) + ''.join(col[q] for q in env)
        want = np.einsum(expr, t).reshape(2 ** len(env), 2 ** len(env))
        if got.shape != want.shape or np.abs(got - want).max() > 1e-10:
            out.fail('calc_env_matrix', f'env={env} n={n}')
        out.label('env')
    return out


CHECKS = {
    'graph': check_graph, 'wgraph': check_wgraph, 'sub': check_sub,
    'embed': check_embed, 'ctor': check_ctor, 'perm': check_perm,
    'kron': check_kron, 'builder': check_builder,
}


def check(case) -> Outcome:
    out = CHECKS[case['k']](case)
    out.label('kind:' + case['k'])
    return out


replay = check


# ------------------------------------------------------------- generators
def all_graphs(nmax: int):
    for n in range(1, nmax + 1):
        pairs = list(it.combinations(range(n), 2))
        for mask in range(1 << len(pairs)):
            yield {
                'k': 'graph', 'n': n,
                'edges': [
                    list(p) for i, p in enumerate(pairs) if mask >> i & 1
                ],
            }


def all_perms(nmax: int):
    for n in range(1, nmax + 1):
        for radix in (2, 3, 4):
            if radix ** n > 1024:
                continue
            for k in range(1, n + 1):
                for loc in it.permutations(range(n), k):
                    yield {'k': 'perm', 'n': n, 'radix': radix,
                           'loc': list(loc)}


@st.composite
def graph_cases(draw, nmax=12):
    n = draw(st.integers(1, nmax))
    pairs = list(it.combinations(range(n), 2))
    style = draw(st.sampled_from(['sparse', 'tree+', 'dense', 'any']))
    if not pairs:
        edges = []
    elif style == 'tree+':
        perm = draw(st.permutations(range(n)))
        edges = set()
        for i in range(1, n):
            j = draw(st.integers(0, i - 1))
            edges.add((min(perm[i], perm[j]), max(perm[i], perm[j])))
        extra = draw(st.lists(st.sampled_from(pairs), max_size=4))
        edges = sorted(edges | set(extra))
    else:
        p = {'sparse': 0.2, 'dense': 0.7, 'any': 0.45}[style]
        bits = draw(
            st.lists(
                st.floats(0, 1, allow_nan=False), min_size=len(pairs),
                max_size=len(pairs),
            ),
        )
        edges = [pr for pr, b in zip(pairs, bits) if b < p]
    extra_q = draw(st.sampled_from([0, 0, 0, 1, 3]))
    return {
        'k': 'graph', 'n': n + extra_q,
        'edges': [list(e) for e in edges],
    }


@st.composite
def wgraph_cases(draw):
    g = draw(graph_cases(nmax=8))
    edges = [tuple(e) for e in g['edges']]
    remote = draw(st.lists(st.sampled_from(edges), max_size=3, unique=True)) \
        if edges else []
    ov = draw(st.lists(st.sampled_from(edges), max_size=3, unique=True)) \
        if edges else []
    wts = st.sampled_from([0.5, 1.0, 2.0, 3.5, 10.0, 100.0])
    return {
        'k': 'wgraph', 'n': g['n'], 'edges': g['edges'],
        'remote': [list(e) for e in remote],
        'over': [[e[0], e[1], draw(wts)] for e in ov],
        'dw': draw(st.sampled_from([1.0, 1.0, 2.0, 0.25])),
        'drw': draw(st.sampled_from([100.0, 5.0, 1.0])),
    }


@st.composite
def sub_cases(draw):
    g = draw(graph_cases(nmax=10))
    n = g['n']
    k = draw(st.integers(1, n))
    loc = draw(st.permutations(range(n)))[:k]
    renum = None
    if draw(st.booleans()):
        renum = list(draw(st.permutations(range(k))))
    return {'k': 'sub', 'n': n, 'edges': g['edges'], 'loc': list(loc),
            'renum': renum}


@st.composite
def embed_cases(draw):
    g1 = draw(graph_cases(nmax=5))
    g2 = draw(graph_cases(nmax=6))
    if draw(st.booleans()) and g2['n'] >= g1['n']:
        # plant: g2 := relabelled g1 plus extra edges, so positives occur
        perm = draw(st.permutations(range(g2['n'])))
        planted = [[perm[u], perm[v]] for u, v in g1['edges']]
        g2 = dict(g2, edges=[list(e) for e in G.norm_edges(
            [tuple(e) for e in planted + g2['edges'][:2]])])
    return {'k': 'embed', 'n1': g1['n'], 'e1': g1['edges'],
            'n2': g2['n'], 'e2': g2['edges']}


ctor_cases = st.one_of(
    st.builds(
        lambda name, a: {'k': 'ctor', 'name': name, 'a': a, 'b': 0},
        st.sampled_from(['linear', 'ring', 'star', 'all_to_all']),
        st.integers(2, 12),
    ),
    st.builds(
        lambda a, b: {'k': 'ctor', 'name': 'grid', 'a': a, 'b': b},
        st.integers(1, 5), st.integers(1, 5),
    ),
)


@st.composite
def radix_lists(draw, max_dim=512, max_n=5):
    n = draw(st.integers(1, max_n))
    out = []
    d = 1
    for _ in range(n):
        r = draw(st.sampled_from([2, 2, 3, 4]))
        if d * r > max_dim:
            break
        out.append(r)
        d *= r
    return out or [2]


@st.composite
def kron_cases(draw):
    k = draw(st.integers(1, 4))
    dims = []
    total = 1
    for _ in range(k):
        r = draw(radix_lists(max_dim=16, max_n=2))
        d = int(np.prod(r))
        if total * d > 512 and dims:
            break
        dims.append(r)
        total *= d
    return {'k': 'kron', 'dims': dims, 'seed': draw(st.integers(0, 2**31)),
            'power': draw(st.integers(-3, 5))}


@st.composite
def builder_cases(draw):
    radixes = draw(radix_lists(max_dim=256, max_n=5))
    n = len(radixes)
    ops = []
    for _ in range(draw(st.integers(1, 5))):
        k = draw(st.integers(1, min(3, n)))
        loc = list(draw(st.permutations(range(n)))[:k])
        ops.append({
            'loc': loc, 'side': draw(st.sampled_from('LR')),
            'inv': draw(st.booleans()), 'seed': draw(st.integers(0, 2**31)),
        })
    env = None
    if n >= 2 and all(r == 2 for r in radixes):
        k = draw(st.integers(1, n - 1))
        env = list(draw(st.permutations(range(n)))[:k])
    return {'k': 'builder', 'radixes': radixes, 'ops': ops, 'env': env}


@st.composite
def perm_cases(draw):
    radix = draw(st.sampled_from([2, 3, 4, 5]))
    nmax = {2: 8, 3: 5, 4: 4, 5: 3}[radix]
    n = draw(st.integers(1, nmax))
    k = draw(st.integers(1, n))
    loc = list(draw(st.permutations(range(n)))[:k])
    return {'k': 'perm', 'n': n, 'radix': radix, 'loc': loc}


def run_shard(ctx: core.Ctx) -> core.ShardResult:
    res = core.ShardResult()
    quick = ctx.tier == 'quick'
    done1 = core.run_enumeration(
        ctx, res, all_graphs(5 if quick else 6), check,
    )
    done2 = core.run_enumeration(
        ctx, res, all_perms(4 if quick else 5), check,
    )
    res.extra['exhaustive_graphs_upto'] = 5 if quick else 6
    res.extra['exhaustive_perms_upto'] = 4 if quick else 5
    res.extra['exhaustive_part_complete'] = bool(done1 and done2)
    plan = [
        (graph_cases(), 120, 4000), (wgraph_cases(), 60, 2000),
        (sub_cases(), 100, 3000), (embed_cases(), 60, 1500),
        (ctor_cases, 30, 200), (kron_cases(), 60, 2000),
        (builder_cases(), 100, 3000), (perm_cases(), 40, 500),
    ]
    for i, (strat, q, t) in enumerate(plan):
        core.run_hypothesis(ctx, res, strat, check, ctx.n(q, t), sub=i)
    return res
