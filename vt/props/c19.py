"""C19 - cost functions and instantiation are faithful to circuit semantics.

Reference definitions (what the numbers are compared with)
----------------------------------------------------------
``U(p)`` is the unitary of the circuit at the flat parameter vector ``p``
computed by ``vt.oracle.refsim`` (grid walk + numpy tensordot; gate matrices
from each gate's own ``get_unitary``).  ``N`` = matrix dimension.

* unitary target ``T``  : cost(p) = 1 - |tr(T^dagger U(p))| / N
  (``HilbertSchmidtCost`` docstring: based on the Hilbert-Schmidt inner
  product, zero iff equal up to a global phase; DESIGN/gotchas: HS cost =
  1 - |tr(U^dagger T)|/N.)
* state target ``t``    : cost(p) = 1 - |<t| U(p) |0..0>|^2
  (``Circuit.instantiate``: "maps the zero state to the target state";
  ``StateVector.get_distance_from``: "the distance is given as the infidelity".)
* state system {v_i -> w_i, i < k}: cost(p) = 1 - |sum_i <w_i|U(p)|v_i>| / k
  = 1 - |tr(T_s^dagger U(p))| / k with T_s = W V^dagger, which is exactly the
  ``StateSystem.target`` matrix and ``_vec_count`` the class prepares.
* ``HilbertSchmidtResiduals.get_cost`` is the same number (the class docstring
  promises the phase-aware cost).  The residual *vector* has no written
  definition anywhere in /repo; the formulas below were derived from the
  behaviour of bqskitrs 0.4.1 on the unchanged tree and are PINNED here (own
  signature ``resid_value|<kind>`` so a deliberate redefinition can be triaged
  separately).  The Jacobian is then compared with finite differences of the
  pinned reference, not of the implementation:
    unitary: r = [vec(Re(U T^dagger) - I), vec(Im(U T^dagger))]       (2 N^2)
             sum r^2 = ||U - T||_F^2 = 2N (1 - Re tr(T^dagger U)/N) >= 2N cost
             with equality iff tr(T^dagger U) is real and positive.
    system : the same with T := T_s = W V^dagger                        (2 N^2)
    state  : r_i = |U(p)|0>_i - t_i|^2                                    (N)
  Consequently the residual vector is *not* global-phase invariant (only
  ``get_cost`` is); that is recorded as a label, not judged.
* gradients: central finite differences of the REFERENCE cost / residuals,
  step FD_STEP, compared with tolerance TOL_GRAD.  |tr| has a kink at 0, so
  gradient clauses are skipped (label) when |tr(T^dagger U)| < KINK_MIN.

How the evaluation path is chosen: the native engine converts a circuit gate
by gate on ``type(gate).__name__``: RX/RY/RZ/RXX/RYY/RZZ/CRX/CRY/CRZ/U1/U2/U3/
U8/VariableUnitaryGate are re-implemented natively, parameter-free gates are
frozen to their ``get_unitary()``, and every other parameterised gate is
called back through ``get_unitary``/``get_grad``/``get_unitary_and_grad``
(the "python" path).  ``VtGivensGate``/``VtCPhaseGate`` below are
user-defined gates without ``_expr`` that are certain to take that path.

Clauses -> signatures
  cost_value / resid_cost_value |kind|path   get_cost == reference (1e-9)
  cost_zero|kind, cost_positive|kind         zero iff equal up to phase
  calc_cost / resid_calc_cost |kind          generator.calc_cost at c.params
  resid_value|kind|path, resid_shape|kind    pinned residual vector
  grad_fd|path|GateClass                     get_grad, get_cost_and_grad and
       every residual-Jacobian column == central differences of the
       reference; one signature per (path, class of the gate owning the bad
       parameter) whichever function exposes it
  *_differs                                  two entry points of one object
  inst_same_object, inst_structure, inst_param_count, inst_num_candidates,
  inst_kept_not_a_candidate, inst_kept_min_cost, inst_auto_selection
  inst_exc|method|ExcType|frame[|culprit]    unexpected exception / panic
  <clause>|ExcType|frame                     unexpected exception elsewhere

Findings on the unchanged tree and their exclusion modes (active only when
``ctx.is_known(sig)``; the replaced draws are counted in ``excluded`` and one
dedicated probe per shard keeps reporting the finding):
  grad_fd|native|CRYGate            top-level CRYGate -> CRXGate in cases
                                    whose gradient clauses run
  inst_exc|qfactor|PanicException|qfactor.py:instantiate|{U3Gate,U8Gate,
  PauliZGate}                       that gate -> VariableUnitaryGate in the
                                    qfactor arm
  inst_exc|qfactor|nonunitary-target  qfactor arm draws unitary targets only

Cases (JSON):
  {"k":"cost","circ":CSPEC,"t":TSPEC,"excl":n}
  {"k":"inst","circ":CSPEC,"t":TSPEC,"meth":"qfactor|ceres|lbfgs|scipy",
   "via":"obj|name|auto","starts":k,"seed":S,"excl":n}
  CSPEC = vt.gen.specs circuit spec; each op additionally carries "p": the
          evaluation point for that op ("params" are the stored parameters).
          A params value {"vu":seed} expands to a well-conditioned matrix for
          VariableUnitaryGate.  Gate specs {"g":"VtGivens","a":[radix]} and
          {"g":"VtCPhase","a":[r1,r2]} are the user gates.
  TSPEC = {"kind":"unitary|state|system","mode":"haar|solved|perturbed",
           "seed":S,"phase":phi,"eps":e,"nv":k,"orth":bool}
          "solved": target = e^{i phi} U(p) (state: applied to |0>, system:
          W = e^{i phi} U(p) V); "perturbed": the same times exp(i eps H).
"""
from __future__ import annotations

import contextlib
import math
import os

import numpy as np
from hypothesis import strategies as st

from vt import core
from vt.core import Outcome
from vt.gen import specs
from vt.oracle import refsim

ID = 'C19'
LEVEL = 'exploration'
RULE = (
    'cost cases: circuits of width 1-4 (radix 2/3/4, dim <= 100, 0-8 ops) '
    'over natively re-implemented gates, library gates that take the Python '
    'call-back path, composed gates (Dagger/Tagged/Power/Frozen/Controlled/'
    'CircuitGate) and two user-defined Gate subclasses; an evaluation point '
    'p; a unitary / state / state-system target that is Haar random, equal '
    'to e^{i phi}U(p), or a perturbation of it. instantiation cases: such '
    'circuits (dim <= 36) with qfactor or minimization (Ceres, LBFGS, Scipy), '
    '1-8 seeded starts, passed as object, by name or auto-selected. '
    'Non-trivial (cost case): >= 2 parameterised ops including a multi-qudit, '
    'composed or user gate, and a generic parameter vector (at least half of '
    'the components are not special values). Non-trivial (instantiation '
    'case): >= 2 starts whose candidates differ in cost, so that the arg-min '
    'clause can fail. Distinct = sha1 of the JSON case.'
)
ASSUMPTIONS = [
    'vt.oracle.refsim composition (grid walk, tensordot) is correct; gate '
    'matrices come from each gate\'s own get_unitary (C18 judges those)',
    'the flat parameter order is the circuit\'s own iteration order (that is '
    'how Circuit.params is defined); that this order is a valid application '
    'order is cross-checked against the grid walk on every case',
    'the residual-vector formulas are pinned from bqskitrs 0.4.1 behaviour '
    '(undocumented in /repo); get_cost and all gradients are judged against '
    'the documented Hilbert-Schmidt / infidelity expressions',
    'central differences with step 1e-6 of a smooth function are accurate '
    'to 1e-7 where |tr(T^dagger U)| >= 0.05',
    'numpy linear algebra is correct',
    'instantiation convergence is never judged; only identity, structure and '
    'arg-min over the candidates the instantiater itself produced',
]
SHARDS = {'quick': 16, 'thorough': 16}
BUDGET_S = {'quick': 150, 'thorough': 2400}

# ---------------------------------------------------------------- constants
TOL_COST = 1e-9       # |native cost - reference cost|
TOL_ZERO = 1e-12      # cost at a target equal up to phase
TOL_RESID = 1e-9      # residual vector entries
FD_STEP = 1e-6
TOL_GRAD = 1e-5       # gradient / Jacobian entries vs central differences
TOL_SAME_GRAD = 1e-9  # get_grad vs get_cost_and_grad
KINK_MIN = 0.05       # skip gradient clauses when |tr(T^dagger U)| is below
POSITIVE_MIN = 1e-10  # reference cost above which "cost > 0" is demanded
TOL_ARGMIN = 1e-9     # kept cost vs minimum candidate cost
SOLVED_COST = 1e-6    # label only

NATIVE = frozenset([
    'RXGate', 'RYGate', 'RZGate', 'RXXGate', 'RYYGate', 'RZZGate', 'CRXGate',
    'CRYGate', 'CRZGate', 'U1Gate', 'U2Gate', 'U3Gate', 'U8Gate',
    'VariableUnitaryGate',
])
NATIVE_Q1 = ['RXGate', 'RYGate', 'RZGate', 'U1Gate', 'U2Gate', 'U3Gate']
NATIVE_Q2 = ['RXXGate', 'RYYGate', 'RZZGate', 'CRXGate', 'CRYGate', 'CRZGate']
SPECIAL = frozenset(specs.SPECIAL_PARAMS)

SIG_CRY = 'grad_fd|native|CRYGate'
SIG_QF_TARGET = 'inst_exc|qfactor|nonunitary-target'


def qf_exc_sig(cls_name: str) -> str:
    """Signature of a native panic inside QFactor blamed on one gate class."""
    return f'inst_exc|qfactor|PanicException|qfactor.py:instantiate|{cls_name}'


# ------------------------------------------------------------- user gates
def _user_gate_classes():
    """Defined lazily so that importing this module does not import bqskit
    before the runner has checked where it comes from."""
    global _USER
    if _USER is not None:
        return _USER
    from bqskit.ir.gate import Gate
    from bqskit.qis.unitary.unitarymatrix import UnitaryMatrix

    class VtGivensGate(Gate):
        """One qudit of radix r, params (theta, phi): a Givens rotation with
        phase between levels 0 and r-1; for r > 2 level 1 gets e^{i phi/2}.
        Hand-written matrix and gradient, no ``_expr``."""
        _num_qudits = 1
        _num_params = 2
        _qasm_name = 'vtgivens'

        def __init__(self, radix: int = 2) -> None:
            self._radix = int(radix)
            self._radixes = (int(radix),)
            self._dim = int(radix)
            self._name = f'VtGivens({radix})'

        def _parts(self, params):
            th, ph = float(params[0]), float(params[1])
            return (math.cos(th / 2), math.sin(th / 2),
                    complex(math.cos(ph), math.sin(ph)),
                    complex(math.cos(ph / 2), math.sin(ph / 2)))

        def get_unitary(self, params=[]):
            self.check_parameters(params)
            c, s, e, eh = self._parts(params)
            r = self._radix
            m = np.eye(r, dtype=np.complex128)
            m[0, 0] = c
            m[0, r - 1] = -np.conj(e) * s
            m[r - 1, 0] = e * s
            m[r - 1, r - 1] = c
            if r > 2:
                m[1, 1] = eh
            return UnitaryMatrix(m, self._radixes, False)

        def get_grad(self, params=[]):
            self.check_parameters(params)
            c, s, e, eh = self._parts(params)
            r = self._radix
            g = np.zeros((2, r, r), dtype=np.complex128)
            g[0, 0, 0] = -s / 2
            g[0, 0, r - 1] = -np.conj(e) * c / 2
            g[0, r - 1, 0] = e * c / 2
            g[0, r - 1, r - 1] = -s / 2
            g[1, 0, r - 1] = 1j * np.conj(e) * s
            g[1, r - 1, 0] = 1j * e * s
            if r > 2:
                g[1, 1, 1] = 0.5j * eh
            return g

        def is_differentiable(self) -> bool:
            return True

        def __eq__(self, other):
            return type(other) is type(self) and other._radix == self._radix

        def __hash__(self):
            return hash(('VtGivens', self._radix))

    class VtCPhaseGate(Gate):
        """Two qudits (r1, r2), one param theta:
        diag(exp(i theta a b)) . (Shift_{r1} (x) I).  Not symmetric under
        exchanging its qudits, so location order matters."""
        _num_qudits = 2
        _num_params = 1
        _qasm_name = 'vtcphase'

        def __init__(self, r1: int = 2, r2: int = 2) -> None:
            self._radixes = (int(r1), int(r2))
            self._dim = int(r1) * int(r2)
            self._name = f'VtCPhase({r1},{r2})'
            r1, r2 = self._radixes
            shift = np.roll(np.eye(r1), 1, axis=0)
            self._s = np.kron(shift, np.eye(r2)).astype(np.complex128)
            self._ab = np.array(
                [a * b for a in range(r1) for b in range(r2)], dtype=float,
            )

        def get_unitary(self, params=[]):
            self.check_parameters(params)
            d = np.exp(1j * float(params[0]) * self._ab)
            return UnitaryMatrix(d[:, None] * self._s, self._radixes, False)

        def get_grad(self, params=[]):
            self.check_parameters(params)
            d = 1j * self._ab * np.exp(1j * float(params[0]) * self._ab)
            return np.array([d[:, None] * self._s], dtype=np.complex128)

        def is_differentiable(self) -> bool:
            return True

        def __eq__(self, other):
            return type(other) is type(self) and \
                other._radixes == self._radixes

        def __hash__(self):
            return hash(('VtCPhase', self._radixes))

    _USER = {'VtGivens': VtGivensGate, 'VtCPhase': VtCPhaseGate}
    return _USER


_USER = None
WRAPPERS = ('Dagger', 'Tagged', 'Power', 'Frozen', 'Controlled', 'Embedded')


def build_gate(spec: dict):
    """vt.gen.specs.build_gate extended with the user gates (also inside
    wrappers and CircuitGates)."""
    g = spec['g']
    if g in ('VtGivens', 'VtCPhase'):
        return _user_gate_classes()[g](*spec.get('a', []))
    if g in WRAPPERS:
        import bqskit.ir.gates as G
        inner = build_gate(spec['inner'])
        if g == 'Dagger':
            return G.DaggerGate(inner)
        if g == 'Tagged':
            return G.TaggedGate(inner, spec['tag'])
        if g == 'Power':
            return G.PowerGate(inner, spec['power'])
        if g == 'Frozen':
            return G.FrozenParameterGate(
                inner, {int(k): float(v) for k, v in spec['frozen'].items()},
            )
        if g == 'Controlled':
            return G.ControlledGate(
                inner, spec['nc'], list(spec['cr']), spec.get('cl'),
            )
        return G.EmbeddedGate(inner, list(spec['radixes']), spec.get('maps'))
    if g == 'CircuitGate':
        import bqskit.ir.gates as G
        return G.CircuitGate(build_circuit(spec['circ'], 'params'))
    return specs.build_gate(spec)


def vu_params(dim: int, seed: int) -> list:
    """Well-conditioned parameter vector for a VariableUnitaryGate: a Haar
    unitary plus a 15 % Gaussian perturbation (so the closest-unitary map is
    exercised away from its singular set)."""
    rng = np.random.default_rng(seed)
    m = specs.haar(dim, seed + 1) + 0.15 * (
        rng.normal(size=(dim, dim)) + 1j * rng.normal(size=(dim, dim))
    )
    x = m.reshape(-1)
    return [float(v) for v in np.real(x)] + [float(v) for v in np.imag(x)]


def _expand(gate, val) -> list:
    if isinstance(val, dict):
        return vu_params(gate.dim, int(val['vu']))
    return [float(v) for v in val]


def build_circuit(spec: dict, which: str = 'params'):
    """Build the circuit with the stored ("params") or the evaluation-point
    ("p") parameters of every op."""
    from bqskit.ir.circuit import Circuit
    radixes = list(spec['radixes'])
    c = Circuit(len(radixes), radixes)
    for op in spec['ops']:
        gate = build_gate(op['gate'])
        val = op.get(which, op.get('params', []))
        c.append_gate(gate, list(op['loc']), _expand(gate, val))
    return c


def gate_path(gate) -> str:
    if type(gate).__name__ in NATIVE:
        return 'native'
    if gate.num_params == 0:
        return 'const'
    return 'python'


def _spec_has(gspec: dict, names) -> bool:
    if gspec['g'] in names:
        return True
    if 'inner' in gspec:
        return _spec_has(gspec['inner'], names)
    if gspec['g'] == 'CircuitGate':
        return any(_spec_has(o['gate'], names) for o in gspec['circ']['ops'])
    return False


# ------------------------------------------------------------- reference
def op_table(circ):
    """[(gate, location, first flat index, num_params, stored params)] in the
    circuit's own iteration order, which *defines* the flat parameter order
    (``Circuit.params`` is the concatenation over ``for op in circuit``).
    NB this is not the grid order of refsim.grid_ops: ops of one cycle are
    ordered by the *first* qudit of their location, not the lowest, so
    ``refsim.circuit_unitary(c, params=...)`` is not usable here.  That the
    iteration order is a valid application order is cross-checked against the
    grid walk in ``reference_unitary``."""
    rows = []
    i = 0
    for op in circ:
        if refsim.is_placeholder(op):
            continue
        n = op.num_params
        rows.append((op.gate, list(op.location), i, n, list(op.params)))
        i += n
    return rows, i


def unitary_at(radixes, rows, flat) -> np.ndarray:
    """U(flat) with flat sliced per op in iteration order."""
    mats = [_mat(r[0], flat[r[2]:r[2] + r[3]]) for r in rows]
    return _compose(radixes, rows, mats)


def _mat(gate, params) -> np.ndarray:
    return np.asarray(
        gate.get_unitary([float(x) for x in params]).numpy,
        dtype=np.complex128,
    )


def _compose(radixes, rows, mats) -> np.ndarray:
    return refsim.unitary_of_ops(
        radixes, [(m, r[1]) for m, r in zip(mats, rows)],
    )


class Target:
    """Builds the bqskit target object and the numpy data of the reference
    expressions from a TSPEC."""

    def __init__(self, tspec: dict, radixes, U_p: np.ndarray) -> None:
        from bqskit.qis.state.state import StateVector
        from bqskit.qis.state.system import StateSystem
        from bqskit.qis.unitary.unitarymatrix import UnitaryMatrix
        self.kind = tspec['kind']
        self.mode = tspec['mode']
        radixes = list(radixes)
        N = int(np.prod(radixes))
        self.N = N
        seed = int(tspec['seed'])
        ph = np.exp(1j * float(tspec.get('phase', 0.0)))
        if self.mode == 'haar':
            Q = specs.haar(N, seed)
        else:
            Q = ph * U_p
            if self.mode == 'perturbed':
                rng = np.random.default_rng(seed)
                a = rng.normal(size=(N, N)) + 1j * rng.normal(size=(N, N))
                h = (a + a.conj().T) / 2
                h = h - np.trace(h) / N * np.eye(N)
                w, v = np.linalg.eigh(h)
                w = w / max(1e-300, np.abs(w).max())
                Q = Q @ ((v * np.exp(1j * float(tspec['eps']) * w))
                         @ v.conj().T)
        self.Q = Q
        if self.kind == 'unitary':
            self.T = Q
            self.obj = UnitaryMatrix(Q, radixes)
        elif self.kind == 'state':
            t = Q[:, 0]
            self.t = t / np.linalg.norm(t)
            self.obj = StateVector(self.t, radixes)
        else:
            nv = max(1, min(int(tspec.get('nv', 1)), N))
            if tspec.get('orth', True):
                V = specs.haar(N, seed + 7)[:, :nv]
            else:
                rng = np.random.default_rng(seed + 7)
                g = rng.normal(size=(N, nv)) + 1j * rng.normal(size=(N, nv))
                V = g / np.linalg.norm(g, axis=0)
            W = Q @ V
            self.V, self.W, self.nv = V, W, nv
            self.T = W @ V.conj().T
            self.obj = StateSystem({
                StateVector(V[:, i], radixes): StateVector(W[:, i], radixes)
                for i in range(nv)
            })
            if len(self.obj) != nv:
                raise core.HarnessError('state system keys collided')

    def overlap(self, U: np.ndarray) -> complex:
        if self.kind == 'unitary':
            return complex(np.vdot(self.T, U))           # tr(T^dagger U)
        if self.kind == 'state':
            return complex(np.vdot(self.t, U[:, 0]))
        return complex(np.vdot(self.W, U @ self.V))      # sum <w_i|U|v_i>

    def cost(self, U: np.ndarray) -> float:
        z = self.overlap(U)
        if self.kind == 'unitary':
            return 1.0 - abs(z) / self.N
        if self.kind == 'state':
            return 1.0 - abs(z) ** 2
        return 1.0 - abs(z) / self.nv

    def residuals(self, U: np.ndarray) -> np.ndarray:
        if self.kind == 'state':
            return np.abs(U[:, 0] - self.t) ** 2
        M = U @ self.T.conj().T
        return np.concatenate([
            (M.real - np.eye(self.N)).ravel(), M.imag.ravel(),
        ])

    def has_kink_risk(self, U: np.ndarray) -> bool:
        return self.kind != 'state' and abs(self.overlap(U)) < KINK_MIN


@contextlib.contextmanager
def _quiet_stderr():
    """A native panic prints to fd 2, and with RUST_BACKTRACE=1 (which
    ``import bqskit.runtime`` sets) the first one in a process spends ~10 s
    (minutes when 16 shards do it at once) symbolising a backtrace.  Panics
    are caught and bucketed here, so the backtrace is switched off (the Rust
    runtime reads the variable at its first panic) and the text is dropped.
    Shards are single-threaded processes."""
    os.environ['RUST_BACKTRACE'] = '0'
    os.environ['RUST_LIB_BACKTRACE'] = '0'
    try:
        saved = os.dup(2)
    except OSError:
        yield
        return
    null = os.open(os.devnull, os.O_WRONLY)
    try:
        os.dup2(null, 2)
        yield
    finally:
        os.dup2(saved, 2)
        os.close(saved)
        os.close(null)


def _is_panic(e: BaseException) -> bool:
    return type(e).__name__ == 'PanicException'


def _try(out: Outcome, clause: str, fn):
    """Run fn(); an exception (including a native panic) is an unexpected
    internal error of the code under test -> bucketed by exc_sig."""
    try:
        return True, fn()
    except Exception as e:
        out.fail(core.exc_sig(clause, e), repr(e)[:500])
    except BaseException as e:
        if not _is_panic(e):
            raise
        out.fail(core.exc_sig(clause, e), repr(e)[:500])
    return False, None


# ------------------------------------------------------------ cost checks
def _classify(out: Outcome, spec: dict, rows, p_flat) -> None:
    radixes = spec['radixes']
    paths = {gate_path(r[0]) for r in rows}
    if 'python' in paths and 'native' in paths:
        out.label('path:mixed')
    elif 'python' in paths:
        out.label('path:python')
    elif 'native' in paths:
        out.label('path:native')
    else:
        out.label('path:const-only')
    user = any(
        _spec_has(o['gate'], ('VtGivens', 'VtCPhase')) for o in spec['ops']
    )
    comp = any(
        o['gate']['g'] in WRAPPERS + ('CircuitGate',) for o in spec['ops']
    )
    if user:
        out.label('user-gate')
    if comp:
        out.label('composed')
    if len(set(radixes)) > 1:
        out.label('mixed-radix')
    elif radixes[0] > 2:
        out.label('qudit-only')
    out.label(f'width:{len(radixes)}')
    par = [r for r in rows if r[3] > 0]
    rich = any(
        len(r[1]) > 1 or gate_path(r[0]) == 'python' and (
            type(r[0]).__name__ in (
                'DaggerGate', 'TaggedGate', 'PowerGate', 'ControlledGate',
                'FrozenParameterGate', 'CircuitGate', 'EmbeddedGate',
                'VtGivensGate', 'VtCPhaseGate',
            )
        ) for r in par
    )
    generic = len(p_flat) > 0 and \
        sum(1 for x in p_flat if x not in SPECIAL) * 2 >= len(p_flat)
    out.nontrivial = len(par) >= 2 and rich and generic


def check_cost(case) -> Outcome:
    from bqskit.ir.opt.cost.functions import HilbertSchmidtCostGenerator
    from bqskit.ir.opt.cost.functions import HilbertSchmidtResidualsGenerator
    out = Outcome()
    if case.get('excl'):
        out.excluded = 1
    spec = case['circ']
    radixes = list(spec['radixes'])
    circ = build_circuit(spec, 'params')     # stored parameters
    cp = build_circuit(spec, 'p')            # same structure, p stored
    rows, P = op_table(cp)
    p = np.array([x for r in rows for x in r[4]], dtype=np.float64)
    mats = [_mat(r[0], r[4]) for r in rows]
    U = _compose(radixes, rows, mats)
    if np.abs(U - refsim.circuit_unitary(cp)).max() > 1e-10:
        # iteration-order product vs independent grid walk (stored params)
        raise core.HarnessError('reference composition is inconsistent')
    tgt = Target(case['t'], radixes, U)
    kind = tgt.kind
    _classify(out, spec, rows, p)
    out.label('kind:' + kind, 'mode:' + tgt.mode)
    paths = {gate_path(r[0]) for r in rows}
    path = 'python' if 'python' in paths else 'native'
    ref = tgt.cost(U)

    gen_c = HilbertSchmidtCostGenerator()
    gen_r = HilbertSchmidtResidualsGenerator()
    ok, cf = _try(out, 'gen_cost', lambda: gen_c.gen_cost(circ, tgt.obj))
    ok2, rf = _try(out, 'gen_resid', lambda: gen_r.gen_cost(circ, tgt.obj))
    if not (ok and ok2):
        return out

    # ---- A1 cost value, both classes
    okc, c = _try(out, 'get_cost', lambda: float(cf.get_cost(p)))
    if okc and not abs(c - ref) <= TOL_COST:
        out.fail(f'cost_value|{kind}|{path}',
                 f'get_cost={c!r} reference={ref!r}')
    okr, c2 = _try(out, 'resid_get_cost', lambda: float(rf.get_cost(p)))
    if okr and not abs(c2 - ref) <= TOL_COST:
        out.fail(f'resid_cost_value|{kind}|{path}',
                 f'residuals.get_cost={c2!r} reference={ref!r}')
    ok3, c3 = _try(out, 'cost_call', lambda: float(cf(p)))
    if okc and ok3 and not abs(c3 - c) <= TOL_ZERO:
        out.fail('cost_call_differs', f'__call__={c3!r} get_cost={c!r}')

    # ---- A2 zero iff equal up to phase
    if okc and tgt.mode == 'solved' and not abs(c) <= TOL_ZERO:
        out.fail(f'cost_zero|{kind}',
                 f'target = e^(i phi) U(p) but cost(p) = {c!r}')
    if okc and tgt.mode != 'solved':
        if ref > POSITIVE_MIN:
            if not c > 0:
                out.fail(f'cost_positive|{kind}',
                         f'cost {c!r} for a target at reference cost {ref!r}')
        else:
            out.label('perturbation-below-resolution')

    # ---- A3 calc_cost at the circuit's stored parameters
    ref_stored = tgt.cost(refsim.circuit_unitary(circ))
    for name, gen in (('calc_cost', gen_c), ('resid_calc_cost', gen_r)):
        ok1, v = _try(out, name, lambda: float(gen.calc_cost(circ, tgt.obj)))
        if ok1 and not abs(v - ref_stored) <= TOL_COST:
            out.fail(f'{name}|{kind}',
                     f'calc_cost={v!r} reference at circuit.params='
                     f'{ref_stored!r} ({path} path)')
        ok2, v2 = _try(out, 'gen_call', lambda: float(gen(circ, tgt.obj)))
        if ok1 and ok2 and not abs(v2 - v) <= TOL_ZERO:
            out.fail('gen_call_differs', f'__call__={v2!r} calc_cost={v!r}')

    # ---- A4 residual vector (pinned definition)
    rref = tgt.residuals(U)
    okv, r = _try(
        out, 'get_residuals',
        lambda: np.asarray(rf.get_residuals(p), dtype=np.float64),
    )
    if okv:
        if r.shape != rref.shape:
            out.fail(f'resid_shape|{kind}', f'{r.shape} want {rref.shape}')
            okv = False
        elif not np.abs(r - rref).max() <= TOL_RESID:
            out.fail(f'resid_value|{kind}|{path}',
                     f'max diff {np.abs(r - rref).max()!r}')
        if tgt.mode == 'solved' and abs(float(case['t'].get('phase', 0))) \
                > 1e-3 and float(np.sum(rref ** 2)) > 1e-6:
            out.label('resid-not-phase-invariant')

    # ---- gradient clauses: differentiable circuits only
    if P == 0:
        out.label('no-params')
        ok, g = _try(out, 'get_grad', lambda: np.asarray(cf.get_grad(p)))
        if ok and g.size != 0:
            out.fail('grad_shape', f'{g.shape} for a parameter-free circuit')
        return out
    if not all(r[0].is_differentiable() for r in rows):
        out.label('nondifferentiable-gate:cost-only')
        return out
    kink = tgt.has_kink_risk(U)     # |tr| not differentiable near 0:
    if kink:                        # cost-gradient clauses are skipped,
        out.label('kink-skip')      # the residual Jacobian is smooth

    # central differences of the reference, one op matrix replaced at a time
    fd_cost = np.zeros(P)
    fd_res = np.zeros((rref.shape[0], P))
    owner = [None] * P
    for j, (gate, loc, i0, n, pj) in enumerate(rows):
        for l in range(n):
            vals = []
            for sgn in (+1, -1):
                q = list(pj)
                q[l] = q[l] + sgn * FD_STEP
                m2 = list(mats)
                m2[j] = _mat(gate, q)
                vals.append(_compose(radixes, rows, m2))
            fd_cost[i0 + l] = (tgt.cost(vals[0]) - tgt.cost(vals[1])) \
                / (2 * FD_STEP)
            fd_res[:, i0 + l] = (
                tgt.residuals(vals[0]) - tgt.residuals(vals[1])
            ) / (2 * FD_STEP)
            owner[i0 + l] = gate

    def blame(bad_idx):
        """one (path, class) per gate class owning a bad component"""
        seen = {}
        for i in bad_idx:
            g = owner[i]
            seen.setdefault((gate_path(g), type(g).__name__), []).append(i)
        return seen

    def fail_grad(pth, cls, detail):
        """One signature per (evaluation path, gate class) whose derivative
        the engine gets wrong, whichever of get_grad / get_cost_and_grad /
        residual Jacobian exposes it (the root cause is the gate's
        derivative; the cost gradient alone can hide it, e.g. it vanishes at
        a solved target).  The detail names the function."""
        sig = f'grad_fd|{pth}|{cls}'
        if not any(v.sig == sig for v in out.violations):
            out.fail(sig, detail)

    ok = False
    g1 = None
    if not kink:
        ok, g1 = _try(
            out, 'get_grad',
            lambda: np.asarray(cf.get_grad(p), dtype=np.float64),
        )
    if ok:
        if g1.shape != (P,):
            out.fail('grad_shape', f'{g1.shape} want {(P,)}')
            ok = False
        else:
            d = np.abs(g1 - fd_cost)
            bad = [i for i in range(P) if not d[i] <= TOL_GRAD]
            for (pth, cls), idx in blame(bad).items():
                i = idx[0]
                fail_grad(
                    pth, cls,
                    f'{kind} target: get_grad[{i}]={g1[i]!r} central '
                    f'difference of the reference cost={fd_cost[i]!r} '
                    f'(components {idx})',
                )
    okb, cg = _try(out, 'get_cost_and_grad', lambda: cf.get_cost_and_grad(p))
    if okb:
        try:
            cc, g2 = float(cg[0]), np.asarray(cg[1], dtype=np.float64)
        except Exception as e:
            out.fail('cost_and_grad_type', repr(e))
            cc = g2 = None
        if g2 is not None:
            if okc and not abs(cc - c) <= TOL_ZERO:
                out.fail('cost_and_grad_cost_differs',
                         f'get_cost_and_grad cost={cc!r} get_cost={c!r}')
            if g2.shape != (P,):
                out.fail('cost_and_grad_shape', f'{g2.shape}')
            elif ok and np.abs(g2 - g1).max() <= TOL_SAME_GRAD:
                pass        # same numbers as get_grad: already judged
            elif not kink:
                d = np.abs(g2 - fd_cost)
                bad = [i for i in range(P) if not d[i] <= TOL_GRAD]
                for (pth, cls), idx in blame(bad).items():
                    fail_grad(
                        pth, cls,
                        f'get_cost_and_grad grad[{idx[0]}]={g2[idx[0]]!r} '
                        f'fd={fd_cost[idx[0]]!r}',
                    )

    # residual Jacobian, column by column
    def judge_jac(J, clause):
        if J.shape != fd_res.shape:
            out.fail(f'{clause}_shape|{kind}',
                     f'{J.shape} want {fd_res.shape}')
            return
        d = np.abs(J - fd_res).max(axis=0) if J.size else np.zeros(P)
        bad = [i for i in range(P) if not d[i] <= TOL_GRAD]
        for (pth, cls), idx in blame(bad).items():
            fail_grad(
                pth, cls,
                f'{kind} target: {clause}: residual Jacobian column '
                f'{idx[0]} differs from central differences of the '
                f'reference residuals by {d[idx[0]]!r} (columns {idx})',
            )

    okj, J = _try(
        out, 'resid_get_grad',
        lambda: np.asarray(rf.get_grad(p), dtype=np.float64),
    )
    if okj:
        judge_jac(J, 'residuals.get_grad')
    oka, ra = _try(
        out, 'get_residuals_and_grad', lambda: rf.get_residuals_and_grad(p),
    )
    if oka:
        r2 = np.asarray(ra[0], dtype=np.float64)
        J2 = np.asarray(ra[1], dtype=np.float64)
        if okv and not (r2.shape == r.shape
                        and np.abs(r2 - r).max() <= TOL_ZERO):
            out.fail('resid_and_grad_value_differs',
                     'get_residuals_and_grad residuals != get_residuals')
        if not (okj and J.shape == J2.shape
                and np.abs(J - J2).max() <= TOL_SAME_GRAD):
            judge_jac(J2, 'get_residuals_and_grad')
    out.label('grad-checked')
    return out


# ----------------------------------------------------- instantiation checks
def _structure(c):
    ops = []
    for cyc, op in refsim.grid_ops(c):
        ops.append((cyc, tuple(op.location), type(op.gate), op.gate))
    return (
        c.num_qudits, tuple(c.radixes), c.num_cycles, c.num_operations,
        c.num_params, ops,
    )


def _same_structure(a, b) -> str:
    if a[:5] != b[:5]:
        return f'{a[:5]} -> {b[:5]}'
    if len(a[5]) != len(b[5]):
        return 'operation count changed'
    for x, y in zip(a[5], b[5]):
        if x[0] != y[0] or x[1] != y[1] or x[2] is not y[2] or \
                not (x[3] == y[3]):
            return f'{x[:2]}:{x[3]!r} -> {y[:2]}:{y[3]!r}'
    return ''


@contextlib.contextmanager
def _recording(classes, log):
    """Wrap ``instantiate`` of the given instantiater classes for the
    duration of the block so that every (start, result) pair is observed."""
    saved = []
    for cls in classes:
        orig = cls.__dict__['instantiate']

        def make(orig, cls):
            def instantiate(self, circuit, target, x0):
                res = orig(self, circuit, target, x0)
                log.append((
                    cls.get_method_name(),
                    np.array(x0, dtype=np.float64),
                    np.array(res, dtype=np.float64),
                ))
                return res
            return instantiate
        cls.instantiate = make(orig, cls)
        saved.append((cls, orig))
    try:
        yield
    finally:
        for cls, orig in saved:
            cls.instantiate = orig


def _method_classes():
    global _REC
    if _REC is not None:
        return _REC
    from bqskit.ir.opt.instantiaters import Minimization
    from bqskit.ir.opt.instantiaters import QFactor

    class VtRecMinimization(Minimization):
        """Harness subclass: records every (x0, result) of instantiate."""

        def instantiate(self, circuit, target, x0):
            res = Minimization.instantiate(self, circuit, target, x0)
            self.vt_log.append((
                'minimization', np.array(x0, dtype=np.float64),
                np.array(res, dtype=np.float64),
            ))
            return res

    class VtRecQFactor(QFactor):
        def instantiate(self, circuit, target, x0):
            res = QFactor.instantiate(self, circuit, target, x0)
            self.vt_log.append((
                'qfactor', np.array(x0, dtype=np.float64),
                np.array(res, dtype=np.float64),
            ))
            return res

    _REC = (VtRecMinimization, VtRecQFactor)
    return _REC


_REC = None


def _min_kwargs(meth: str) -> dict:
    from bqskit.ir.opt.cost.functions import HilbertSchmidtCostGenerator
    from bqskit.ir.opt.cost.functions import HilbertSchmidtResidualsGenerator
    from bqskit.ir.opt.minimizers import CeresMinimizer
    from bqskit.ir.opt.minimizers import LBFGSMinimizer
    from bqskit.ir.opt.minimizers import ScipyMinimizer
    if meth == 'ceres':
        return dict(cost_fn_gen=HilbertSchmidtResidualsGenerator(),
                    minimizer=CeresMinimizer())
    if meth == 'lbfgs':
        return dict(cost_fn_gen=HilbertSchmidtCostGenerator(),
                    minimizer=LBFGSMinimizer())
    return dict(cost_fn_gen=HilbertSchmidtCostGenerator(),
                minimizer=ScipyMinimizer())


def _blame_qfactor(circ) -> str:
    """Which gate class makes QFactor fail on its own?  Used only to give a
    native panic a stable, root-cause-specific signature."""
    from bqskit.ir.circuit import Circuit
    from bqskit.ir.opt.instantiaters import QFactor
    from bqskit.qis.unitary.unitarymatrix import UnitaryMatrix
    names = []
    seen = set()
    for _, op in refsim.grid_ops(circ):
        g = op.gate
        if g in seen:
            continue
        seen.add(g)
        c = Circuit(g.num_qudits, g.radixes)
        c.append_gate(g, list(range(g.num_qudits)))
        try:
            with _quiet_stderr():
                c.instantiate(
                    UnitaryMatrix(specs.haar(g.dim, 11), g.radixes),
                    method=QFactor(), multistarts=1, seed=3,
                )
        except Exception:
            names.append(type(g).__name__)
        except BaseException as e:
            if not _is_panic(e):
                raise
            names.append(type(g).__name__)
    return '+'.join(sorted(set(names)))


def _slug(msg: str) -> str:
    head = msg.split(':')[0].split('.')[0]
    return ''.join(ch if ch.isalnum() else '-' for ch in head)[:48]


def check_inst(case) -> Outcome:
    from bqskit.ir.opt.instantiaters import Minimization
    from bqskit.ir.opt.instantiaters import QFactor
    out = Outcome()
    if case.get('excl'):
        out.excluded = 1
    spec = case['circ']
    radixes = list(spec['radixes'])
    meth, via = case['meth'], case['via']
    k, seed = int(case['starts']), int(case['seed'])
    circ = build_circuit(spec, 'params')
    cp = build_circuit(spec, 'p')
    rows, P = op_table(cp)
    pstar = np.array([x for r in rows for x in r[4]], dtype=np.float64)
    tgt = Target(case['t'], radixes, refsim.circuit_unitary(cp))
    _classify(out, spec, rows, pstar)
    before = _structure(circ)
    RecMin, RecQF = _method_classes()
    log: list = []

    # domain: the documented capability predicate of the chosen method
    if via == 'auto':
        want_cls = Minimization if Minimization.is_capable(circ) else QFactor
        if not want_cls.is_capable(circ):
            out.label('no-capable-method')
            return out
        if want_cls is Minimization and \
                not all(r[0].is_differentiable() for r in rows):
            # gradient-based minimisation of a gate without a gradient is
            # outside what any caller does (implicit precondition)
            out.label('auto:minimization-on-nondifferentiable:skipped')
            return out
    else:
        want_cls = QFactor if meth == 'qfactor' else Minimization
        if not want_cls.is_capable(circ):
            raise core.HarnessError('generator produced an incapable circuit')
    # name used in labels and signatures: what actually runs
    mname = want_cls.get_method_name() if via == 'auto' else meth
    out.label('inst', 'kind:' + tgt.kind, 'inst-method:' + mname,
              'via:' + via, f'starts:{k}')

    def run():
        if via == 'obj':
            if meth == 'qfactor':
                m = RecQF()
            else:
                m = RecMin(**_min_kwargs(meth))
            m.vt_log = log
            return circ.instantiate(
                tgt.obj, method=m, multistarts=k, seed=seed,
            )
        with _recording((Minimization, QFactor), log):
            if via == 'auto':
                return circ.instantiate(tgt.obj, multistarts=k, seed=seed)
            if meth == 'qfactor':
                return circ.instantiate(
                    tgt.obj, method='qfactor', multistarts=k, seed=seed,
                )
            return circ.instantiate(
                tgt.obj, method='minimization', multistarts=k, seed=seed,
                **_min_kwargs(meth),
            )

    try:
        with _quiet_stderr():
            ret = run()
    except Exception as e:
        if want_cls is QFactor and tgt.kind != 'unitary':
            # one root cause: the native QFactor takes a unitary matrix only
            # although QFactor.instantiate / Circuit.instantiate advertise
            # StateVector and StateSystem targets (TypeError for a state,
            # AttributeError for a system)
            out.fail(SIG_QF_TARGET, f'{tgt.kind} target: {e!r}'[:600])
        else:
            out.fail(
                f'inst_exc|{mname}|{type(e).__name__}|'
                f'{core.innermost_repo_frame(e)}', repr(e)[:600],
            )
        return out
    except BaseException as e:
        if not _is_panic(e):
            raise
        # a gate class that fails on its own names the root cause; otherwise
        # the head of the panic message does (e.g. a NaN produced by one
        # gate's native optimize and tripped over by the next gate)
        culprit = _blame_qfactor(circ) if want_cls is QFactor else ''
        culprit = culprit or 'msg:' + _slug(str(e))
        out.fail(
            f'inst_exc|{mname}|PanicException|'
            f'{core.innermost_repo_frame(e)}|{culprit}', repr(e)[:600],
        )
        return out

    # ---- B1 same object, B2 structure
    if ret is not circ:
        out.fail('inst_same_object', f'returned {type(ret).__name__} '
                 f'id {id(ret)} != circuit id {id(circ)}')
    diff = _same_structure(before, _structure(circ))
    if diff:
        out.fail('inst_structure', diff)
        return out
    kept = np.asarray(circ.params, dtype=np.float64)
    if kept.shape != (P,):
        out.fail('inst_param_count', f'{kept.shape} want {(P,)}')
        return out

    # ---- B3 candidates
    if via == 'auto':
        used = {n for n, _, _ in log}
        if used and used != {want_cls.get_method_name()}:
            out.fail('inst_auto_selection',
                     f'{sorted(used)} ran, first capable in '
                     f'instantiater_order is {want_cls.get_method_name()}')
    if len(log) != k:
        out.fail('inst_num_candidates', f'{len(log)} instantiate calls '
                 f'for multistarts={k}')
        if not log:
            return out
    cands = [c for _, _, c in log]
    if any(c.shape != (P,) for c in cands):
        out.fail('inst_candidate_shape', str([c.shape for c in cands]))
        return out
    if not all(np.all(np.isfinite(c)) for c in cands):
        out.label('nonfinite-candidate')     # a convergence matter
        return out
    if not any(np.array_equal(kept, c) for c in cands):
        out.fail('inst_kept_not_a_candidate',
                 f'circuit.params={kept.tolist()} is none of the {len(cands)}'
                 f' vectors instantiate() returned')
    # candidates: flat vectors sliced in iteration order; kept: whatever the
    # circuit now stores per op, read through the independent grid walk
    costs = [tgt.cost(unitary_at(radixes, rows, c)) for c in cands]
    kept_cost = tgt.cost(refsim.circuit_unitary(circ))
    if not abs(kept_cost - min(costs)) <= TOL_ARGMIN:
        out.fail(
            'inst_kept_min_cost',
            f'kept cost {kept_cost!r}; candidate costs {costs!r} '
            f'(min {min(costs)!r})',
        )
    if len({c.tobytes() for _, c, _ in log}) == len(log) and k > 1 and P:
        out.label('distinct-starts')
    out.nontrivial = k >= 2 and max(costs) - min(costs) > TOL_ARGMIN
    if out.nontrivial:
        out.label('candidates-differ')
    if tgt.mode == 'solved':
        out.label('solvable:reached' if kept_cost <= SOLVED_COST
                  else 'solvable:missed')
    return out


CHECKS = {'cost': check_cost, 'inst': check_inst}


def check(case) -> Outcome:
    return CHECKS[case['k']](case)


replay = check


# ---------------------------------------------------------------- generators
_F = st.floats(-2 * math.pi, 2 * math.pi, allow_nan=False,
               allow_infinity=False, allow_subnormal=False)
_S = st.sampled_from(specs.SPECIAL_PARAMS)
_PARAM = st.one_of(_F, _F, _F, _F, _F, _F, _S)


def _params(n: int):
    return st.lists(_PARAM, min_size=n, max_size=n)


def _gate_ok(gspec: dict, diff_only: bool) -> bool:
    if _spec_has(gspec, ('VariableUnitaryGate',)):
        return False          # generated only top-level, well-conditioned
    if diff_only:
        try:
            return bool(build_gate(gspec).is_differentiable())
        except Exception:
            return False
    return True


@st.composite
def _user_op(draw, radixes):
    n = len(radixes)
    if n >= 2 and draw(st.booleans()):
        loc = list(draw(st.permutations(range(n)))[:2])
        g = {'g': 'VtCPhase', 'a': [radixes[loc[0]], radixes[loc[1]]]}
    else:
        loc = [draw(st.integers(0, n - 1))]
        g = {'g': 'VtGivens', 'a': [radixes[loc[0]]]}
    w = draw(st.sampled_from(
        ['none', 'none', 'none', 'dagger', 'power', 'frozen', 'tagged',
         'controlled'],
    ))
    if w == 'controlled' and g['g'] == 'VtGivens' and n >= 2:
        ctrl = draw(st.sampled_from([q for q in range(n) if q != loc[0]]))
        g = {'g': 'Controlled', 'inner': g, 'nc': 1, 'cr': [radixes[ctrl]]}
        loc = [ctrl, loc[0]]
    elif w == 'dagger':
        g = {'g': 'Dagger', 'inner': g}
    elif w == 'power':
        g = {'g': 'Power', 'inner': g, 'power': draw(st.integers(-2, 3))}
    elif w == 'tagged':
        g = {'g': 'Tagged', 'inner': g, 'tag': 'u'}
    elif w == 'frozen' and g['g'] == 'VtGivens':
        i = draw(st.integers(0, 1))
        g = {'g': 'Frozen', 'inner': g,
             'frozen': {str(i): draw(_PARAM)}}
    return {'gate': g, 'loc': loc}


@st.composite
def _native_op(draw, radixes):
    n = len(radixes)
    qb = [q for q in range(n) if radixes[q] == 2]
    qt = [q for q in range(n) if radixes[q] == 3]
    opts = []
    if qb:
        opts += NATIVE_Q1
    if len(qb) >= 2:
        opts += NATIVE_Q2 * 2
    if qt:
        opts += ['U8Gate', 'U8Gate']
    if not opts:
        return None
    name = draw(st.sampled_from(opts))
    pool = qt if name == 'U8Gate' else qb
    k = 2 if name in NATIVE_Q2 else 1
    loc = list(draw(st.permutations(pool))[:k])
    return {'gate': {'g': name}, 'loc': loc}


@st.composite
def cost_op(draw, radixes, diff_only=True, varu=False):
    kinds = ['lib'] * 5 + ['native'] * 4 + ['user'] * 2
    if varu:
        kinds += ['varu'] * 2
    kind = draw(st.sampled_from(kinds))
    op = None
    if kind == 'native':
        op = draw(_native_op(radixes))
    elif kind == 'user':
        op = draw(_user_op(radixes))
    elif kind == 'varu':
        loc = draw(specs.locations(len(radixes), max_k=2))
        rl = [radixes[q] for q in loc]
        if int(np.prod(rl)) <= 9:
            op = {'gate': {'g': 'VariableUnitaryGate', 'a': [len(loc), rl]},
                  'loc': loc,
                  'params': {'vu': draw(st.integers(0, 2**31))},
                  'p': {'vu': draw(st.integers(0, 2**31))}}
            return op
    if op is None:
        want_par = draw(st.integers(0, 3)) > 0
        base = specs.op_specs(
            radixes, max_k=3, rich=True, wrappers=True, placeholders=False,
            nested_depth=1, const_unitary=True,
        ).filter(lambda o: _gate_ok(o['gate'], diff_only))
        for _ in range(3):      # prefer a parameterised gate, never insist
            op = draw(base)
            if not want_par or len(op['params']) > 0:
                break
    n = build_gate(op['gate']).num_params
    if 'params' not in op:
        op['params'] = draw(_params(n))
    op['p'] = draw(_params(n))
    return op


def _strip_cry(ops: list) -> int:
    """Exclusion mode for SIG_CRY: top-level CRYGate -> CRXGate (same arity
    and parameter count).  Returns how many were replaced."""
    n = 0
    for o in ops:
        if o['gate']['g'] == 'CRYGate':
            o['gate'] = {'g': 'CRXGate'}
            n += 1
    return n


KINDS = ('unitary', 'state', 'system')
_BIG = st.integers(0, 2**31 - 1)


def _scramble(x: int) -> int:
    return ((x * 0x9E3779B1 + 0x7F4A7C15) & 0xFFFFFFFF) >> 4


@st.composite
def _mix(draw):
    """A roughly uniform large integer whose digits drive the categorical
    choices.  Hypothesis is strongly biased towards the first element of
    sampled_from and towards 0 for integers (about a third of all draws), so
    three independent draws are hashed together; all-zero still maps to one
    fixed combination, which is what shrinking converges to."""
    a, b, c = draw(_BIG), draw(_BIG), draw(_BIG)
    return _scramble(a ^ _scramble(b ^ _scramble(c)))


@st.composite
def target_spec(draw, modes=('haar', 'haar', 'solved', 'perturbed')):
    mix = draw(_mix())
    return {
        'kind': KINDS[mix % 3],
        'mode': modes[(mix // 3) % len(modes)],
        'seed': draw(_BIG),
        'phase': draw(st.one_of(
            st.sampled_from([0.0, math.pi, 0.7]),
            st.floats(-math.pi, math.pi, allow_nan=False),
        )),
        'eps': (1e-3, 1e-2, 0.3)[(mix // 12) % 3],
        'nv': 1 + (mix // 36) % 6,
        'orth': bool((mix // 216) % 2),
    }


@st.composite
def cost_cases(draw, no_cry=False):
    n = draw(st.sampled_from([1, 2, 2, 3, 3, 4]))
    radixes = draw(specs.radix_lists(n, n, max_dim=100))
    diff_only = draw(st.integers(0, 9)) < 8
    ops = draw(st.lists(
        cost_op(radixes, diff_only, varu=not diff_only),
        min_size=0 if draw(st.integers(0, 19)) == 0 else 1, max_size=8,
    ))
    excl = 0
    if no_cry and all(_gate_ok(o['gate'], True) for o in ops):
        excl = _strip_cry(ops)      # gradient clauses would run on this case
    return {'k': 'cost', 'circ': {'radixes': radixes, 'ops': ops},
            't': draw(target_spec()), 'excl': excl}


def _qf_pool(rl: tuple) -> list:
    """Gate specs QFactor documents as instantiable (LocallyOptimizable)
    that fit radixes rl; checked again with isinstance at generation."""
    k = len(rl)
    out = []
    if int(np.prod(rl)) <= 16:
        out += [{'g': 'VariableUnitaryGate', 'a': [k, list(rl)]}] * 3
    if rl == (2,):
        out += [{'g': n} for n in ('RXGate', 'RYGate', 'U1Gate', 'U3Gate',
                                   'HGate')]
        out += [{'g': 'DiagonalGate', 'a': [1]}, {'g': 'PauliGate', 'a': [1]},
                {'g': 'PauliZGate', 'a': [1]},
                {'g': 'Dagger', 'inner': {'g': 'U3Gate'}},
                {'g': 'Tagged', 'inner': {'g': 'RXGate'}, 'tag': 't'},
                {'g': 'Frozen', 'inner': {'g': 'U3Gate'},
                 'frozen': {'1': 0.4}}]
    elif k == 1:
        out += [{'g': 'HGate', 'a': [rl[0]]}]
        if rl[0] == 3:
            out += [{'g': 'U8Gate'}]
    if rl == (2, 2):
        out += [{'g': 'RXXGate'}, {'g': 'DiagonalGate', 'a': [2]},
                {'g': 'MPRYGate', 'a': [2, 1]}, {'g': 'MPRZGate', 'a': [2, 0]},
                {'g': 'PauliGate', 'a': [2]}, {'g': 'PauliZGate', 'a': [2]}]
    if k == 2:
        out += [{'g': 'ArbitraryCPhaseGate', 'a': [list(rl)]}]
        if rl[0] == rl[1] and rl[0] > 2:
            out += [{'g': 'CSUMGate', 'a': [rl[0]]}]
    return out


def _qf_capable(gspec: dict) -> bool:
    from bqskit.qis.unitary import LocallyOptimizableUnitary
    return isinstance(build_gate(gspec), LocallyOptimizableUnitary)


@st.composite
def qf_op(draw, radixes, drop=frozenset()):
    """Returns (op, dropped): in exclusion mode a drawn gate whose class is in
    ``drop`` is replaced by a VariableUnitaryGate *after counting*."""
    loc = draw(specs.locations(len(radixes), max_k=2))
    rl = tuple(radixes[q] for q in loc)
    pool = [g for g in _qf_pool(rl) if _qf_capable(g)]
    if not pool:
        loc = loc[:1]
        rl = rl[:1]
        pool = [g for g in _qf_pool(rl) if _qf_capable(g)]
    g = draw(st.sampled_from(pool))
    dropped = 0
    if g['g'] in drop:
        dropped = 1
        g = {'g': 'VariableUnitaryGate', 'a': [len(rl), list(rl)]}
    op = {'gate': g, 'loc': list(loc)}
    if g['g'] == 'VariableUnitaryGate':
        op['params'] = {'vu': draw(st.integers(0, 2**31))}
        op['p'] = {'vu': draw(st.integers(0, 2**31))}
    else:
        n = build_gate(g).num_params
        op['params'] = draw(_params(n))
        op['p'] = draw(_params(n))
    return op, dropped


METHS = ('qfactor', 'ceres', 'lbfgs', 'scipy', 'qfactor', 'ceres', 'lbfgs')
VIAS = ('obj', 'name', 'obj', 'auto')


@st.composite
def inst_cases(draw, drop=frozenset(), qf_unitary_only=False):
    mix = draw(_mix())
    meth = METHS[mix % 7]
    via = VIAS[(mix // 7) % 4]
    starts = 1 + (mix // 28) % 8
    if via == 'auto' and meth in ('lbfgs', 'scipy'):
        via = 'name'          # auto-selection takes no method options
    radixes = draw(specs.radix_lists(1, 3, max_dim=36))
    max_ops = 4 if meth == 'scipy' else 6
    excl = 0
    if meth == 'qfactor':
        pairs = draw(st.lists(qf_op(radixes, drop), min_size=1,
                              max_size=max_ops))
        ops = [o for o, _ in pairs]
        excl = sum(d for _, d in pairs)
    else:
        ops = draw(st.lists(cost_op(radixes, True, varu=False), min_size=1,
                            max_size=max_ops))
    t = draw(target_spec(modes=('haar', 'solved', 'solved')))
    if qf_unitary_only and meth == 'qfactor' and t['kind'] != 'unitary':
        t['kind'] = 'unitary'       # exclusion mode for SIG_QF_TARGET
        excl += 1
    return {
        'k': 'inst', 'circ': {'radixes': radixes, 'ops': ops},
        't': t,
        'meth': meth, 'via': via, 'starts': starts,
        'seed': draw(_BIG), 'excl': excl,
    }


def cry_case(shard: int) -> dict:
    """The dedicated known-finding probe: U3 ; CRY(0,1) ; RY, generic p."""
    return {
        'k': 'cost', 'excl': 0,
        'circ': {'radixes': [2, 2], 'ops': [
            {'gate': {'g': 'U3Gate'}, 'loc': [0], 'params': [0.0, 0.0, 0.0],
             'p': [0.3 + 0.01 * shard, -1.1, 2.0]},
            {'gate': {'g': 'CRYGate'}, 'loc': [0, 1], 'params': [0.0],
             'p': [0.7 + 0.05 * shard]},
            {'gate': {'g': 'RYGate'}, 'loc': [1], 'params': [0.0],
             'p': [-0.4]},
        ]},
        't': {'kind': 'unitary', 'mode': 'haar', 'seed': 100 + shard,
              'phase': 0.0, 'eps': 0.0, 'nv': 1, 'orth': True},
    }


def qf_target_case(shard: int) -> dict:
    return {
        'k': 'inst', 'excl': 0, 'meth': 'qfactor', 'via': 'obj', 'starts': 2,
        'seed': shard,
        'circ': {'radixes': [2], 'ops': [
            {'gate': {'g': 'VariableUnitaryGate', 'a': [1, [2]]}, 'loc': [0],
             'params': {'vu': 1}, 'p': {'vu': 2}},
        ]},
        't': {'kind': 'state' if shard % 2 == 0 else 'system',
              'mode': 'haar', 'seed': 300 + shard, 'phase': 0.0, 'eps': 0.0,
              'nv': 1, 'orth': True},
    }


def qf_probe_case(cls_name: str, shard: int) -> dict:
    g = {'g': cls_name, 'a': [1]} if cls_name == 'PauliZGate' \
        else {'g': cls_name}
    r = 3 if cls_name == 'U8Gate' else 2
    n = build_gate(g).num_params
    return {
        'k': 'inst', 'excl': 0, 'meth': 'qfactor', 'via': 'obj', 'starts': 1,
        'seed': shard,
        'circ': {'radixes': [r], 'ops': [
            {'gate': g, 'loc': [0], 'params': [0.0] * n, 'p': [0.5] * n},
        ]},
        't': {'kind': 'unitary', 'mode': 'haar', 'seed': 200 + shard,
              'phase': 0.0, 'eps': 0.0, 'nv': 1, 'orth': True},
    }


QF_SUSPECTS = ('U3Gate', 'U8Gate', 'PauliZGate')


def run_shard(ctx: core.Ctx) -> core.ShardResult:
    res = core.ShardResult()
    no_cry = ctx.is_known(SIG_CRY)
    qf_uni = ctx.is_known(SIG_QF_TARGET)
    drop = frozenset(c for c in QF_SUSPECTS if ctx.is_known(qf_exc_sig(c)))
    # dedicated probes of the open findings (one per shard) so that they are
    # still observed and reported while the random mix avoids them
    probes = []
    if no_cry:
        probes.append(cry_case(ctx.shard))
    if qf_uni:
        probes.append(qf_target_case(ctx.shard))
    probes += [qf_probe_case(c, ctx.shard) for c in sorted(drop)]
    run = core.padded(check)
    for case in probes:
        res.record(case, run(case))
    res.extra['exclusion_cry'] = bool(no_cry)
    res.extra['exclusion_qfactor_nonunitary'] = bool(qf_uni)
    res.extra['exclusion_qfactor_gates'] = ','.join(sorted(drop))
    core.run_hypothesis(
        ctx, res, inst_cases(drop=drop, qf_unitary_only=qf_uni), check,
        ctx.n(30, 600), sub=1, max_shrink_sigs=2,
    )
    core.run_hypothesis(
        ctx, res, cost_cases(no_cry=no_cry), check, ctx.n(200, 4000), sub=0,
        max_shrink_sigs=2,
    )
    return res
