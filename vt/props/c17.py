"""C17 - OpenQASM 2 import/export preserves the program and agrees with Qiskit.

Cases (JSON):
  {"k":"rt","circ":{"radixes":[2,..],"ops":[{"gate":spec,"loc":[..],"params":[..]}]},
   "excl":[..]}
        round trip decode(encode(c)).  Gate specs are vt.gen.specs specs plus
        {"g":"MeasureAt","cregs":[["c",n]],"map":[[qubit,"c",bit],..]}.
  {"k":"prog","qregs":[["q",2],..],"cregs":[["c",2],..],"defs":[def..],
   "stmts":[stmt..],"style":{"defs_first":bool,"sp":bool,"cm":bool},"excl":[..]}
        OpenQASM 2 program judged against Qiskit's qasm2 loader.
        def  = {"name":..,"params":[..],"qubits":[..],"ep":bool,"body":[
                 {"t":"g","name":..,"args":[expr..],"q":[formal..],"ep":bool}
                 | {"t":"U","args":[e,e,e],"q":formal} | {"t":"CX","q":[f,f]}]}
        stmt = {"t":"g","name":..,"args":[expr..],"q":[[reg,idx|null],..],"ep":bool}
               | {"t":"U","args":[e,e,e],"q":[reg,idx|null]}
               | {"t":"CX","q":[[reg,idx|null],[reg,idx|null]]}
               | {"t":"barrier","q":[[reg,idx|null],..]}
               | {"t":"measure","q":[reg,idx|null],"c":[creg,idx|null]}
               | {"t":"reset","q":[reg,idx|null]}
        expr = ["n",text] | ["pi"] | ["v",formal] | ["neg",e] | ["par",e]
               | ["fn",name,e] | ["pow",base,exponent]
               | ["mul",e,[[op,e],..]] | ["add",e,[[op,e],..]]
        (the nesting follows the OpenQASM precedence grammar, so rendering is
        plain concatenation and parentheses appear only as "par" nodes)
  {"k":"tr","lib":"qiskit"|"cirq"|"pytket","dir":"b2x","circ":circuit-spec,"excl":[..]}
        bqskit_to_<lib>(c), then <lib>_to_bqskit of the result.
  {"k":"tr","lib":"qiskit","dir":"x2b","qc":{"n":N,"nc":M,"ops":[[method,[params],[qubits],[clbits]],..]}}
        circuit built with the Qiskit API -> qiskit_to_bqskit.
"""
from __future__ import annotations

import dataclasses
import functools
import math
import re

import numpy as np
from hypothesis import strategies as st

from vt import core
from vt.core import Outcome
from vt.gen import specs as S
from vt.oracle import refsim
from vt.oracle import trace

ID = 'C17'
LEVEL = 'exploration'
RULE = (
    'A (round trip): qubit circuits of width 1-5 with 1-8 operations drawn '
    'from every gate class exported by bqskit.ir.gates whose instance has a '
    'qasm_name (enumerated at run time), ControlledGate where it has a '
    'spelling (cu1 cu2 cu3 cswap c3x c4x, also with non-default control '
    'levels), FrozenParameterGate, CircuitGate blocks nested <= 2 deep (with '
    'frozen gates inside), barrier/measure/reset placeholders; random '
    'non-sorted locations; parameters incl. negative, 1e-12, 1e6-sized. '
    'B (differential): grammar-generated OpenQASM 2 programs: 1-3 qregs of '
    'size 1-3 (width <= 6), cregs, qelib1 gates (u0 left out) on indexed '
    'qubits and broadcast over registers, U/CX builtins, 0-3 user gates '
    '(0-3 formals, 1-3 qubits, nested <= 3 deep, formals inside '
    'expressions, occasionally named like a BQSKit-only builtin), '
    'expressions over + - * / ^, unary minus, parentheses, integers, reals, '
    'scientific notation, pi, sin cos tan exp ln sqrt (arguments checked '
    'in-domain by an evaluator, all values <= 1e4), barrier, measure, '
    'reset. T: translators on A-style circuits restricted to names Qiskit '
    'knows and on circuits built with the Qiskit API; cirq/pytket in the '
    'thorough tier. Constructs whose signature is an open known finding are '
    'not generated (excluded_by_construction) but one dedicated minimal case '
    'per suspected construct always runs. Non-trivial: A: >= 1 operation '
    'that is parameterised or >= 3 qubits wide on a non-sorted location; '
    'B: in-domain and (>= 2 qregs or a called user gate whose body uses a '
    'formal in an expression); T: same as A / >= 1 multi-qubit op. '
    'Distinct = sha1 of the JSON case.'
)
ASSUMPTIONS = [
    'qiskit.qasm2.loads(..., custom_instructions=LEGACY_CUSTOM_INSTRUCTIONS) '
    'and qiskit.quantum_info.Operator assign the reference meaning to an '
    'OpenQASM 2 program; Operator(qc.reverse_bits()) has qubit 0 most '
    'significant',
    'vt.oracle.refsim composition and each elementary gate\'s own '
    'get_unitary (C18\'s business) are correct',
    'the expression evaluator in this module follows the OpenQASM 2 '
    'precedence grammar (it only decides the in-domain filter and the '
    'construct tags, never the verdict)',
    'cirq.Circuit.unitary / pytket Circuit.get_unitary for the thorough-tier '
    'translator checks',
]
SHARDS = {'quick': 16, 'thorough': 16}
BUDGET_S = {'quick': 170, 'thorough': 2400}

TOL = 1e-7            # unitary comparisons (exact for A, up to phase for B/T)
MAT_TOL = 1e-9        # per-operation matrix comparison after a round trip
PARAM_RTOL = 1e-12    # printed parameters, relative
VAL_MAX = 1e4         # B: every intermediate expression value is below this
QELIB1 = {
    # name: (num params, num qubits); qiskit's qelib1.inc minus u0
    'u3': (3, 1), 'u2': (2, 1), 'u1': (1, 1), 'u': (3, 1), 'p': (1, 1),
    'id': (0, 1), 'x': (0, 1), 'y': (0, 1), 'z': (0, 1), 'h': (0, 1),
    's': (0, 1), 'sdg': (0, 1), 't': (0, 1), 'tdg': (0, 1), 'sx': (0, 1),
    'sxdg': (0, 1), 'rx': (1, 1), 'ry': (1, 1), 'rz': (1, 1),
    'cx': (0, 2), 'cy': (0, 2), 'cz': (0, 2), 'ch': (0, 2), 'swap': (0, 2),
    'csx': (0, 2), 'crx': (1, 2), 'cry': (1, 2), 'crz': (1, 2),
    'cu1': (1, 2), 'cp': (1, 2), 'cu3': (3, 2), 'cu': (4, 2),
    'rxx': (1, 2), 'rzz': (1, 2),
    'ccx': (0, 3), 'cswap': (0, 3), 'rccx': (0, 3),
    'rc3x': (0, 4), 'c3x': (0, 4), 'c3sqrtx': (0, 4), 'c4x': (0, 5),
}
# names BQSKit's decoder pre-defines although qelib1.inc does not
SHADOW_NAMES = ['b', 'v', 'cs', 'xx', 'syc', 'iswap', 'ryy']
FUNCS = ['sin', 'cos', 'tan', 'exp', 'ln', 'sqrt']


# ===================================================================== helpers
@functools.lru_cache(maxsize=1)
def _lang():
    from bqskit.ir.circuit import Circuit  # noqa: F401 (import order)
    from bqskit.ir.lang.qasm2 import OPENQASM2Language
    return OPENQASM2Language()


@functools.lru_cache(maxsize=1)
def _qk():
    """Qiskit, imported once per process."""
    import qiskit
    from qiskit import qasm2
    from qiskit.quantum_info import Operator

    class NS:
        pass
    ns = NS()
    ns.qiskit = qiskit
    ns.qasm2 = qasm2
    ns.Operator = Operator
    ns.QuantumCircuit = qiskit.QuantumCircuit
    return ns


def _norm(msg: str) -> str:
    msg = re.sub(r'<input>:\d+,\d+: ', '', str(msg))
    msg = re.sub(r'circuitgate_\d+', 'circuitgate_N', msg)
    msg = re.sub(r'mcx_\d+', 'mcx_N', msg)
    msg = re.sub(r'\d+', 'N', msg)
    return msg.strip().replace('\n', ' ')[:90]


def _qiskit_msg(e: BaseException) -> str:
    """Normalised Qiskit parse error; a redefinition names what was
    redefined (classical registers are called c/d/m0 here)."""
    msg = _norm(str(e)).strip('"')
    m = re.search(r"'(\w+)' is already defined", str(e))
    if m:
        kind = 'creg' if m.group(1) in CREG_NAMES else 'gate'
        msg = kind + ' already defined'
    return msg


def lang_feature(e: BaseException) -> str | None:
    """Name of the construct a decoder rejection is about, for the message
    templates of visitor.py; None if the message is not recognised."""
    msg = str(e)
    m = re.match(r'Unrecognized gate: (\w+)\.', msg)
    if m:
        g = m.group(1)
        return 'unknown_gate:' + (
            'circuitgate' if g.startswith('circuitgate_') else g
        )
    m = re.match(r'Expected \d+ params got \d+ params for gate (\w+)\.', msg)
    if m:
        return 'param_count:' + m.group(1)
    if msg.startswith('Gate acts on'):
        return 'qubit_count'
    if 'register redeclared' in msg:
        return 'register_redeclared'
    if isinstance(e, NameError):
        m = re.search(r"name '(\w+)' is not defined", msg)
        if m:
            return 'undefined_name:' + m.group(1)
    tok = getattr(e, 'token', None)
    if tok is not None and hasattr(e, 'token_history'):
        hist = e.token_history or []
        prev = ''
        if hist:
            p = hist[-1]
            prev = p.type + (
                ':' + str(p) if p.type == 'ID' and str(p) in FUNCS else ''
            )
        return f'parse:{tok.type} after {prev}'
    return None


def reject_sig(clause: str, e: BaseException) -> str:
    f = lang_feature(e)
    if f is not None:
        return f'{clause}|{f}'
    return f'{core.exc_sig(clause, e)}|{_norm(str(e))}'


def _entries(circuit):
    """Fully unfolded circuit as a timeline-compatible list of
    ('U', loc, M, gate, params) | ('barrier', loc) | ('measure', loc, targets)
    | ('reset', loc)."""
    out = []
    for g, loc, params in trace.flat_ops(circuit):
        name = type(g).__name__
        if name == 'BarrierPlaceholder':
            out.append(('barrier', tuple(loc)))
        elif name == 'MeasurementPlaceholder':
            vals = list(g.measurements.values())
            out.append(('measure', tuple(loc), tuple(
                (str(vals[i][0]), int(vals[i][1])) if i < len(vals) else None
                for i in range(len(loc))
            )))
        elif name == 'Reset':
            out.append(('reset', tuple(loc)))
        else:
            M = np.asarray(g.get_unitary(list(params)).numpy, np.complex128)
            out.append(('U', tuple(loc), M, g, tuple(params)))
    return out


def _unitary_of_entries(n: int, entries) -> np.ndarray:
    return refsim.unitary_of_ops(
        [2] * n, [(e[2], list(e[1])) for e in entries if e[0] == 'U'],
    )


def _flat_unitary(circuit) -> np.ndarray:
    return _unitary_of_entries(circuit.num_qudits, _entries(circuit))


def _events_of_entries(n: int, entries, with_u: bool = True) -> list:
    """Per-qubit sequence of placeholder events (and 'U' markers)."""
    ev = [[] for _ in range(n)]
    for e in entries:
        if e[0] == 'U':
            if with_u:
                for q in e[1]:
                    ev[q].append(('U',))
        elif e[0] == 'barrier':
            for q in e[1]:
                ev[q].append(('barrier', tuple(sorted(e[1]))))
        elif e[0] == 'measure':
            for q, tgt in zip(e[1], e[2]):
                ev[q].append(('measure', tgt))
        else:
            for q in e[1]:
                ev[q].append(('reset',))
    return ev


def _top_events(circuit) -> list:
    """Per-qubit events of the *unflattened* circuit (a block is one 'U')."""
    n = circuit.num_qudits
    ev = [[] for _ in range(n)]
    for _, op in refsim.grid_ops(circuit):
        name = type(op.gate).__name__
        loc = tuple(op.location)
        if name == 'BarrierPlaceholder':
            for q in loc:
                ev[q].append(('barrier', tuple(sorted(loc))))
        elif name == 'MeasurementPlaceholder':
            vals = list(op.gate.measurements.values())
            for i, q in enumerate(loc):
                tgt = (str(vals[i][0]), int(vals[i][1])) \
                    if i < len(vals) else None
                ev[q].append(('measure', tgt))
        elif name == 'Reset':
            for q in loc:
                ev[q].append(('reset',))
        else:
            for q in loc:
                ev[q].append(('U',))
    return ev


def _first_event_diff(a: list, b: list):
    """None, or (kind, text) of the first per-qubit difference."""
    if len(a) != len(b):
        return ('width', f'{len(a)} vs {len(b)} qubits')
    for q, (x, y) in enumerate(zip(a, b)):
        if x == y:
            continue
        for i in range(max(len(x), len(y))):
            u = x[i] if i < len(x) else None
            v = y[i] if i < len(y) else None
            if u != v:
                kinds = {k[0] for k in (u, v) if k is not None}
                kind = '+'.join(sorted(kinds - {'U'})) if kinds - {'U'} \
                    else 'U'
                return (kind, f'qubit {q} position {i}: {u} vs {v}')
    return None


def _full_params(g, params):
    """(inner gate, full parameter list) for a FrozenParameterGate."""
    if type(g).__name__ == 'FrozenParameterGate':
        full = list(params)
        for idx in sorted(g.frozen_params):
            full.insert(idx, float(g.frozen_params[idx]))
        return g.gate, full
    return g, list(params)


def compare_roundtrip(out: Outcome, c, c2, prefix: str, tag: str = '') -> None:
    """Oracle A on an (original, re-decoded) pair."""
    n = c.num_qudits
    if c2.num_qudits != n:
        out.fail(f'{prefix}_width', f'{c2.num_qudits} != {n}')
        return
    ea, eb = _entries(c), _entries(c2)
    suffix = f'|{tag}' if tag else ''

    def project(entries):
        proj = [[] for _ in range(n)]
        for e in entries:
            if e[0] == 'U':
                d = e[2].shape[0]
                if np.abs(e[2] - np.eye(d)).max() <= 1e-12:
                    continue   # identities carry no order information
                for q in e[1]:
                    proj[q].append(e)
            elif e[0] == 'barrier':
                for q in e[1]:
                    proj[q].append(('barrier', tuple(sorted(e[1]))))
            elif e[0] == 'measure':
                for q, tgt in zip(e[1], e[2]):
                    proj[q].append(('measure', tgt))
            else:
                for q in e[1]:
                    proj[q].append(('reset',))
        return proj

    pa, pb = project(ea), project(eb)
    bad_matrix = False
    for q in range(n):
        if len(pa[q]) != len(pb[q]):
            nu = [sum(1 for e in p if e[0] == 'U') for p in (pa[q], pb[q])]
            clause = 'placeholders' if nu[0] == nu[1] else 'order'
            out.fail(
                f'{prefix}_{clause}{suffix}',
                f'qubit {q}: {len(pa[q])} vs {len(pb[q])} entries: '
                f'{[e[0] for e in pa[q]]} vs {[e[0] for e in pb[q]]}',
            )
            return
        for i, (x, y) in enumerate(zip(pa[q], pb[q])):
            if x[0] != y[0]:
                out.fail(
                    f'{prefix}_order{suffix}',
                    f'qubit {q} position {i}: {x[0]} vs {y[0]}',
                )
                return
            if x[0] != 'U':
                if x != y:
                    out.fail(
                        f'{prefix}_placeholders|{x[0]}',
                        f'qubit {q} position {i}: {x} vs {y}',
                    )
                    return
                continue
            if x[1] != y[1]:
                out.fail(
                    f'{prefix}_order{suffix}',
                    f'qubit {q} position {i}: location {x[1]} vs {y[1]}',
                )
                return
            d = float(np.abs(x[2] - y[2]).max())
            if d > MAT_TOL:
                out.fail(
                    f'{prefix}_gate_matrix{suffix}',
                    f'qubit {q} position {i}: {x[3].name}@{x[1]} differs '
                    f'from {y[3].name} by {d:.3g}',
                )
                bad_matrix = True
                break
            g1, p1 = _full_params(x[3], x[4])
            g2, p2 = _full_params(y[3], y[4])
            if type(g1) is type(g2) and len(p1) == len(p2):
                for a, b in zip(p1, p2):
                    if abs(a - b) > PARAM_RTOL * abs(a):
                        out.fail(
                            f'{prefix}_params',
                            f'{g1.name}@{x[1]}: {a!r} printed/read as {b!r}',
                        )
                        return
        if bad_matrix:
            return
    U1, U2 = _unitary_of_entries(n, ea), _unitary_of_entries(n, eb)
    d = float(np.abs(U1 - U2).max())
    if d > TOL:
        out.fail(f'{prefix}_unitary{suffix}', f'max abs diff {d:.3g}')


# =============================================================== domain A
CTOR_ARGS = ([], [1], [2], [3])
PLACEHOLDER_CLASSES = (
    'BarrierPlaceholder', 'MeasurementPlaceholder', 'Reset',
)
CONTROLLED = [
    # (inner class, num controls) pairs ControlledGate.qasm_name documents
    ('U1Gate', 1), ('U2Gate', 1), ('U3Gate', 1), ('SwapGate', 1),
    ('XGate', 3), ('XGate', 4),
]


@functools.lru_cache(maxsize=1)
def qasm_library() -> tuple:
    """Every (class, width) in bqskit.ir.gates whose instance is qubit-only
    and has a qasm_name: dicts {'spec','k','np','name','emits_def'}."""
    import inspect
    from bqskit.ir.circuit import Circuit  # noqa: F401
    import bqskit.ir.gates as G
    from bqskit.ir.gate import Gate
    seen = set()
    out = []
    for cname in sorted(G.__all__):
        cls = getattr(G, cname)
        if not inspect.isclass(cls) or not issubclass(cls, Gate):
            continue
        if cls.__name__ in PLACEHOLDER_CLASSES:
            continue
        for args in CTOR_ARGS:
            try:
                g = cls(*args)
                if not g.is_qubit_only():
                    continue
                name = g.qasm_name
                if not isinstance(name, str):
                    continue
                key = (cls, g.num_qudits)
                if key in seen or g.num_qudits > 5:
                    continue
                seen.add(key)
                out.append({
                    'spec': {'g': cls.__name__, 'a': list(args)},
                    'k': g.num_qudits, 'np': g.num_params,
                    'name': name.split('(')[0],
                    'emits_def': bool(g.get_qasm_gate_def()),
                })
            except Exception:
                continue
    if len(out) < 40:
        raise core.HarnessError(
            f'only {len(out)} gates with a qasm spelling were discovered',
        )
    return tuple(out)


def build_rt(spec: dict):
    from bqskit.ir.circuit import Circuit
    import bqskit.ir.gates as G
    c = Circuit(len(spec['radixes']))
    for op in spec['ops']:
        g = op['gate']
        if g['g'] == 'MeasureAt':
            mp = G.MeasurementPlaceholder(
                [(str(nm), int(sz)) for nm, sz in g['cregs']],
                {int(q): (str(nm), int(i)) for q, nm, i in g['map']},
            )
            c.append_gate(mp, [int(q) for q, _, _ in g['map']])
        else:
            c.append_gate(
                S.build_gate(g), list(op['loc']), list(op.get('params', [])),
            )
    return c


def rt_tags(spec: dict, in_cg: bool = False) -> set:
    tags = set()
    nmeas = 0
    for op in spec['ops']:
        g = op['gate']
        k = g['g']
        if k == 'MeasureAt':
            nmeas += 1
        elif k == 'CircuitGate':
            tags.add('nested_cg' if in_cg else 'cg')
            tags |= rt_tags(g['circ'], True)
        elif k == 'Frozen':
            tags.add('frozen_in_cg' if in_cg else 'frozen')
            tags |= rt_tags({'ops': [{'gate': g['inner']}]}, in_cg) - {'cg'}
        elif k == 'Controlled':
            tags.add('controlled')
            if g.get('cl') is not None:
                tags.add('ctrl_levels')
        elif k in ('Barrier', 'Reset'):
            tags.add(k.lower())
        else:
            for e in qasm_library():
                if e['spec']['g'] == k:
                    tags.add('gate:' + e['name'])
                    break
    if nmeas:
        tags.add('measure')
    if nmeas >= 2:
        tags.add('multi_measure')
    return tags


def _rt_nontrivial(spec: dict) -> bool:
    for op in spec['ops']:
        loc = list(op.get('loc', []))
        if (len(op.get('params', [])) >= 1 or len(loc) >= 3) \
                and loc != sorted(loc):
            return True
    return False


def _no_spelling_as_documented(e, tags) -> bool:
    """A ControlledGate whose controls are not all on |1> has no OpenQASM 2
    spelling; qasm_name documents a ValueError for it (it used to be printed
    as the control-on-|1> gate: fixed finding rt_gate_matrix|ctrl_levels)."""
    return (
        isinstance(e, ValueError) and 'ctrl_levels' in tags
        and 'is not a standard OpenQASM 2.0 identifier' in str(e)
    )


def check_rt(case) -> Outcome:
    out = Outcome()
    spec = case['circ']
    tags = rt_tags(spec)
    out.nontrivial = _rt_nontrivial(spec)
    for t in tags:
        if not t.startswith('gate:'):
            out.label('A:' + t)
    c = build_rt(spec)
    try:
        text = c.to('qasm')
    except Exception as e:
        if _no_spelling_as_documented(e, tags):
            out.label('A:ctrl_levels-no-spelling(documented ValueError)')
            return out
        out.fail(reject_sig('rt_encode', e), repr(e))
        return out
    try:
        c2 = _lang().decode(text)
    except Exception as e:
        sig = reject_sig('rt_decode', e)
        f = lang_feature(e) or ''
        if 'gate:pxz' in tags and (
            str(e).startswith('Expected 1 params got')
            and f == 'param_count:pxz'
            or str(e).startswith('Gate acts on 3 qubits, got 1 ')
        ):
            sig = 'rt_decode|param_count:pxz'   # the swapped pxz entry
        elif f.startswith('param_count:') and 'frozen_in_cg' in tags:
            sig = 'rt_decode|frozen_in_circuitgate'
        out.fail(sig, f'{e!r}\n{text}')
        return out
    tag = 'ctrl_levels' if 'ctrl_levels' in tags else ''
    compare_roundtrip(out, c, c2, 'rt', tag)
    if out.violations:
        out.violations[-1].detail += '\n' + text[:1500]
    return out


# =============================================================== domain B
class _OOD(Exception):
    pass


def render_expr(e, sp: bool = False) -> str:
    k = e[0]
    if k == 'n':
        return e[1]
    if k == 'pi':
        return 'pi'
    if k == 'v':
        return e[1]
    if k == 'neg':
        return '-' + render_expr(e[1], sp)
    if k == 'par':
        return '(' + render_expr(e[1], sp) + ')'
    if k == 'fn':
        return e[1] + '(' + render_expr(e[2], sp) + ')'
    if k == 'pow':
        return render_expr(e[1], sp) + '^' + render_expr(e[2], sp)
    s = render_expr(e[1], sp)
    for op, r in e[2]:
        s += (f' {op} ' if sp else op) + render_expr(r, sp)
    return s


def eval_expr(e, env: dict, tags: set) -> float:
    """Value under the OpenQASM 2 grammar; raises _OOD outside the domain in
    which two double-precision implementations must agree to ~1e-10."""
    k = e[0]
    if k == 'n':
        v = float(e[1])
    elif k == 'pi':
        v = math.pi
    elif k == 'v':
        if e[1] not in env:
            raise _OOD('unbound ' + e[1])
        v = env[e[1]]
        tags.add('formal_in_expr')
    elif k == 'neg':
        v = -eval_expr(e[1], env, tags)
    elif k == 'par':
        tags.add('paren')
        v = eval_expr(e[1], env, tags)
    elif k == 'fn':
        a = eval_expr(e[2], env, tags)
        name = e[1]
        tags.add('fn:' + name)
        if name == 'sin':
            v = math.sin(a)
        elif name == 'cos':
            v = math.cos(a)
        elif name == 'tan':
            if abs(math.cos(a)) < 1e-2:
                raise _OOD('tan near pole')
            v = math.tan(a)
        elif name == 'exp':
            if a > 9:
                raise _OOD('exp too large')
            v = math.exp(a)
        elif name == 'ln':
            if a < 1e-6:
                raise _OOD('ln arg')
            v = math.log(a)
        elif name == 'sqrt':
            if a < 1e-6:
                raise _OOD('sqrt arg')
            v = math.sqrt(a)
        else:
            raise _OOD('function ' + name)
    elif k == 'pow':
        b = eval_expr(e[1], env, tags)
        x = eval_expr(e[2], env, tags)
        if e[1][0] == 'v' and b < 0:
            tags.add('pow_neg_formal')
        if abs(x) > 8:
            raise _OOD('exponent')
        if float(x).is_integer():
            if b == 0 and x <= 0:
                raise _OOD('0^-n')
            if 0 < abs(b) < 1e-3 and x < 0:
                raise _OOD('tiny^-n')
        elif b < 1e-6:
            raise _OOD('fractional power of non-positive')
        try:
            v = float(b) ** float(x)
        except (OverflowError, ZeroDivisionError):
            raise _OOD('pow')
        if isinstance(v, complex):
            raise _OOD('complex pow')
    elif k in ('mul', 'add'):
        v = eval_expr(e[1], env, tags)
        for op, r in e[2]:
            w = eval_expr(r, env, tags)
            if op == '+':
                v += w
            elif op == '-':
                v -= w
            elif op == '*':
                v *= w
            else:
                if abs(w) < 1e-6:
                    raise _OOD('division by ~0')
                v /= w
    else:
        raise _OOD('node ' + str(k))
    if not math.isfinite(v) or abs(v) > VAL_MAX:
        raise _OOD('magnitude')
    return v


def _arg(a) -> str:
    return a[0] if a[1] is None else f'{a[0]}[{a[1]}]'


def render_program(case: dict) -> str:
    sty = case.get('style', {})
    sp = bool(sty.get('sp'))
    sep = ', ' if sp else ','

    def call(name, args, ep):
        if args:
            return f'{name}(' + sep.join(render_expr(a, sp) for a in args) + ')'
        return name + ('()' if ep else '')

    defs = []
    for d in case.get('defs', []):
        head = 'gate ' + d['name']
        if d['params']:
            head += '(' + sep.join(d['params']) + ')'
        elif d.get('ep'):
            head += '()'
        head += ' ' + sep.join(d['qubits']) + ' {'
        body = []
        for s in d['body']:
            if s['t'] == 'g':
                body.append(
                    call(s['name'], s['args'], s.get('ep')) + ' '
                    + sep.join(s['q']) + ';',
                )
            elif s['t'] == 'U':
                body.append(call('U', s['args'], False) + ' ' + s['q'] + ';')
            else:
                body.append('CX ' + sep.join(s['q']) + ';')
        if sp:
            defs.append(
                head + '\n' + ''.join('  ' + b + '\n' for b in body) + '}',
            )
        else:
            defs.append(head + ' ' + ' '.join(body) + ' }')
    regs = [f'qreg {n}[{s}];' for n, s in case['qregs']]
    regs += [f'creg {n}[{s}];' for n, s in case.get('cregs', [])]
    lines = ['OPENQASM 2.0;', 'include "qelib1.inc";']
    if sty.get('cm'):
        lines.append('// generated program')
    lines += (defs + regs) if sty.get('defs_first') else (regs + defs)
    for s in case['stmts']:
        t = s['t']
        if t == 'g':
            lines.append(
                call(s['name'], s['args'], s.get('ep')) + ' '
                + sep.join(_arg(a) for a in s['q']) + ';',
            )
        elif t == 'U':
            lines.append(call('U', s['args'], False) + ' ' + _arg(s['q']) + ';')
        elif t == 'CX':
            lines.append('CX ' + sep.join(_arg(a) for a in s['q']) + ';')
        elif t == 'barrier':
            lines.append('barrier ' + sep.join(_arg(a) for a in s['q']) + ';')
        elif t == 'measure':
            lines.append(f'measure {_arg(s["q"])} -> {_arg(s["c"])};')
        elif t == 'reset':
            lines.append(f'reset {_arg(s["q"])};')
        if sty.get('cm') and t == 'g':
            lines[-1] += ' // op'
    return '\n'.join(lines) + '\n'


def _mentions_formal(e) -> bool:
    k = e[0]
    if k == 'v':
        return True
    if k in ('n', 'pi'):
        return False
    if k in ('neg', 'par'):
        return _mentions_formal(e[1])
    if k == 'fn':
        return _mentions_formal(e[2])
    if k == 'pow':
        return _mentions_formal(e[1]) or _mentions_formal(e[2])
    return _mentions_formal(e[1]) or any(_mentions_formal(r) for _, r in e[2])


def _leading_idlist(args) -> bool:
    """The argument list starts with two or more whole registers (the
    grammar's idlist followed by anything)."""
    return len(args) >= 2 and args[0][1] is None and args[1][1] is None


def analyse_program(case: dict) -> dict:
    """Construct tags, in-domain verdict and the non-trivial rule, derived
    from the case alone."""
    tags: set = set()
    ood = None
    qregs = [(n, int(s)) for n, s in case['qregs']]
    first = qregs[0][0]
    size = dict(qregs)
    defs = {d['name']: d for d in case.get('defs', [])}
    used_formal_defs = set()

    maxdepth = [0]

    def run_body(d, actual, depth):
        if depth > 4:
            raise _OOD('nesting')
        maxdepth[0] = max(maxdepth[0], depth)

        env = dict(zip(d['params'], actual))
        for s in d['body']:
            if s['t'] == 'CX':
                continue
            t2: set = set()
            vals = [eval_expr(a, env, t2) for a in s['args']]
            if 'formal_in_expr' in t2:
                used_formal_defs.add(d['name'])
            tags.update(t2 - {'formal_in_expr'})
            if s['t'] == 'g' and s['name'] in defs:
                tags.add('nested_def')
                run_body(defs[s['name']], vals, depth + 1)

    for s in list(case['stmts']) + [
        b for d in defs.values() for b in d['body']
    ]:
        if s['t'] == 'g' and s['name'] in defs and s['name'] in SHADOW_NAMES:
            tags.add('shadow_name')
    nmeasure = 0
    try:
        for d in defs.values():
            for b in d['body']:
                for a in b.get('args', []):
                    if not _mentions_formal(a):
                        eval_expr(a, {}, set())
        for s in case['stmts']:
            t = s['t']
            if t in ('g', 'U'):
                vals = [eval_expr(a, {}, tags) for a in s['args']]
                if t == 'g' and s['name'] in defs:
                    tags.add('user_gate')
                    run_body(defs[s['name']], vals, 1)
            if t == 'g':
                whole = [a for a in s['q'] if a[1] is None]
                if _leading_idlist(s['q']):
                    tags.add('idlist2')
                elif any(size[a[0]] >= 2 for a in whole):
                    tags.add('broadcast')
                elif whole:
                    tags.add('broadcast_size1')
            elif t == 'U' and s['q'][1] is None:
                tags.add('U_broadcast')
            elif t == 'CX' and any(a[1] is None for a in s['q']):
                tags.add('CX_broadcast')
            elif t == 'barrier':
                if _leading_idlist(s['q']):
                    tags.add('idlist2')
                tags.add('barrier')
            elif t == 'measure':
                nmeasure += 1
                tags.add('measure')
                if s['q'][1] is not None and s['q'][0] != first:
                    tags.add('measure_idx_reg2')
            elif t == 'reset':
                tags.add('reset')
                if s['q'][1] is None and s['q'][0] != first:
                    tags.add('reset_reg_nonfirst')
    except _OOD as e:
        ood = str(e)
    if nmeasure >= 2:
        tags.add('multi_measure')
    tags.discard('formal_in_expr')
    return {
        'tags': tags, 'ood': ood, 'depth': maxdepth[0],
        'nontrivial': ood is None and (
            len(qregs) >= 2 or bool(used_formal_defs)
        ),
    }


def qiskit_reference(src: str) -> dict:
    Q = _qk()
    qc = Q.qasm2.loads(
        src, custom_instructions=Q.qasm2.LEGACY_CUSTOM_INSTRUCTIONS,
    )
    return _qiskit_digest(qc)


def _qiskit_digest(qc) -> dict:
    """Unitary (qubit 0 most significant) and per-qubit events of a Qiskit
    circuit; measure/reset/barrier are stripped before Operator."""
    Q = _qk()
    n = qc.num_qubits
    ev = [[] for _ in range(n)]
    bare = Q.QuantumCircuit(n)
    for inst in qc.data:
        nm = inst.operation.name
        qs = [qc.find_bit(q).index for q in inst.qubits]
        if nm == 'barrier':
            for q in qs:
                ev[q].append(('barrier', tuple(sorted(qs))))
        elif nm == 'measure':
            loc = qc.find_bit(inst.clbits[0])
            if loc.registers:
                reg, idx = loc.registers[0]
                tgt = (reg.name, int(idx))
            else:
                tgt = ('?', int(loc.index))
            ev[qs[0]].append(('measure', tgt))
        elif nm == 'reset':
            ev[qs[0]].append(('reset',))
        else:
            for q in qs:
                ev[q].append(('U',))
            bare.append(inst.operation, qs)
    U = np.asarray(Q.Operator(bare.reverse_bits()).data, np.complex128)
    return {'n': n, 'U': U, 'events': ev}


B_UNITARY_PRIORITY = ['pow_neg_formal', 'paren']


def _has_spelling(circuit):
    """None if every gate of the circuit has a QASM spelling, else the name
    of one that has not (such a circuit is outside domain A)."""
    for g in circuit.gate_set:
        sub = getattr(g, '_circuit', None)
        if sub is not None:        # CircuitGate prints its own definition
            r = _has_spelling(sub)
            if r is not None:
                return r
            continue
        try:
            g.qasm_name
        except Exception:
            return g.name
    return None


def _qiskit_expressible(circuit) -> bool:
    """Every gate prints a qelib1 name or its own definition."""
    for g in circuit.gate_set:
        sub = getattr(g, '_circuit', None)
        if sub is not None:
            if not _qiskit_expressible(sub):
                return False
            continue
        if type(g).__name__ in PLACEHOLDER_CLASSES:
            continue
        if g.qasm_name.split('(')[0] not in QELIB1 and \
                not g.get_qasm_gate_def():
            return False
    return True


def reencode_check(out: Outcome, c, prefix: str) -> None:
    """Oracle A applied to a decoded circuit (decode o encode o decode)."""
    missing = _has_spelling(c)
    if missing is not None:
        out.label('reencode:no-spelling')
        return
    try:
        text = c.to('qasm')
    except Exception as e:
        out.fail(reject_sig(prefix + '_encode', e), repr(e))
        return
    try:
        c3 = _lang().decode(text)
    except Exception as e:
        out.fail(reject_sig(prefix + '_decode', e), f'{e!r}\n{text[:1200]}')
        return
    compare_roundtrip(out, c, c3, prefix)
    if out.violations:
        out.violations[-1].detail += '\n' + text[:1200]


def check_prog(case) -> Outcome:
    out = Outcome()
    info = analyse_program(case)
    tags = info['tags']
    if info['ood'] is not None:
        out.label('B:out-of-domain')
        return out
    out.nontrivial = info['nontrivial']
    out.label(f'B:qregs={len(case["qregs"])}', f'B:depth={info["depth"]}')
    for t in tags:
        out.label('B:' + t)
    src = render_program(case)
    qerr = berr = None
    ref = c = None
    try:
        ref = qiskit_reference(src)
    except _qk().qiskit.exceptions.QiskitError as e:
        qerr = e
    try:
        c = _lang().decode(src)
    except Exception as e:
        berr = e
    if qerr is not None and berr is not None:
        out.label('B:both-reject')
        out.nontrivial = False
        return out
    shadow = 'shadow_name' in tags
    if qerr is not None:
        out.fail(
            'b_accepts_qiskit_rejects|' + _qiskit_msg(qerr),
            f'{qerr!r}\n{src}',
        )
        return out
    if berr is not None:
        f = lang_feature(berr) or ''
        by_shadow = shadow and (
            (f.startswith('param_count:') and f[12:] in SHADOW_NAMES) or
            (f == 'qubit_count' and not tags & {'broadcast', 'idlist2'})
        )
        sig = 'b_user_gate_shadowed_by_builtin' if by_shadow \
            else reject_sig('b_reject', berr)
        if 'pow_neg_formal' in tags and f in (
            'undefined_name:nan', 'undefined_name:inf',
        ):
            # a^k with the text of a negative actual pasted in: -3**2
            sig = 'b_unitary|pow_neg_formal'
        out.fail(sig, f'{berr!r}\n{src}')
        return out
    out.label('B:both-accept')
    n = ref['n']
    if c.num_qudits != n:
        out.fail('b_width', f'{c.num_qudits} != {n}\n{src}')
        return out
    bad = [
        op for _, op in refsim.grid_ops(c)
        if not all(math.isfinite(float(p)) for p in op.params)
    ]
    if bad:
        # every value of an in-domain program is finite and below VAL_MAX
        sig = 'b_unitary|pow_neg_formal' if 'pow_neg_formal' in tags \
            else 'b_nonfinite_param'
        out.fail(
            sig, f'decoded parameter not finite: {bad[0].gate.name} '
            f'{[float(p) for p in bad[0].params]}\n{src}',
        )
        return out
    d = refsim.phase_max_diff(_flat_unitary(c), ref['U'])
    if d > TOL:
        if shadow:
            sig = 'b_user_gate_shadowed_by_builtin'
        else:
            tag = next((t for t in B_UNITARY_PRIORITY if t in tags), 'other')
            sig = 'b_unitary|' + tag
        out.fail(sig, f'phase-insensitive max diff {d:.3g}\n{src}')
    # measurement bookkeeping: keys of .measurements are circuit qubits
    for _, op in refsim.grid_ops(c):
        if type(op.gate).__name__ == 'MeasurementPlaceholder' and \
                tuple(op.gate.measurements.keys()) != tuple(op.location):
            out.fail(
                'b_measure_keys',
                f'location {tuple(op.location)} but measurements '
                f'{op.gate.measurements}\n{src}',
            )
            break
    diff = _first_event_diff(_top_events(c), ref['events'])
    if diff is not None:
        kind, text = diff
        sig = 'b_placeholders|' + kind
        if 'reset' in kind.split('+') and 'reset_reg_nonfirst' in tags:
            sig = 'b_placeholders|reset|whole_register'
        out.fail(sig, f'bqskit vs qiskit: {text}\n{src}')
    if not out.violations:
        reencode_check(out, c, 'b_reencode')
        if out.violations:
            out.violations[-1].detail += '\nfrom program:\n' + src
    return out


# ============================================================= translators
def _import_lib(lib: str):
    try:
        if lib == 'cirq':
            import cirq  # noqa: F401
            from cirq.contrib.qasm_import import circuit_from_qasm  # noqa
        elif lib == 'pytket':
            import pytket  # noqa: F401
            from pytket.qasm import circuit_from_qasm_str  # noqa: F401
        else:
            _qk()
        return True
    except ImportError:
        return False


def build_qiskit(qcspec: dict):
    Q = _qk()
    n, nc = int(qcspec['n']), int(qcspec.get('nc', 0))
    qc = Q.QuantumCircuit(n, nc) if nc else Q.QuantumCircuit(n)
    for op in qcspec['ops']:
        m, ps, qs = op[0], list(op[1]), list(op[2])
        cs = list(op[3]) if len(op) > 3 else []
        if m == 'measure':
            qc.measure(qs[0], cs[0])
        elif m == 'barrier':
            qc.barrier(*qs)
        elif m == 'mcx':
            qc.mcx(qs[:-1], qs[-1])
        else:
            getattr(qc, m)(*ps, *qs)
    return qc


def _foreign_unitary(lib: str, obj, n: int):
    """Unitary with qubit 0 most significant, or None if not computable."""
    if lib == 'cirq':
        import cirq
        order = [cirq.NamedQubit(f'q_{i}') for i in range(n)]
        if not set(obj.all_qubits()) <= set(order):
            return None
        if not cirq.has_unitary(obj):
            return None
        return np.asarray(obj.unitary(qubit_order=order), np.complex128)
    # pytket
    if obj.n_qubits != n:
        return None
    return np.asarray(obj.get_unitary(), np.complex128)


def check_tr(case) -> Outcome:
    out = Outcome()
    lib, direction = case['lib'], case['dir']
    if not _import_lib(lib):
        out.label(f'T:{lib}:skipped')
        return out
    from bqskit.ir.circuit import Circuit  # noqa: F401
    import bqskit.ext as X
    if direction == 'x2b':
        Q = _qk()
        qc = build_qiskit(case['qc'])
        out.nontrivial = any(len(op[2]) >= 2 for op in case['qc']['ops'])
        out.label('T:qiskit:x2b')
        ref = _qiskit_digest(qc)
        try:
            c = X.qiskit_to_bqskit(qc)
        except Exception as e:
            out.fail(
                reject_sig('tr_qiskit_x2b', e),
                f'{e!r}\n{Q.qasm2.dumps(qc)[:1500]}',
            )
            return out
        if c.num_qudits != ref['n']:
            out.fail('tr_qiskit_x2b_width', f'{c.num_qudits} != {ref["n"]}')
            return out
        d = refsim.phase_max_diff(_flat_unitary(c), ref['U'])
        if d > TOL:
            out.fail(
                'tr_qiskit_x2b_unitary',
                f'diff {d:.3g}\n{Q.qasm2.dumps(qc)[:1500]}',
            )
        diff = _first_event_diff(_top_events(c), ref['events'])
        if diff is not None:
            out.fail(
                'tr_qiskit_x2b_placeholders|' + diff[0],
                f'{diff[1]}\n{Q.qasm2.dumps(qc)[:1500]}',
            )
        if out.violations:
            return out
        # and back (the repo's own test_qiskit_to_qiskit path), only for
        # circuits whose gates all have a spelling (domain A)
        if _has_spelling(c) is not None:
            out.label('T:qiskit:x2b:no-spelling')
            return out
        if not _qiskit_expressible(c):
            out.label('T:qiskit:x2b:name-not-in-qelib1')
            return out
        try:
            qc2 = X.bqskit_to_qiskit(c)
        except Exception as e:
            out.fail(
                f'tr_qiskit_x2b2x|{type(e).__name__}|{_qiskit_msg(e)}',
                f'{e!r}\n{Q.qasm2.dumps(qc)[:800]}\n--\n{c.to("qasm")[:800]}',
            )
            return out
        r2 = _qiskit_digest(qc2)
        d = refsim.phase_max_diff(r2['U'], ref['U'])
        if d > TOL:
            out.fail('tr_qiskit_x2b2x_unitary', f'diff {d:.3g}')
        diff = _first_event_diff(r2['events'], ref['events'])
        if diff is not None:
            out.fail('tr_qiskit_x2b2x_placeholders|' + diff[0], diff[1])
        return out

    # ---- b2x (and back)
    spec = case['circ']
    c = build_rt(spec)
    n = c.num_qudits
    out.nontrivial = _rt_nontrivial(spec)
    out.label(f'T:{lib}:b2x')
    tags = rt_tags(spec)
    ents = _entries(c)
    U = _unitary_of_entries(n, ents)
    try:
        text = c.to('qasm')
    except Exception as e:
        if _no_spelling_as_documented(e, tags):
            out.label('T:ctrl_levels-no-spelling(documented ValueError)')
            return out
        out.fail(reject_sig(f'tr_{lib}_encode', e), repr(e))
        return out
    if lib != 'qiskit':
        _check_foreign(out, lib, c, U, text, tags)
        return out
    try:
        obj = X.bqskit_to_qiskit(c)
        # Qiskit instantiates gate bodies lazily: a body that calls a gate
        # with the wrong number of parameters only fails here
        ref = _qiskit_digest(obj)
    except Exception as e:
        if 'frozen_in_cg' in tags and (
            isinstance(e, TypeError) or 'parameter' in str(e)
        ):
            sig = 'tr_qiskit_b2x|frozen_in_circuitgate'
        else:
            sig = f'tr_qiskit_b2x|{type(e).__name__}|{_qiskit_msg(e)}'
        out.fail(sig, f'{e!r}\n{text[:1500]}')
        return out
    if ref['n'] != n:
        out.fail('tr_qiskit_b2x_width', f'{ref["n"]} != {n}')
        return out
    diff = _first_event_diff(_top_events(c), ref['events'])
    if diff is not None:
        out.fail(
            'tr_qiskit_b2x_placeholders|' + diff[0],
            f'{diff[1]}\n{text[:1500]}',
        )
    sfx = '|ctrl_levels' if 'ctrl_levels' in tags else ''
    d = refsim.phase_max_diff(U, ref['U'])
    if d > TOL:
        out.fail(f'tr_qiskit_b2x_unitary{sfx}', f'diff {d:.3g}\n{text[:1500]}')
    if out.violations:
        return out
    try:
        c3 = X.qiskit_to_bqskit(obj)
    except Exception as e:
        out.fail(
            reject_sig('tr_qiskit_x2b', e),
            f'{e!r}\n{_qk().qasm2.dumps(obj)[:1500]}',
        )
        return out
    if c3.num_qudits != n:
        out.fail('tr_qiskit_roundtrip_width', f'{c3.num_qudits} != {n}')
        return out
    d = refsim.phase_max_diff(_flat_unitary(c3), U)
    if d > TOL:
        out.fail('tr_qiskit_roundtrip_unitary', f'diff {d:.3g}\n{text[:1500]}')
    diff = _first_event_diff(
        _events_of_entries(n, _entries(c3), with_u=False),
        _events_of_entries(n, ents, with_u=False),
    )
    if diff is not None:
        out.fail(
            'tr_qiskit_roundtrip_placeholders|' + diff[0],
            f'{diff[1]}\n{text[:1500]}',
        )
    return out


def _check_foreign(out: Outcome, lib: str, c, U, text: str, tags: set) -> None:
    """cirq / pytket.  Their importers and exporters have limits and phase
    conventions of their own, so Qiskit arbitrates: BQSKit is only blamed
    when Qiskit's reading of the *same text* disagrees with BQSKit's."""
    import bqskit.ext as X
    n = c.num_qudits
    try:
        obj = getattr(X, f'bqskit_to_{lib}')(c)
    except Exception:
        out.label(f'T:{lib}:foreign-reject')
        return
    try:
        Uf = _foreign_unitary(lib, obj, n)
    except Exception:
        Uf = None
    if Uf is None:
        out.label(f'T:{lib}:no-unitary')
    elif refsim.phase_max_diff(U, Uf) > TOL:
        try:
            agree = refsim.phase_max_diff(U, qiskit_reference(text)['U']) <= TOL
        except Exception:
            agree = False
        if agree:
            out.label(f'T:{lib}:import-differs-from-qiskit')
        else:
            sfx = '|ctrl_levels' if 'ctrl_levels' in tags else ''
            out.fail(
                f'tr_{lib}_b2x_unitary{sfx}',
                f'{lib} and Qiskit both read BQSKit\'s text differently '
                f'from the circuit\n{text[:1500]}',
            )
            return
    # back: BQSKit must read the text the foreign library writes the way
    # Qiskit reads it
    try:
        if lib == 'cirq':
            import cirq
            ftext = cirq.qasm(obj)
        else:
            from pytket.qasm import circuit_to_qasm_str
            ftext = circuit_to_qasm_str(obj)
    except Exception:
        out.label(f'T:{lib}:foreign-export-fails')
        return
    try:
        ref = qiskit_reference(ftext)
    except Exception:
        out.label(f'T:{lib}:foreign-text-not-qiskit-readable')
        return
    try:
        c3 = getattr(X, f'{lib}_to_bqskit')(obj)
    except Exception as e:
        out.fail(reject_sig(f'tr_{lib}_x2b', e), f'{e!r}\n{ftext[:1500]}')
        return
    if c3.num_qudits != ref['n']:
        out.fail(
            f'tr_{lib}_x2b_width',
            f'{c3.num_qudits} != {ref["n"]}\n{ftext[:1500]}',
        )
        return
    if c3.num_qudits != n:
        out.label(f'T:{lib}:idle-qubit-dropped')
    d = refsim.phase_max_diff(_flat_unitary(c3), ref['U'])
    if d > TOL:
        out.fail(
            f'tr_{lib}_x2b_unitary', f'diff {d:.3g} on\n{ftext[:1500]}',
        )
    else:
        out.label(f'T:{lib}:x2b-agrees-with-qiskit')


CHECKS = {'rt': check_rt, 'prog': check_prog, 'tr': check_tr}


def check(case) -> Outcome:
    out = CHECKS[case['k']](case)
    out.label('kind:' + case['k'])
    if set(case.get('excl') or ()) - OUT_OF_SUBSET:
        out.excluded = 1
    return out


replay = check


# ================================================== exclusion switches
# construct tag -> signatures; the construct is not generated while any of
# them is listed as an open known finding
SWITCHES = {
    # domain A
    'gate:st': ['rt_decode|unknown_gate:st'],
    'gate:diag': ['rt_decode|unknown_gate:diag'],
    'gate:mprz': ['rt_decode|unknown_gate:mprz'],
    'gate:mpry': ['rt_decode|unknown_gate:mpry'],
    'gate:pxz': ['rt_decode|param_count:pxz'],
    'frozen_in_cg': [
        'rt_decode|frozen_in_circuitgate',
        'tr_qiskit_b2x|frozen_in_circuitgate',
    ],
    'multi_measure': [
        'rt_decode|register_redeclared',
        'b_reencode_decode|register_redeclared',
        'tr_qiskit_b2x|QASM2ParseError|creg already defined',
        'tr_qiskit_x2b2x|QASM2ParseError|creg already defined',
    ],
    'ctrl_levels': [
        'rt_gate_matrix|ctrl_levels', 'tr_qiskit_b2x_unitary|ctrl_levels',
        'tr_cirq_b2x_unitary|ctrl_levels', 'tr_pytket_b2x_unitary|ctrl_levels',
    ],
    'dup_def': ['tr_qiskit_b2x|QASM2ParseError|gate already defined'],
    # domain B
    'fn:sqrt': ['b_reject|undefined_name:sqrt'],
    'fn:exp': ['b_reject|parse:LPAR after ID:exp'],
    'paren': ['b_unitary|paren'],
    'pow_neg_formal': ['b_unitary|pow_neg_formal'],
    'shadow_name': ['b_user_gate_shadowed_by_builtin'],
    'broadcast': ['b_reject|qubit_count'],
    'idlist2': [
        'b_reject|AttributeError|visitor.py:convert_qubit_ids_to_indices|'
        "'Token' object has no attribute 'children'",
    ],
    'U_broadcast': [
        'b_reject|IndexError|visitor.py:ugate|list index out of range',
    ],
    'CX_broadcast': [
        'b_reject|IndexError|visitor.py:cxgate|list index out of range',
    ],
    'measure_idx_reg2': ['b_measure_keys'],
    'reset_reg_nonfirst': ['b_placeholders|reset|whole_register'],
}


# Constructs that are NOT part of the subset the property quantifies over
# ("several registers, user-defined gates with parameter expressions,
# arithmetic ..., barriers, measurement, reset"): applying a gate to a whole
# register (broadcast).  BQSKit rejects these programs; they are never
# generated and the rejection of the dedicated cases is only labelled.
# ControlledGates with non-standard control levels have no OpenQASM 2
# spelling (documented ValueError), so they are not in domain A either.
OUT_OF_SUBSET = frozenset({'broadcast', 'U_broadcast', 'CX_broadcast',
                           'ctrl_levels'})
OUT_OF_SUBSET_SIGS = frozenset(
    s for t in ('broadcast', 'U_broadcast', 'CX_broadcast')
    for s in (
        'b_reject|qubit_count',
        'b_reject|IndexError|visitor.py:ugate|list index out of range',
        'b_reject|IndexError|visitor.py:cxgate|list index out of range',
    )
)


def exclusions(ctx: core.Ctx) -> frozenset:
    ex = set(OUT_OF_SUBSET)
    for tag, sigs in SWITCHES.items():
        if any(ctx.is_known(s) for s in sigs):
            ex.add(tag)
    # any other library gate the decoder is known not to read back
    for e in qasm_library():
        for s in (f'rt_decode|unknown_gate:{e["name"]}',
                  f'rt_decode|param_count:{e["name"]}'):
            if ctx.is_known(s):
                ex.add('gate:' + e['name'])
    return frozenset(ex)


# ============================================================ strategies
PARAM_SPECIALS = [
    0.0, math.pi, -math.pi, math.pi / 2, -math.pi / 4, 2 * math.pi,
    1e-12, -1e-12, 1e-9, -3e-7, 1.0, -1.0, 0.1, 50.25, -47.5,
    1000000.123, -31415.9265, 123456.789,
]


def _params(draw, n: int) -> list:
    return [
        draw(st.one_of(
            st.sampled_from(PARAM_SPECIALS),
            st.floats(-2 * math.pi, 2 * math.pi, allow_nan=False,
                      allow_infinity=False),
        )) for _ in range(n)
    ]


def _lib(excl: frozenset, qiskit_only: bool) -> list:
    out = []
    for e in qasm_library():
        if 'gate:' + e['name'] in excl:
            continue
        if qiskit_only and not (e['name'] in QELIB1 or e['emits_def']):
            continue
        out.append(e)
    return out


def _loc(draw, n: int, k: int) -> list:
    return list(draw(st.permutations(range(n)))[:k])


def _draw_lib_op(draw, n, lib, max_k=5):
    fit = [e for e in lib if e['k'] <= min(n, max_k)]
    e = draw(st.sampled_from(fit))
    return {'gate': dict(e['spec']), 'loc': _loc(draw, n, e['k']),
            'params': _params(draw, e['np'])}, e


def _draw_frozen(draw, n, lib, max_k=5):
    fit = [e for e in lib if e['k'] <= min(n, max_k) and e['np'] >= 1]
    if not fit:
        return None
    e = draw(st.sampled_from(fit))
    idx = sorted(draw(st.sets(
        st.integers(0, e['np'] - 1), min_size=1, max_size=e['np'],
    )))
    vals = _params(draw, len(idx))
    return {
        'gate': {'g': 'Frozen', 'inner': dict(e['spec']),
                 'frozen': {str(i): v for i, v in zip(idx, vals)}},
        'loc': _loc(draw, n, e['k']),
        'params': _params(draw, e['np'] - len(idx)),
    }


def _draw_cg(draw, n, lib, excl, depth, no_defs):
    k = draw(st.integers(1, min(3, n)))
    inner_lib = [e for e in lib if not (no_defs and e['emits_def'])]
    ops = []
    for _ in range(draw(st.integers(1, 4))):
        kind = draw(st.sampled_from(['lib'] * 5 + ['frozen', 'cg']))
        op = None
        if kind == 'frozen' and 'frozen_in_cg' not in excl:
            op = _draw_frozen(draw, k, inner_lib, 3)
        elif kind == 'cg' and depth > 1 and not no_defs:
            op = _draw_cg(draw, k, lib, excl, depth - 1, no_defs)
        if op is None:
            op, _ = _draw_lib_op(draw, k, inner_lib, 3)
        ops.append(op)
    sub = {'radixes': [2] * k, 'ops': ops}
    stored = [p for o in ops for p in o['params']]
    call = _params(draw, len(stored)) if draw(st.booleans()) else stored
    return {'gate': {'g': 'CircuitGate', 'circ': sub},
            'loc': _loc(draw, n, k), 'params': call}


@st.composite
def rt_circuits(draw, excl=frozenset(), qiskit_only=False, max_n=5,
                placeholders=True):
    n = draw(st.integers(1, max_n))
    lib = _lib(excl, qiskit_only)
    no_defs = qiskit_only and 'dup_def' in excl
    kinds = ['lib'] * 9 + ['ctrl', 'ctrl', 'frozen', 'frozen', 'cg', 'cg']
    if placeholders:
        kinds += ['barrier', 'measure', 'reset']
    ops = []
    nmeas = 0
    for _ in range(draw(st.integers(1, 8))):
        kind = draw(st.sampled_from(kinds))
        op = None
        if kind == 'ctrl':
            fit = [(g, nc) for g, nc in CONTROLLED
                   if nc + (2 if g == 'SwapGate' else 1) <= n
                   and not (qiskit_only and g == 'U2Gate')]
            if fit:
                g, nc = draw(st.sampled_from(fit))
                spec = {'g': 'Controlled', 'inner': {'g': g}, 'nc': nc,
                        'cr': [2] * nc}
                if 'ctrl_levels' not in excl and draw(st.integers(0, 5)) == 0:
                    spec['cl'] = [[draw(st.integers(0, 1))] for _ in range(nc)]
                k = nc + (2 if g == 'SwapGate' else 1)
                npar = {'U1Gate': 1, 'U2Gate': 2, 'U3Gate': 3}.get(g, 0)
                op = {'gate': spec, 'loc': _loc(draw, n, k),
                      'params': _params(draw, npar)}
        elif kind == 'frozen':
            op = _draw_frozen(draw, n, lib)
        elif kind == 'cg':
            op = _draw_cg(draw, n, lib, excl, 2, no_defs)
        elif kind == 'barrier':
            k = draw(st.integers(1, n))
            op = {'gate': {'g': 'Barrier', 'radixes': [2] * k},
                  'loc': _loc(draw, n, k), 'params': []}
        elif kind == 'reset':
            op = {'gate': {'g': 'Reset', 'radix': 2},
                  'loc': _loc(draw, n, 1), 'params': []}
        elif kind == 'measure':
            if nmeas == 0 or 'multi_measure' not in excl:
                nmeas += 1
                k = draw(st.integers(1, n))
                loc = _loc(draw, n, k)
                bits = draw(st.permutations(range(n)))[:k]
                op = {'gate': {
                    'g': 'MeasureAt', 'cregs': [['c', n]],
                    'map': [[q, 'c', int(b)] for q, b in zip(loc, bits)],
                }, 'loc': loc, 'params': []}
        if op is None:
            op, _ = _draw_lib_op(draw, n, lib)
        ops.append(op)
    return {'radixes': [2] * n, 'ops': ops}


def rt_cases(excl):
    ex = sorted(t for t in excl if t in (
        'frozen_in_cg', 'multi_measure', 'ctrl_levels',
    ) or t.startswith('gate:'))
    return rt_circuits(excl).map(
        lambda s: {'k': 'rt', 'circ': s, **({'excl': ex} if ex else {})},
    )


def tr_b2x_cases(excl, lib='qiskit'):
    ex = sorted(t for t in excl if t in (
        'frozen_in_cg', 'multi_measure', 'ctrl_levels', 'dup_def',
    ) or t.startswith('gate:'))
    return rt_circuits(
        excl, qiskit_only=True, max_n=4, placeholders=(lib == 'qiskit'),
    ).map(
        lambda s: {'k': 'tr', 'lib': lib, 'dir': 'b2x', 'circ': s,
                   **({'excl': ex} if ex else {})},
    )


QISKIT_METHODS = {
    'h': (0, 1), 'x': (0, 1), 'y': (0, 1), 'z': (0, 1), 's': (0, 1),
    'sdg': (0, 1), 't': (0, 1), 'tdg': (0, 1), 'sx': (0, 1), 'sxdg': (0, 1),
    'id': (0, 1), 'rx': (1, 1), 'ry': (1, 1), 'rz': (1, 1), 'p': (1, 1),
    'u': (3, 1), 'r': (2, 1),
    'cx': (0, 2), 'cy': (0, 2), 'cz': (0, 2), 'ch': (0, 2), 'swap': (0, 2),
    'iswap': (0, 2), 'ecr': (0, 2), 'dcx': (0, 2), 'csx': (0, 2),
    'cs': (0, 2), 'csdg': (0, 2), 'crx': (1, 2), 'cry': (1, 2),
    'crz': (1, 2), 'cp': (1, 2), 'rxx': (1, 2), 'ryy': (1, 2),
    'rzz': (1, 2), 'rzx': (1, 2), 'cu': (4, 2),
    'ccx': (0, 3), 'cswap': (0, 3), 'ccz': (0, 3), 'rccx': (0, 3),
    'rcccx': (0, 4), 'mcx': (0, 4),
}


@st.composite
def tr_x2b_cases(draw, excl=frozenset()):
    n = draw(st.integers(1, 5))
    names = sorted(m for m, (_, k) in QISKIT_METHODS.items() if k <= n)
    ops = []
    nmeas = 0
    for _ in range(draw(st.integers(1, 8))):
        kind = draw(st.sampled_from(['g'] * 9 + ['measure', 'reset',
                                                 'barrier']))
        if kind == 'g' or (kind == 'measure' and nmeas >= 1
                           and 'multi_measure' in excl):
            m = draw(st.sampled_from(names))
            npar, k = QISKIT_METHODS[m]
            if m == 'mcx':
                k = draw(st.integers(4, 5)) if n >= 5 else 4
            ps = [draw(st.one_of(
                st.sampled_from([0.0, math.pi, -math.pi / 2, 1e-9, 0.1, -2.5]),
                st.floats(-6.0, 6.0, allow_nan=False),
            )) for _ in range(npar)]
            ops.append([m, ps, _loc(draw, n, k), []])
        elif kind == 'measure':
            nmeas += 1
            ops.append(['measure', [], _loc(draw, n, 1),
                        [draw(st.integers(0, n - 1))]])
        elif kind == 'reset':
            ops.append(['reset', [], _loc(draw, n, 1), []])
        else:
            ops.append(['barrier', [],
                        _loc(draw, n, draw(st.integers(1, n))), []])
    case = {'k': 'tr', 'lib': 'qiskit', 'dir': 'x2b',
            'qc': {'n': n, 'nc': n, 'ops': ops}}
    if 'multi_measure' in excl:
        case['excl'] = ['multi_measure']
    return case


# ---- OpenQASM program grammar
QREG_NAMES = ['q', 'r', 'a', 'qr_1']
CREG_NAMES = ['c', 'd', 'm0']
FORMAL_PARAMS = ['a', 'b', 'th', 'lam']
FORMAL_QUBITS = ['x', 'y', 'z', 'w']
USER_NAMES = ['g0', 'foo', 'my_gate', 'rot1', 'cPhase']
INT_LITS = ['0', '1', '2', '3', '4', '7', '10']
REAL_LITS = ['0.5', '.25', '3.', '1.5e-3', '2E1', '1e+0', '6.25e-1', '0.1',
             '2.0', '12.75', '1e-12', '3.14159', '0.7071']
POS_LITS = ['0.5', '.25', '3.', '2', '7', '1.5e-3', '6.25e-1', '12.75']
QELIB_WEIGHTED = sorted(QELIB1) + [
    'rz', 'rx', 'ry', 'u3', 'u2', 'u1', 'u', 'p', 'cx', 'cu1', 'cp', 'crz',
    'cu3', 'rxx', 'rzz', 'cu', 'crx', 'cry', 'h', 'ccx',
]


class _EG:
    """Expression generator following the precedence grammar
    add > mul > unary minus > pow > atom."""

    def __init__(self, draw, formals, excl):
        self.draw, self.formals, self.excl = draw, list(formals), excl
        self.fns = [
            f for f in FUNCS if 'fn:' + f not in excl
        ]

    def lit(self):
        d = self.draw
        kind = d(st.integers(0, 5))
        if kind <= 1:
            return ['n', d(st.sampled_from(INT_LITS))]
        if kind <= 3:
            return ['n', d(st.sampled_from(REAL_LITS))]
        if kind == 4:
            return ['pi']
        return ['n', str(round(d(st.floats(0.001, 9.0)), 4))]

    def add(self, depth):
        d = self.draw
        n = d(st.sampled_from([1, 1, 1, 2, 2, 3])) if depth > 0 else 1
        first = self.mul(depth)
        rest = [[d(st.sampled_from('+-')), self.mul(depth)]
                for _ in range(n - 1)]
        return ['add', first, rest] if rest else first

    def mul(self, depth):
        d = self.draw
        n = d(st.sampled_from([1, 1, 1, 2, 2, 3])) if depth > 0 else 1
        first = self.unary(depth)
        rest = []
        for _ in range(n - 1):
            op = d(st.sampled_from('**/'))
            if op == '/':
                den = d(st.sampled_from(
                    [['n', x] for x in POS_LITS] + [['pi']],
                ))
                if self.formals and d(st.integers(0, 5)) == 0:
                    den = ['v', d(st.sampled_from(self.formals))]
                rest.append([op, den])
            else:
                rest.append([op, self.unary(depth)])
        return ['mul', first, rest] if rest else first

    def unary(self, depth):
        if self.draw(st.integers(0, 5)) == 0:
            return ['neg', self.unary(max(depth - 1, 0))]
        return self.power(depth)

    def power(self, depth):
        d = self.draw
        if depth > 0 and d(st.integers(0, 5)) == 0:
            choices = [['n', '2'], ['n', '3'], ['n', '0'], ['n', '1'],
                       ['neg', ['n', '1']], ['neg', ['n', '2']]]
            base = self.atom(depth - 1, for_pow=True)
            if base[0] in ('n', 'pi'):
                choices += [['n', '0.5'], ['n', '.25']]
            if self.formals:
                choices.append(['v', d(st.sampled_from(self.formals))])
            return ['pow', base, d(st.sampled_from(choices))]
        return self.atom(depth)

    def atom(self, depth, for_pow=False):
        d = self.draw
        kinds = ['lit'] * 4
        if self.formals and not (for_pow and 'pow_neg_formal' in self.excl):
            kinds += ['v'] * 5
        if depth > 0:
            if self.fns:
                kinds += ['fn'] * 3
            if 'paren' not in self.excl:
                kinds += ['par'] * 3
        k = d(st.sampled_from(kinds))
        if k == 'lit':
            return self.lit()
        if k == 'v':
            return ['v', d(st.sampled_from(self.formals))]
        if k == 'par':
            return ['par', self.add(depth - 1)]
        name = d(st.sampled_from(self.fns))
        return ['fn', name, self.fn_arg(name, depth - 1)]

    def fn_arg(self, name, depth):
        d = self.draw
        if name in ('sin', 'cos'):
            return self.add(depth)
        if name == 'exp':
            a = self.lit() if not self.formals or d(st.booleans()) \
                else ['v', d(st.sampled_from(self.formals))]
            return ['neg', a] if d(st.booleans()) else a
        if name == 'tan':
            return d(st.sampled_from([
                ['n', '0.5'], ['n', '1'], ['neg', ['n', '0.3']],
                ['mul', ['pi'], [['/', ['n', '4']]]], ['n', '1.2'],
            ]))
        # ln, sqrt: strictly positive
        pos = ['n', d(st.sampled_from(POS_LITS))]
        if not self.formals or d(st.booleans()):
            return pos if d(st.booleans()) else ['add', pos, [['+', ['pi']]]]
        v = ['v', d(st.sampled_from(self.formals))]
        if 'pow_neg_formal' in self.excl or d(st.booleans()):
            sq = ['mul', v, [['*', v]]]
        else:
            sq = ['pow', v, ['n', '2']]
        return ['add', sq, [['+', pos]]]


def _const_arg(draw, excl):
    """Actual argument of a top-level call: formal-free, often negative."""
    eg = _EG(draw, [], excl)
    k = draw(st.integers(0, 5))
    if k <= 1:
        return eg.lit()
    if k == 2:
        return ['neg', eg.lit()]
    if k == 3:
        return draw(st.sampled_from([
            ['mul', ['pi'], [['/', ['n', '2']]]],
            ['neg', ['mul', ['pi'], [['/', ['n', '4']]]]],
            ['mul', ['n', '3'], [['*', ['pi']], ['/', ['n', '4']]]],
        ]))
    return eg.add(2)


@st.composite
def programs(draw, excl=frozenset()):
    # ---- registers
    nq = draw(st.sampled_from([1, 1, 2, 2, 2, 3]))
    qnames = draw(st.permutations(QREG_NAMES))[:nq]
    sizes = [draw(st.integers(1, 3)) for _ in range(nq)]
    while sum(sizes) > 6:
        sizes[sizes.index(max(sizes))] -= 1
    qregs = [[n, s] for n, s in zip(qnames, sizes)]
    qubits = [[n, i] for n, s in qregs for i in range(s)]
    width = len(qubits)
    ncr = draw(st.integers(0, 2))
    cnames = draw(st.permutations(CREG_NAMES))[:ncr]
    cregs = [[n, draw(st.integers(1, 3))] for n in cnames]

    # ---- user gates
    defs = []
    depth_of = {}
    unames = draw(st.permutations(USER_NAMES))
    for di in range(draw(st.sampled_from([0, 1, 1, 2, 2, 3, 3]))):
        name = unames[di]
        if 'shadow_name' not in excl and draw(st.integers(0, 11)) == 0:
            name = draw(st.sampled_from(SHADOW_NAMES))
            if any(d['name'] == name for d in defs):
                name = unames[di]
        params = list(draw(st.permutations(FORMAL_PARAMS))[
            :draw(st.sampled_from([0, 1, 1, 2, 2, 3]))])
        nfq = draw(st.sampled_from([1, 1, 2, 2, 3]))
        if defs and draw(st.booleans()):
            nfq = max(nfq, len(defs[-1]['qubits']))
        fq = list(draw(st.permutations(FORMAL_QUBITS))[:nfq])
        eg = _EG(draw, params, excl)
        body = []
        depth = 1
        nbody = draw(st.sampled_from([0, 1, 2, 2, 3, 4]))
        for bi in range(nbody):
            kind = draw(st.sampled_from(['g'] * 5 + ['U', 'CX'] +
                                        ['user'] * 4))
            if bi == 0 and defs and draw(st.integers(0, 3)) > 0:
                kind = 'user'
            if kind == 'user':
                cands = [d for d in defs
                         if len(d['qubits']) <= len(fq)
                         and depth_of[d['name']] <= 2]
                if cands:
                    cd = cands[-1] if draw(st.booleans()) \
                        else draw(st.sampled_from(cands))
                    body.append({
                        't': 'g', 'name': cd['name'],
                        'args': [eg.add(2) for _ in cd['params']],
                        'q': list(draw(st.permutations(fq))[
                            :len(cd['qubits'])]),
                        'ep': draw(st.booleans()),
                    })
                    depth = max(depth, depth_of[cd['name']] + 1)
                    continue
                kind = 'g'
            if kind == 'CX' and len(fq) >= 2:
                body.append({'t': 'CX',
                             'q': list(draw(st.permutations(fq))[:2])})
            elif kind == 'U':
                body.append({'t': 'U', 'args': [eg.add(2) for _ in range(3)],
                             'q': draw(st.sampled_from(fq))})
            else:
                fit = [g for g in QELIB_WEIGHTED if QELIB1[g][1] <= len(fq)]
                g = draw(st.sampled_from(fit))
                npar, k = QELIB1[g]
                body.append({
                    't': 'g', 'name': g,
                    'args': [eg.add(2) for _ in range(npar)],
                    'q': list(draw(st.permutations(fq))[:k]),
                    'ep': draw(st.booleans()),
                })
        depth_of[name] = depth
        defs.append({'name': name, 'params': params, 'qubits': fq,
                     'ep': draw(st.booleans()), 'body': body})

    # ---- statements
    def qargs(k):
        """k qubit arguments, possibly with whole registers (broadcast)."""
        allow_b = 'broadcast' not in excl and draw(st.integers(0, 6)) == 0
        if allow_b:
            reg = draw(st.sampled_from(qregs))
            same = [r for r in qregs if r[1] == reg[1]]
            m = draw(st.integers(1, min(k, len(same))))
            if m == k and k >= 2 and 'idlist2' in excl:
                m = k - 1
            whole = draw(st.permutations(same))[:m]
            others = [q for q in qubits if q[0] not in [w[0] for w in whole]]
            if len(others) >= k - m:
                idx = list(draw(st.permutations(others))[:k - m])
                args = [[w[0], None] for w in whole] + idx
                args = list(draw(st.permutations(args)))
                if 'idlist2' in excl and _leading_idlist(args):
                    j = next(i for i, a in enumerate(args)
                             if a[1] is not None)
                    args[0], args[j] = args[j], args[0]
                return args
        return list(draw(st.permutations(qubits))[:k])

    stmts = []
    nmeas = 0
    kinds = ['g'] * 10 + ['user'] * 5 + ['U', 'U', 'CX', 'CX', 'barrier',
                                         'barrier', 'measure', 'measure',
                                         'reset', 'reset']
    for _ in range(draw(st.integers(1, 8))):
        kind = draw(st.sampled_from(kinds))
        if kind == 'user':
            cands = [d for d in defs if len(d['qubits']) <= width]
            if cands:
                d = draw(st.sampled_from(cands))
                stmts.append({
                    't': 'g', 'name': d['name'],
                    'args': [_const_arg(draw, excl) for _ in d['params']],
                    'q': qargs(len(d['qubits'])), 'ep': draw(st.booleans()),
                })
                continue
            kind = 'g'
        if kind == 'g':
            fit = [g for g in QELIB_WEIGHTED if QELIB1[g][1] <= width]
            g = draw(st.sampled_from(fit))
            npar, k = QELIB1[g]
            stmts.append({
                't': 'g', 'name': g,
                'args': [_const_arg(draw, excl) for _ in range(npar)],
                'q': qargs(k), 'ep': draw(st.booleans()),
            })
        elif kind == 'U':
            q = draw(st.sampled_from(qubits))
            if 'U_broadcast' not in excl and draw(st.integers(0, 7)) == 0:
                q = [q[0], None]
            stmts.append({'t': 'U',
                          'args': [_const_arg(draw, excl) for _ in range(3)],
                          'q': q})
        elif kind == 'CX':
            if width < 2:
                continue
            qs = list(draw(st.permutations(qubits))[:2])
            if 'CX_broadcast' not in excl and len(qregs) >= 2 and \
                    draw(st.integers(0, 7)) == 0:
                r0 = draw(st.sampled_from(qregs))
                oth = [q for q in qubits if q[0] != r0[0]]
                qs = [[r0[0], None], draw(st.sampled_from(oth))]
                if draw(st.booleans()):
                    qs.reverse()
            stmts.append({'t': 'CX', 'q': qs})
        elif kind == 'barrier':
            args = []
            for r in draw(st.permutations(qregs)):
                mode = draw(st.sampled_from(['none', 'whole', 'some', 'some']))
                if mode == 'whole':
                    args.append([r[0], None])
                elif mode == 'some':
                    k = draw(st.integers(1, r[1]))
                    args += [[r[0], i] for i in
                             draw(st.permutations(range(r[1])))[:k]]
            if not args:
                args = [draw(st.sampled_from(qubits))]
            if 'idlist2' in excl and _leading_idlist(args):
                args[0] = [args[0][0], 0]
            stmts.append({'t': 'barrier', 'q': args})
        elif kind == 'measure':
            if nmeas >= 1 and 'multi_measure' in excl:
                continue
            if not cregs:
                cregs.append(['c', draw(st.integers(1, 3))])
            whole = draw(st.booleans())
            if whole:
                r = draw(st.sampled_from(qregs))
                fitc = [c for c in cregs if c[1] == r[1]]
                if not fitc:
                    free = [n for n in CREG_NAMES
                            if n not in [c[0] for c in cregs]]
                    if free:
                        cregs.append([free[0], r[1]])
                        fitc = [cregs[-1]]
                if fitc:
                    nmeas += 1
                    stmts.append({'t': 'measure', 'q': [r[0], None],
                                  'c': [draw(st.sampled_from(fitc))[0], None]})
                    continue
            cands = qubits
            if 'measure_idx_reg2' in excl:
                cands = [q for q in qubits if q[0] == qregs[0][0]]
            q = draw(st.sampled_from(cands))
            cr = draw(st.sampled_from(cregs))
            nmeas += 1
            stmts.append({'t': 'measure', 'q': q,
                          'c': [cr[0], draw(st.integers(0, cr[1] - 1))]})
        else:
            if draw(st.booleans()):
                r = draw(st.sampled_from(qregs))
                if 'reset_reg_nonfirst' in excl:
                    r = qregs[0]
                stmts.append({'t': 'reset', 'q': [r[0], None]})
            else:
                stmts.append({'t': 'reset', 'q': draw(st.sampled_from(qubits))})
    called = {s['name'] for s in stmts if s['t'] == 'g'}
    for d in reversed(defs):
        if d['name'] not in called and len(d['qubits']) <= width \
                and draw(st.integers(0, 3)) > 0:
            stmts.insert(draw(st.integers(0, len(stmts))), {
                't': 'g', 'name': d['name'],
                'args': [_const_arg(draw, excl) for _ in d['params']],
                'q': qargs(len(d['qubits'])), 'ep': draw(st.booleans()),
            })
            break
    if not stmts:
        stmts.append({'t': 'g', 'name': 'h', 'args': [],
                      'q': [qubits[0]], 'ep': False})
    case = {
        'k': 'prog', 'qregs': qregs, 'cregs': cregs, 'defs': defs,
        'stmts': stmts,
        'style': {'defs_first': draw(st.booleans()), 'sp': draw(st.booleans()),
                  'cm': draw(st.integers(0, 3)) == 0},
    }
    ex = sorted(t for t in excl if t in SWITCHES and not t.startswith('gate:')
                and t not in ('frozen_in_cg', 'ctrl_levels', 'dup_def'))
    if ex:
        case['excl'] = ex
    return case


# ============================================================ dedicated cases
def _prog(qregs, stmts, defs=(), cregs=()):
    return {'k': 'prog', 'qregs': [list(r) for r in qregs],
            'cregs': [list(r) for r in cregs], 'defs': list(defs),
            'stmts': list(stmts), 'style': {}}


def _g(name, args, q, ep=False):
    return {'t': 'g', 'name': name, 'args': args, 'q': q, 'ep': ep}


def _rt1(gate, loc, params, n=None):
    n = n or (max(loc) + 1)
    return {'k': 'rt', 'circ': {'radixes': [2] * n, 'ops': [
        {'gate': gate, 'loc': loc, 'params': params}]}}


def dedicated_cases() -> list:
    """One minimal case per suspected construct; always run."""
    q1 = [['q', 1]]
    meas = lambda q, b: {'gate': {  # noqa: E731
        'g': 'MeasureAt', 'cregs': [['c', 2]], 'map': [[q, 'c', b]],
    }, 'loc': [q], 'params': []}
    return [
        # ---- B: expression evaluation
        _prog(q1, [_g('rz', [['fn', 'sqrt', ['n', '4']]], [['q', 0]])]),
        _prog(q1, [_g('rz', [['fn', 'exp', ['n', '1']]], [['q', 0]])]),
        _prog(q1, [_g('rz', [['mul', ['n', '2'], [['*', ['par', [
            'add', ['n', '3'], [['+', ['n', '4']]]]]]]]], [['q', 0]])]),
        _prog(q1, [_g('g0', [['neg', ['n', '3']]], [['q', 0]])], defs=[{
            'name': 'g0', 'params': ['a'], 'qubits': ['x'], 'ep': False,
            'body': [{'t': 'g', 'name': 'rz', 'args': [
                ['pow', ['v', 'a'], ['n', '2']]], 'q': ['x'], 'ep': False}],
        }]),
        # ---- B: qubit arguments
        _prog([['q', 2]], [_g('h', [], [['q', None]])]),
        _prog([['q', 1], ['r', 1]], [_g('cx', [], [['q', None], ['r', None]])]),
        _prog(q1, [{'t': 'U', 'args': [['n', '0'], ['n', '0'], ['n', '1']],
                    'q': ['q', None]}]),
        _prog([['q', 1], ['r', 1]],
              [{'t': 'CX', 'q': [['q', None], ['r', 0]]}]),
        # ---- B: placeholders in a second register
        _prog([['q', 1], ['r', 1]],
              [{'t': 'measure', 'q': ['r', 0], 'c': ['c', 0]}],
              cregs=[['c', 1]]),
        _prog([['q', 1], ['r', 1]], [{'t': 'reset', 'q': ['r', None]}]),
        _prog([['q', 2]], [
            {'t': 'measure', 'q': ['q', 0], 'c': ['c', 0]},
            {'t': 'measure', 'q': ['q', 1], 'c': ['c', 1]},
        ], cregs=[['c', 2]]),
        # ---- B: a user gate named like a BQSKit-only builtin
        _prog(q1, [_g('v', [], [['q', 0]])], defs=[{
            'name': 'v', 'params': [], 'qubits': ['x'], 'ep': False,
            'body': [{'t': 'g', 'name': 'h', 'args': [], 'q': ['x'],
                      'ep': False}],
        }]),
        # ---- A: names the decoder does not know / reads differently
        _rt1({'g': 'SqrtTGate', 'a': []}, [0], []),
        _rt1({'g': 'DiagonalGate', 'a': [1]}, [0], [0.5]),
        _rt1({'g': 'MPRZGate', 'a': [1]}, [0], [0.5]),
        _rt1({'g': 'MPRYGate', 'a': [1]}, [0], [0.5]),
        _rt1({'g': 'PhasedXZGate', 'a': []}, [0], [0.1, 0.2, 0.3]),
        # ---- A: composed gates
        _rt1({'g': 'CircuitGate', 'circ': {'radixes': [2], 'ops': [{
            'gate': {'g': 'Frozen', 'inner': {'g': 'U2Gate', 'a': []},
                     'frozen': {'0': 0.5}},
            'loc': [0], 'params': [0.25]}]}}, [0], [0.25]),
        _rt1({'g': 'Controlled', 'inner': {'g': 'U1Gate'}, 'nc': 1,
              'cr': [2], 'cl': [[0]]}, [0, 1], [0.5]),
        {'k': 'rt', 'circ': {'radixes': [2, 2],
                             'ops': [meas(0, 0), meas(1, 1)]}},
        # ---- T: the same through the Qiskit translators
        {'k': 'tr', 'lib': 'qiskit', 'dir': 'x2b', 'qc': {
            'n': 2, 'nc': 2, 'ops': [['measure', [], [0], [0]],
                                     ['measure', [], [1], [1]]]}},
        {'k': 'tr', 'lib': 'qiskit', 'dir': 'b2x', 'circ': {
            'radixes': [2, 2], 'ops': [meas(0, 0), meas(1, 1)]}},
        {'k': 'tr', 'lib': 'qiskit', 'dir': 'b2x', 'circ': {
            'radixes': [2], 'ops': [{'gate': {'g': 'CircuitGate', 'circ': {
                'radixes': [2], 'ops': [{
                    'gate': {'g': 'Frozen', 'inner': {'g': 'RZGate', 'a': []},
                             'frozen': {'0': 0.5}},
                    'loc': [0], 'params': []}]}}, 'loc': [0], 'params': []}]}},
        {'k': 'tr', 'lib': 'qiskit', 'dir': 'b2x', 'circ': {
            'radixes': [2, 2], 'ops': [{'gate': {
                'g': 'Controlled', 'inner': {'g': 'U1Gate'}, 'nc': 1,
                'cr': [2], 'cl': [[0]]}, 'loc': [0, 1], 'params': [0.5]}]}},
        {'k': 'tr', 'lib': 'qiskit', 'dir': 'b2x', 'circ': {
            'radixes': [2, 2], 'ops': [
                {'gate': {'g': 'ECRGate', 'a': []}, 'loc': [0, 1],
                 'params': []},
                {'gate': {'g': 'CircuitGate', 'circ': {
                    'radixes': [2, 2], 'ops': [{
                        'gate': {'g': 'ECRGate', 'a': []}, 'loc': [1, 0],
                        'params': []}]}}, 'loc': [0, 1], 'params': []},
            ]}},
    ]


# ================================================================ minimiser
def _fix_cg_params(op: dict) -> None:
    """After editing a CircuitGate body the call takes the stored values."""
    g = op['gate']
    if g['g'] == 'CircuitGate':
        for o in g['circ']['ops']:
            _fix_cg_params(o)
        op['params'] = [p for o in g['circ']['ops'] for p in o['params']]


def _circ_variants(circ: dict):
    import copy
    ops = circ['ops']
    for i in range(len(ops)):
        if len(ops) > 1:
            c = copy.deepcopy(circ)
            del c['ops'][i]
            yield c
    for i, op in enumerate(ops):
        g = op['gate']
        if g['g'] == 'CircuitGate':
            for sub in _circ_variants(g['circ']):
                c = copy.deepcopy(circ)
                c['ops'][i]['gate']['circ'] = sub
                _fix_cg_params(c['ops'][i])
                yield c
        if op.get('params') and any(p != 0.5 for p in op['params']):
            c = copy.deepcopy(circ)
            c['ops'][i]['params'] = [0.5] * len(op['params'])
            yield c
    n = len(circ['radixes'])
    used = {q for op in ops for q in op['loc']}
    if n > 1 and (n - 1) not in used:
        c = copy.deepcopy(circ)
        c['radixes'] = c['radixes'][:-1]
        for op in c['ops']:
            if op['gate']['g'] == 'MeasureAt':
                op['gate']['cregs'] = [['c', n]]
        yield c


def _expr_variants(e):
    yield ['n', '1']
    if e[0] in ('neg', 'par'):
        yield e[1]
    elif e[0] == 'fn':
        yield e[2]
    elif e[0] == 'pow':
        yield e[1]
        yield e[2]
    elif e[0] in ('mul', 'add'):
        yield e[1]
        for _, r in e[2]:
            yield r
        if len(e[2]) > 1:
            yield [e[0], e[1], e[2][:-1]]


def _prog_variants(case: dict):
    import copy
    for i in range(len(case['stmts'])):
        if len(case['stmts']) > 1:
            c = copy.deepcopy(case)
            del c['stmts'][i]
            yield c
    refs = {s['name'] for s in case['stmts'] if s['t'] == 'g'} | {
        b['name'] for d in case['defs'] for b in d['body'] if b['t'] == 'g'
    }
    for i, d in enumerate(case['defs']):
        if d['name'] not in refs:
            c = copy.deepcopy(case)
            del c['defs'][i]
            yield c
        for j in range(len(d['body'])):
            c = copy.deepcopy(case)
            del c['defs'][i]['body'][j]
            yield c
        for j, b in enumerate(d['body']):
            for k, a in enumerate(b.get('args', [])):
                if a != ['n', '1']:
                    for v in _expr_variants(a):
                        c = copy.deepcopy(case)
                        c['defs'][i]['body'][j]['args'][k] = v
                        yield c
    for i, s in enumerate(case['stmts']):
        for k, a in enumerate(s.get('args', [])):
            if a != ['n', '1']:
                for v in _expr_variants(a):
                    c = copy.deepcopy(case)
                    c['stmts'][i]['args'][k] = v
                    yield c
    used_q = set()
    for s in case['stmts']:
        qs = s['q'] if s['t'] in ('g', 'CX', 'barrier') else [s['q']]
        used_q |= {a[0] for a in qs}
    for i, r in enumerate(case['qregs']):
        if r[0] not in used_q and len(case['qregs']) > 1:
            c = copy.deepcopy(case)
            del c['qregs'][i]
            yield c
    used_c = {s['c'][0] for s in case['stmts'] if s['t'] == 'measure'}
    for i, r in enumerate(case['cregs']):
        if r[0] not in used_c:
            c = copy.deepcopy(case)
            del c['cregs'][i]
            yield c
    if case.get('style') and any(case['style'].values()):
        c = copy.deepcopy(case)
        c['style'] = {}
        yield c


def _variants(case: dict):
    import copy
    if 'circ' in case:
        for sub in _circ_variants(case['circ']):
            c = copy.deepcopy(case)
            c['circ'] = sub
            yield c
    elif 'qc' in case:
        for i in range(len(case['qc']['ops'])):
            if len(case['qc']['ops']) > 1:
                c = copy.deepcopy(case)
                del c['qc']['ops'][i]
                yield c
    elif case['k'] == 'prog':
        yield from _prog_variants(case)


def minimise(case: dict, sig: str, seconds: float):
    """Greedy structural reduction that keeps `sig` firing; bounded time.
    Replaces Hypothesis' shrinker, which has no usable time limit."""
    import time
    stop = time.monotonic() + seconds
    detail = None
    progress = True
    while progress and time.monotonic() < stop:
        progress = False
        for cand in _variants(case):
            if time.monotonic() > stop:
                break
            try:
                out = check(cand)
            except Exception:
                continue       # an invalid reduction, not a result
            hit = [v for v in out.violations if v.sig == sig]
            if hit:
                case, detail, progress = cand, hit[0].detail, True
                break
    return case, detail


def _run_family(ctx, hctx, res, strat, n, sub) -> None:
    before = set(res.buckets)
    core.run_hypothesis(hctx, res, strat, check, n, shrink=False, sub=sub)
    new = [s for s in res.buckets if s not in before and not hctx.is_known(s)]
    for sig in sorted(new)[:6]:
        b = res.buckets[sig]
        case, detail = minimise(b['case'], sig, 8.0)
        if detail is not None:
            b.update(case=case, detail=detail, size=len(core.canon(case)),
                     shrunk=True)


# =================================================================== driver
def run_shard(ctx: core.Ctx) -> core.ShardResult:
    res = core.ShardResult()
    _qk()                              # import qiskit once per shard
    excl = exclusions(ctx)
    res.extra['excluded_constructs'] = ','.join(sorted(excl)) or '-'
    res.extra['qasm_library_size'] = len(qasm_library()) \
        if ctx.shard == 0 else 0

    # dedicated minimal cases: every shard learns their signatures (so the
    # driver does not spend its shrink budget on them), one shard records
    ded_sigs = set()
    for i, case in enumerate(dedicated_cases()):
        out = check(case)
        out.label('dedicated')
        if any(v.sig in OUT_OF_SUBSET_SIGS for v in out.violations):
            out.label('dedicated:out-of-subset-program-rejected')
            out.violations = [v for v in out.violations
                              if v.sig not in OUT_OF_SUBSET_SIGS]
        ded_sigs.update(v.sig for v in out.violations)
        if i % ctx.nshards == ctx.shard:
            res.record(case, out)
    hctx = dataclasses.replace(
        ctx, known_sigs=tuple(ctx.known_sigs) + tuple(sorted(ded_sigs)),
    )

    plan = [
        (rt_cases(excl), 300, 6000),
        (programs(excl), 300, 6000),
        (tr_b2x_cases(excl), 60, 1200),
        (tr_x2b_cases(excl), 60, 1200),
    ]
    # two rounds of half the count each, so that every family has run
    # before a wall-clock ceiling on a busy machine cuts generation short
    for rnd in range(2):
        for i, (strat, q, t) in enumerate(plan):
            _run_family(
                ctx, hctx, res, strat, max(1, ctx.n(q, t) // 2), i + 20 * rnd,
            )
    if ctx.tier == 'thorough':
        for j, lib in enumerate(('cirq', 'pytket')):
            if not _import_lib(lib):
                res.labels[f'T:{lib}:skipped'] += 1
                continue
            _run_family(
                ctx, hctx, res, tr_b2x_cases(excl, lib), ctx.n(20, 300),
                10 + j,
            )
    return res
