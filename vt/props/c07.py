"""C07 - every awaited runtime future resolves exactly once with its own
result."""
from __future__ import annotations

import logging

from hypothesis import strategies as st

from vt import core
from vt.core import Outcome
from vt.props import simcommon as sc
from vt.simrt import programs as P

ID = 'C07'
LEVEL = 'exploration'
RULE = (
    'cases: (task program, topology, schedule, line-level pre-emptions). '
    'Programs are trees (depth <= 3 quick / 4 thorough, fan-out <= 4 / 6) of '
    'submit-all-await-in-any-order, map, and map+next() nodes over uniquely '
    'tagged leaves; topologies are a server with 1-4 workers or 1-3 managers x '
    '1-3 workers; the schedule is a list of integers choosing the next atomic '
    'action (deliver head of a channel / one worker main-loop iteration) of '
    'the deterministic simulator, which runs the real Worker, DetachedServer, '
    'Manager and Compiler code; up to 3 pre-emptions suspend a worker main '
    'step at a source line of runtime/worker.py and run the incoming-message '
    'handler for up to 3 pending messages there. A second family enumerates '
    'EVERY single pre-emption point (worker step x line x k) of a fixed '
    'two-sequential-awaits program. Non-trivial: program depth >= 2 and >= 1 '
    'RESULT message was delivered to a worker (a parent was parked), or a '
    'pre-emption fired while a message for that worker was pending. '
    'Distinct = sha1 of the JSON case.'
)
ASSUMPTIONS = [
    'channel model: reliable FIFO per direction, pickled payloads',
    'a worker thread can be pre-empted between any two source lines, the '
    'other thread then runs whole message handlers; at most 3 pre-emptions',
    'the registration shim (~25 lines in vt/simrt/sim.py) mirrors '
    'spawn_workers/connect_to_managers',
]
SHARDS = {'quick': 16, 'thorough': 16}
BUDGET_S = {'quick': 200, 'thorough': 2400}


def run_program(case, out, spec=None):
    from vt.simrt.sim import Hang, Sim, StepBound, make_root_task
    from bqskit.runtime.message import RuntimeMessage as M
    spec = spec or sc.normalise(case['prog'])
    P.reset()
    sim = Sim(case['topo'], case['sched'], policy=case.get('policy'))
    res = None
    try:
        names = sorted(sim.workers)
        sim.inject = sc.resolve_injections(case.get('inject', []), names)
        sim.rinject = sc.resolve_rinjections(case.get('rinject', []), names)
        fired_pending = [False]
        comp = sim.compiler()
        task = make_root_task(spec)
        try:
            comp._send(M.SUBMIT, task)
            res = comp.result(task.task_id)
        except Hang:
            out.fail('hang|client_blocked_at_quiescence',
                     f'trace tail {sim.trace[-8:]}')
            return sim, None
        except StepBound:
            out.label('step-bound')
            return sim, None
        except RuntimeError as e:
            out.fail(*sc.client_error(e))
            return sim, None
        try:
            sim.drain()
        except StepBound:
            out.label('step-bound')
        for t in sim.trace:
            if t[0] == 'inject' and t[3]:
                fired_pending[0] = True
        out.label('inject-fired' if fired_pending[0] else 'no-inject')
        return sim, res
    finally:
        sim.close()


def judge(case, out, sim, res, spec):
    d = P.value_matches(P.expected(spec), res[1]['res'])
    if d is not None:
        out.fail('wrong_value', d)
    counts = sc.exec_counts()
    for tag, kind, canc in P.leaves(spec):
        n = counts.get(tag, 0)
        if n != 1:
            out.fail('body_not_exactly_once', f'{kind} {tag} ran {n} times')
            break
    for e in P.PROTO_ERRORS:
        out.fail('protocol|' + e[0], str(e))
    left = sc.worker_leftovers(sim)
    if left:
        out.fail('task_parked_at_quiescence', str(left))
    nres = sum(1 for t in sim.trace if t[0] == 'recv' and t[1].startswith('W')
               and len(t) > 3 and t[3] == 'RESULT')
    out.nontrivial = sc.depth(spec) >= 2 and (
        nres >= 1 or 'inject-fired' in out.labels
    )
    if 'managers' in case['topo']:
        out.label('topology:managers')
    else:
        out.label(f'topology:workers{case["topo"]["workers"]}')
    out.evals = 1


@sc.abandon_safe
def check(case) -> Outcome:
    logging.disable(logging.CRITICAL)
    out = Outcome()
    if case.get('k') == 'enum':
        spec = sc.normalise(ENUM_PROG)
    else:
        spec = sc.normalise(case['prog'])
    sim, res = run_program(case, out, spec)
    if res is not None:
        judge(case, out, sim, res, spec)
    return out


replay = check

ENUM_PROG = {'t': 'seq', 'order': [0, 0, 0], 'kids': [
    {'t': 'leaf'}, {'t': 'leaf'}, {'t': 'map', 'kids': [{'t': 'leaf'},
                                                        {'t': 'leaf'}]}]}
ENUM_BASES = [
    ('lazy_recv', [0]), ('lazy_recv', [1, 0]), ('lazy_recv', [2, 1, 0, 3]),
    (None, [0]), (None, [3, 1, 0, 2]), (None, [1, 0, 0, 2, 5, 1]),
]


def enum_cases(quick: bool):
    """Every single pre-emption point (worker step x source line x k) at
    which at least one message is pending for the stepping worker, of the
    fixed program under a few base schedules.  The base run is executed first
    to find those steps and their line counts."""
    from vt.simrt.sim import Sim, make_root_task, SimSignal
    from bqskit.runtime.message import RuntimeMessage as M
    logging.disable(logging.CRITICAL)
    spec = sc.normalise(ENUM_PROG)
    for policy, sched in (ENUM_BASES[:4] if quick else ENUM_BASES):
        for nw in (2, 3):
            P.reset()
            sim = Sim({'workers': nw}, sched, policy=policy)
            try:
                comp = sim.compiler()
                task = make_root_task(spec)
                comp._send(M.SUBMIT, task)
                comp.result(task.task_id)
                sim.drain()
            except (SimSignal, RuntimeError):
                pass
            finally:
                sim.close()
            names = sorted(sim.workers)
            for (w, step, pending) in sim.step_info:
                if pending == 0:
                    continue
                for line in range(0, 100):
                    for k in range(1, min(pending, 2 if quick else 3) + 1):
                        yield {
                            'k': 'enum', 'topo': {'workers': nw},
                            'sched': sched, 'policy': policy,
                            'inject': [{'w': names.index(w), 'step': step,
                                        'line': line, 'k': k}],
                        }


@st.composite
def cases(draw, quick=True):
    return {
        'prog': draw(sc.programs(3 if quick else 4, 4 if quick else 6)),
        'topo': draw(sc.topologies),
        'sched': draw(sc.schedules),
        'policy': draw(st.sampled_from([None, None, 'lazy_recv',
                                        'eager_recv'])),
        'inject': draw(sc.injections),
        'rinject': draw(sc.rinjections),
    }


L = {'t': 'leaf'}
RENUM_PROGS = [
    # a map whose results arrive both locally (main thread) and from other
    # workers (incoming thread), followed by further awaits
    {'t': 'seq', 'order': [0, 1], 'kids': [
        {'t': 'map', 'kids': [L, L, L]}, L]},
    {'t': 'seq', 'order': [1, 0], 'kids': [
        L, {'t': 'mapnext', 'kids': [L, L, L]}]},
]


def renum_cases(quick: bool):
    """every point of a RESULT handler at which the worker's main thread
    takes a step (finishing a local child, stepping the parent)"""
    return sc.enum_rpreemptions(
        RENUM_PROGS, ENUM_BASES[:4] if quick else ENUM_BASES,
        (2,) if quick else (2, 3), names=('RESULT',))


def run_shard(ctx: core.Ctx) -> core.ShardResult:
    res = core.ShardResult()
    quick = ctx.tier == 'quick'
    done = core.run_enumeration(ctx, res, enum_cases(quick), check)
    res.extra['exhaustive_single_preemption_complete'] = bool(done)
    done = core.run_enumeration(ctx, res, renum_cases(quick), check)
    res.extra['main_step_inside_result_handler_enumeration_complete'] = \
        bool(done)
    core.run_hypothesis(ctx, res, cases(quick), check, ctx.n(250, 8000))
    return res
