"""C04 - Circuit editing calls have their documented effect on program order."""
from __future__ import annotations

from vt import core
from vt.props import circmachine as cm

ID = 'C04'
LEVEL = 'exploration'
RULE = (
    'cases: histories (lists of 1..40 quick / 1..80 thorough steps) over the '
    'public Circuit editing alphabet (append/insert/pop/replace and gate, '
    'circuit and batch variants, remove, pop_cycle, qudit insert/pop/renumber, '
    'fold/straighten on regions of three kinds, unfold variants, compress, '
    'copy/become, + * += *=, inverse, set_params, freeze_param) starting from '
    'an empty circuit of 1-5 (thorough 1-7) qudits with radixes from {2,3,4}; '
    'every argument is a selector resolved against the current state, incl. '
    'negative and out-of-range cycle/qudit indices. Non-trivial: >= 3 '
    'successful mutating calls, >= 1 of them not an append, circuit non-empty '
    'at the end. Distinct = sha1 of the JSON history.'
)
ASSUMPTIONS = [
    'the top-level grid read through num_cycles/is_point_idle/__getitem__ is '
    'the primary view (its self-consistency is C05\'s business); the expected '
    'program after a call is computed from the pre-call grid and the '
    'documented effect of the call only',
    'gate matrices come from Gate.get_unitary (C18)',
]
SHARDS = {'quick': 16, 'thorough': 16}
BUDGET_S = {'quick': 200, 'thorough': 2400}

APPENDS = {'append', 'append_gate', 'extend', 'append_circuit'}


def check(case) -> core.Outcome:
    out = core.Outcome()
    it = cm.Interp(out, want_trace=True, want_views=False, want_unitary=True)
    c = it.run(case)
    out.nontrivial = (
        it.nmut >= 3 and bool(it.kinds - APPENDS)
        and c is not None and c.num_operations > 0
    )
    for k in sorted(it.kinds):
        out.label('did:' + k)
    out.evals = max(1, it.nmut)
    return out


replay = check


def run_shard(ctx: core.Ctx) -> core.ShardResult:
    res = core.ShardResult()
    quick = ctx.tier == 'quick'
    excl = tuple(
        n for n in cm.WEIGHTS
        if ctx.is_known(f'excl:{n}')
    )
    strat = cm.histories(
        max_steps=40 if quick else 80, max_n=5 if quick else 7, exclude=excl,
    )
    core.run_hypothesis(ctx, res, strat, check, ctx.n(350, 2500))
    return res
