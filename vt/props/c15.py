"""C15 - scheduler bookkeeping stays in bounds and assigns every task exactly
once."""
from __future__ import annotations

import logging

from hypothesis import strategies as st

from vt import core
from vt.core import Outcome
from vt.props import simcommon as sc
from vt.simrt import programs as P

ID = 'C15'
LEVEL = 'exploration'
RULE = (
    'cases: (task program with wide maps - fan-out up to 8 quick / 12 '
    'thorough, i.e. below, equal to and above the number of idle workers - '
    'optionally with cancellation nodes, topology of 1-4 workers or 1-3 '
    'managers x 1-3 workers, schedule + delivery policy, seed for the '
    'scheduler\'s own random choices). After EVERY simulator action the '
    'per-employee and per-node counters are checked against their bounds; at '
    'the end every created task must have been put on exactly one employee '
    'channel per level and received by exactly one worker; at quiescence a '
    'server managing workers directly must believe all idle with zero tasks. '
    'Non-trivial: >= 1 WAITING was handled while the boss had sent a batch '
    'newer than its read receipt (crossing), or a batch was larger than the '
    'idle count. Distinct = sha1 of the JSON case.'
)
ASSUMPTIONS = [
    'channel model: reliable FIFO per direction; message handlers atomic',
    'ground truth for "assigned once" is the log of messages put on channels',
]
SHARDS = {'quick': 16, 'thorough': 16}
BUDGET_S = {'quick': 200, 'thorough': 2400}


@sc.abandon_safe
def check(case) -> Outcome:
    from vt.simrt.sim import Abandon, Hang, Sim, StepBound, make_root_task
    from bqskit.runtime.message import RuntimeMessage as M
    logging.disable(logging.CRITICAL)
    out = Outcome()
    spec = sc.normalise(case['prog'])
    has_cancel = P.has_kind(spec, ('mapcancel', 'subcancel', 'forget'))
    P.reset()
    sim = Sim(case['topo'], case['sched'], policy=case.get('policy'),
              rseed=case.get('rseed', 0))
    sim.rinject = sc.resolve_rinjections(case.get('rinject', []),
                                         sorted(sim.workers))
    crossing = [0]
    oversize = [0]
    bound_fail = []
    belief_fail = []
    try:
        nodes = [('S', sim.server)] + sorted(sim.managers.items())

        # observe WAITING handling (read-only) to classify crossings
        def wrap_waiting(node):
            orig = node.handle_waiting

            def wrapped(conn, new_idle, receipt):
                e = node.conn_to_employee_dict[conn]
                cache = list(e.submit_cache)
                if receipt is None:
                    un = sum(c for _, c in cache)
                else:
                    idx = [i for i, (a, _) in enumerate(cache) if a == receipt]
                    un = sum(c for _, c in cache[idx[0] + 1:]) if idx else -1
                if un > 0:
                    crossing[0] += 1
                ret = orig(conn, new_idle, receipt)
                # the read receipt exists so that the boss's idle belief is
                # right (handle_waiting docstring): for a directly managed
                # worker it must now be 1 exactly when every task message
                # sent to it so far had been taken in when it said WAITING
                wname = getattr(conn, 'peer', None)
                if not e.is_manager and wname in sim.workers and \
                        sim.waiting_snaps[wname] and not belief_fail:
                    k = sim.waiting_snaps[wname].popleft()
                    me = conn.owner
                    K = sum(1 for (a, b, nm, _) in sim.msg_log
                            if a == me and b == wname
                            and nm in ('SUBMIT', 'SUBMIT_BATCH'))
                    want = 1 if K == k else 0
                    if e.num_idle_workers != want:
                        belief_fail.append((
                            'idle_belief_wrong_after_waiting',
                            f'{me} believes {wname} idle='
                            f'{e.num_idle_workers} after WAITING(receipt='
                            f'{receipt}); it had sent {K} task messages, '
                            f'the worker had taken in {k} when it sent '
                            f'WAITING'))
                return ret
            node.handle_waiting = wrapped

        def wrap_schedule(node):
            orig = node.schedule_tasks

            def wrapped(tasks):
                if len(tasks) > node.num_idle_workers:
                    oversize[0] += 1
                return orig(tasks)
            node.schedule_tasks = wrapped
        for _, nd in nodes:
            wrap_waiting(nd)
            wrap_schedule(nd)

        def bounds(sim_, act):
            if bound_fail:
                return
            for name, nd in nodes:
                if not nd.running:
                    continue
                if not (0 <= nd.num_idle_workers <= nd.total_workers):
                    bound_fail.append((
                        'node_idle_out_of_bounds',
                        f'{name}: {nd.num_idle_workers} of {nd.total_workers} '
                        f'after {act}'))
                for e in nd.employees:
                    if e.num_tasks < 0:
                        bound_fail.append((
                            'employee_num_tasks_negative',
                            f'{name}/{e.id}: {e.num_tasks} after {act}'))
                    if not (0 <= e.num_idle_workers <= e.total_workers):
                        bound_fail.append((
                            'employee_idle_out_of_bounds',
                            f'{name}/{e.id}: {e.num_idle_workers} of '
                            f'{e.total_workers} after {act}'))
        sim.hooks.append(bounds)

        comp = sim.compiler()
        task = make_root_task(spec)
        try:
            comp._send(M.SUBMIT, task)
            res = comp.result(task.task_id)
            sim.drain()
        except Hang:
            out.fail('hang|client_blocked_at_quiescence',
                     f'trace tail {sim.trace[-8:]}')
            return out
        except StepBound:
            out.label('step-bound')
            return out
        except Abandon:
            out.label('inconclusive:interleaving-not-continuable')
            return out
        except RuntimeError as e:
            sig, det = sc.client_error(e)
            out.fail(sig, det)
            return out
        for sig, det in bound_fail[:1] + belief_fail[:1]:
            out.fail(sig, det)
        d = P.value_matches(P.expected(spec), res[1]['res'])
        if d is not None:
            out.fail('wrong_value', d)

        # ---- assigned exactly once, per level
        created = set()
        down_to_worker: dict = {}
        down_per_level: dict = {}
        for sender, recv, name, payload in sim.msg_log:
            if name not in ('SUBMIT', 'SUBMIT_BATCH'):
                continue
            tasks = payload if isinstance(payload, list) else [payload]
            ids = [tuple(t.return_address) for t in tasks
                   if hasattr(t, 'return_address')]
            if sender.startswith('W'):
                created.update(ids)
            upward = sender.startswith('W') or (
                sender.startswith('M') and recv == 'S')
            if upward:
                continue
            for i in ids:
                created.add(i)
                key = (sender, i)
                down_per_level[key] = down_per_level.get(key, 0) + 1
                if recv.startswith('W'):
                    down_to_worker[i] = down_to_worker.get(i, 0) + 1
        for key, n in down_per_level.items():
            if n != 1:
                out.fail('task_forwarded_twice_by_one_node', f'{key} x{n}')
                break
        for i in created:
            n = down_to_worker.get(i, 0)
            if n != 1:
                out.fail('task_not_assigned_to_exactly_one_worker',
                         f'{i} reached {n} workers')
                break

        # ---- quiescence
        s = sim.server
        flat = 'workers' in case['topo']
        truly_idle = all(
            w._ready_task_ids.parked and not w._ready_task_ids.q
            and not w._delayed_tasks for w in sim.workers.values()
        )
        if not truly_idle:
            out.fail('quiescent_but_worker_not_idle', '')
        if flat and s.running:
            suffix = '|with_cancel' if has_cancel else ''
            if s.num_idle_workers != s.total_workers:
                out.fail('quiescent_server_idle_count' + suffix,
                         f'{s.num_idle_workers} of {s.total_workers}')
            for e in s.employees:
                if e.num_idle_workers != 1:
                    out.fail('quiescent_employee_idle' + suffix,
                             f'worker {e.id}: {e.num_idle_workers}')
                    break
            for e in s.employees:
                if e.num_tasks != 0:
                    out.fail('quiescent_num_tasks' + suffix,
                             f'worker {e.id}: num_tasks {e.num_tasks}')
                    break
        elif not flat:
            for name, mg in sim.managers.items():
                suffix = '|with_cancel' if has_cancel else ''
                if mg.num_idle_workers != mg.total_workers:
                    out.fail('quiescent_manager_idle_count' + suffix,
                             f'{name}: {mg.num_idle_workers}')
                    break
                if any(e.num_tasks != 0 for e in mg.employees):
                    if has_cancel:
                        # same root cause as the open finding on the server;
                        # the property's quiescence clause names the server
                        out.label('manager-counter-drift-after-cancel')
                    else:
                        out.fail('quiescent_manager_num_tasks',
                                 f'{name}: '
                                 f'{[e.num_tasks for e in mg.employees]}')
                    break
            if any(e.num_tasks != 0 for e in s.employees):
                out.label('hierarchy:server-counter-drift')   # not claimed
        out.nontrivial = crossing[0] > 0 or oversize[0] > 0
        if crossing[0]:
            out.label('crossing')
        if oversize[0]:
            out.label('batch>idle')
        out.label('with-cancel' if has_cancel else 'no-cancel')
        out.label('topology:flat' if flat else 'topology:managers')
        return out
    finally:
        sim.close()


replay = check


@st.composite
def cases(draw, quick=True):
    fan = 8 if quick else 12
    with_cancel = draw(st.integers(0, 3)) == 0
    kinds = ('seq', 'map', 'mapnext') + (
        ('mapcancel', 'subcancel') if with_cancel else ())
    prog = draw(sc.programs(3, fan, kinds=kinds))

    def nowait(n):
        n = dict(n)
        if n['t'] == 'subcancel':
            n['wait'] = False
            n['kid'] = nowait(n['kid'])
        if 'kids' in n:
            n['kids'] = [nowait(k) for k in n['kids']]
        return n
    return {
        'prog': nowait(prog),
        'topo': draw(sc.topologies),
        'sched': draw(sc.schedules),
        'policy': draw(st.sampled_from([None, None, 'lazy_recv',
                                        'eager_recv'])),
        'rseed': draw(st.integers(0, 10**6)),
        'rinject': draw(sc.rinjections),
    }


L = {'t': 'leaf'}
ENUM_PROGS = [
    {'t': 'map', 'kids': [L] * 5},
    {'t': 'seq', 'order': [0, 0], 'kids': [
        {'t': 'map', 'kids': [L, L, L]}, {'t': 'map', 'kids': [L, L]}]},
    {'t': 'map', 'kids': [{'t': 'map', 'kids': [L, L]}, L, L]},
]
ENUM_BASES = [
    (None, [0]), (None, [3, 1, 0, 2]), ('lazy_recv', [1, 0]),
    (None, [1, 0, 0, 2, 5, 1]), ('eager_recv', [0, 1]),
]


def enum_cases(quick):
    return sc.enum_rpreemptions(
        ENUM_PROGS, ENUM_BASES[:3] if quick else ENUM_BASES,
        (2,) if quick else (2, 3))


def run_shard(ctx: core.Ctx) -> core.ShardResult:
    res = core.ShardResult()
    done = core.run_enumeration(ctx, res, enum_cases(ctx.tier == 'quick'),
                                check)
    res.extra['main_step_inside_submit_handler_enumeration_complete'] = \
        bool(done)
    core.run_hypothesis(ctx, res, cases(ctx.tier == 'quick'), check,
                        ctx.n(200, 6000))
    return res
