"""C08 - partitioning regroups operations without changing the program.

Case (JSON):
  {"p": <partitioner>, "bs": block size, "n": width, "radix": 2|3,
   "ops": [[name, [loc...]] | [name, [loc...], [params...]]
           | ["blk", [loc...], [sub-ops on local qudits 0..k-1]]],
   "seed": S            # np.random seed (ClusteringPartitioner draws points)
   "pts": P             # ClusteringPartitioner num_points
   "min": M             # ExtendBlockSizePass minimum size (arm "QuickExtend")
   "model": {"edges": [[u,v]..], "remote": [[u,v]..]}   # GTQCP/TDAG PassData
   "x": k               # the arm was drawn under k known-finding restrictions
   "expect": "reject"}  # documented-rejection case (gate wider than block)
  or, for the rich arm, "spec": <vt.gen.specs circuit spec> instead of
  n/radix/ops.

Gate names of the compact form are the keys of ``_QUBIT``/``_QUTRIT`` plus
the placeholders ``bar`` (barrier), ``meas`` (measurement, qubits only) and
``reset``.
"""
from __future__ import annotations

import numpy as np
from hypothesis import strategies as st

from vt import core
from vt.core import Outcome
from vt.gen import specs as S
from vt.oracle import refsim

ID = 'C08'
LEVEL = 'exploration'
RULE = (
    'cases: Hypothesis-drawn circuits of width 2-20 over cheap library gates '
    '(H,X,T,S,SX,RZ,RY,U3 / CX,CZ,SWAP,CP,RZZ / CCX,CCP / RC3X; qutrit: '
    'H,Shift,Clock,U8 / CSUM,SWAP / CC-Shift) with barriers, measurements, '
    'resets and pre-folded CircuitGate blocks: (a) op-by-op drawn circuits of '
    '<= 40 ops, (b) seeded expansions of 20-300 ops (uniform or windowed '
    'locations; the op list is explicit in the case and a shorter length is a '
    'prefix), (c) vt.gen.specs rich circuits (mixed radix, wrappers, constant '
    'unitaries, nested blocks) of <= 5 qudits, (d) ten fixed minimal '
    'reproducers of the confirmed findings, once per shard; block size 2-6; '
    'partitioner drawn from Quick (weight 5), Scan, Clustering (np.random '
    'seeded from the case), Greedy, GroupSingleQuditGate, Quick followed by '
    'ExtendBlockSize (each stage judged on its own), GTQCP and TDAG (PassData '
    'carrying a MachineModel with remote edges). Arms that document "no gate '
    'wider than the block" (Scan, Clustering, GTQCP, TDAG) draw no operation '
    'wider than the block; a separate family feeds them one and accepts only '
    'the documented exception type (or a correct partition). Restrictions: '
    'no 7/8-qutrit circuits (PassData allocates a dim^2 identity); the '
    'surround-based arms get <= 24/16/16 (Greedy) and <= 40/40/16 '
    '(Clustering) ops at block size 4/5/6. For every open known finding '
    'the arm concerned draws '
    'no trigger (counted as excluded). Non-trivial: >= 3 blocks in the '
    'output and >= 1 block with >= 2 operations (rejection family: the '
    'documented exception was raised). Distinct = sha1 of the JSON case. '
    'Redundant numeric check for total dimension <= 1024: unitary when '
    'ops*dim^2 <= 2e6 else 3 seeded random states, max-abs tolerance 1e-9. '
    'A pass run that uses more than 120 s of CPU time is a violation.'
)
ASSUMPTIONS = [
    'Circuit.append_gate / point indexing (circuit[cycle, qudit], '
    'is_point_idle, num_cycles) are correct (C04/C05); the output is read '
    'through the grid only, never through the DAG iterator or unfold_all',
    'gate equality of non-CircuitGate gates is structural (CircuitGate '
    'equality is never used: blocks are always compared fully flattened)',
    'per-qudit projections determine the program (dependence = shares a '
    'qudit)',
    'gate matrices come from the gate itself (C18); numpy tensordot is '
    'correct',
    'the passes under test do not read PassData.target (the PassData is built '
    'from a same-shaped placeholder circuit to keep the target lazy)',
]
SHARDS = {'quick': 16, 'thorough': 16}
BUDGET_S = {'quick': 170, 'thorough': 2400}

TOL = 1e-9
CPU_LIMIT_S = 120.0   # per pass run; slower runs are abandoned as inconclusive
PARTITIONERS = [
    'QuickPartitioner', 'ScanPartitioner', 'ClusteringPartitioner',
    'GreedyPartitioner', 'GroupSingleQuditGatePass', 'QuickExtend',
    'GTQCPartitioner', 'TDAGPartitioner',
]
# arms whose documentation excludes gates wider than the block size
NO_WIDE = {
    'ScanPartitioner', 'ClusteringPartitioner', 'GTQCPartitioner',
    'TDAGPartitioner',
}
# documented exception type for a gate wider than the block
REJECT_TYPE = {
    'ScanPartitioner': RuntimeError, 'GTQCPartitioner': RuntimeError,
    'TDAGPartitioner': RuntimeError, 'ClusteringPartitioner': ValueError,
}

# name -> (class name, ctor args, arity, num_params)
_QUBIT = {
    'h': ('HGate', (), 1, 0), 'x': ('XGate', (), 1, 0),
    't': ('TGate', (), 1, 0), 's': ('SGate', (), 1, 0),
    'sx': ('SXGate', (), 1, 0), 'rz': ('RZGate', (), 1, 1),
    'ry': ('RYGate', (), 1, 1), 'u3': ('U3Gate', (), 1, 3),
    'cx': ('CXGate', (), 2, 0), 'cz': ('CZGate', (), 2, 0),
    'swap': ('SwapGate', (), 2, 0), 'cp': ('CPGate', (), 2, 1),
    'rzz': ('RZZGate', (), 2, 1),
    'ccx': ('CCXGate', (), 3, 0), 'ccp': ('CCPGate', (), 3, 1),
    'rc3x': ('RC3XGate', (), 4, 0),
}
_QUTRIT = {
    'h': ('HGate', (3,), 1, 0), 'x': ('ShiftGate', (3,), 1, 0),
    't': ('ClockGate', (3,), 1, 0), 'u8': ('U8Gate', (), 1, 8),
    'cx': ('CSUMGate', (3,), 2, 0), 'swap': ('SwapGate', (3,), 2, 0),
    'ccx': ('__ccshift3__', (), 3, 0),
}
_PLACEHOLDERS = ('bar', 'meas', 'reset')
_gate_cache: dict = {}


def _table(radix: int) -> dict:
    return _QUBIT if radix == 2 else _QUTRIT


def _names(radix: int, k: int, param=None) -> list:
    return [
        nm for nm, (_, _, a, p) in _table(radix).items()
        if a == k and (param is None or (p > 0) == param)
    ]


def _gate(name: str, radix: int, k: int):
    key = (name, radix, k if name in _PLACEHOLDERS else 0)
    g = _gate_cache.get(key)
    if g is not None:
        return g
    import bqskit.ir.gates as G
    if name == 'bar':
        g = G.BarrierPlaceholder(k, [radix] * k)
    elif name == 'meas':
        g = G.MeasurementPlaceholder(
            [('c', k)], {i: ('c', i) for i in range(k)},
        )
    elif name == 'reset':
        g = G.Reset(radix)
    else:
        cls, args, _, _ = _table(radix)[name]
        if cls == '__ccshift3__':
            g = G.ControlledGate(G.ShiftGate(3), 2, [3, 3])
        else:
            g = getattr(G, cls)(*args)
    _gate_cache[key] = g
    return g


# ------------------------------------------------------------------ building
class _Op:
    __slots__ = ('gate', 'loc', 'params', 'sub', 'ph')

    def __init__(self, gate, loc, params, sub=None, ph=False):
        self.gate = gate        # None for a block (built from sub)
        self.loc = tuple(loc)
        self.params = tuple(float(p) for p in params)
        self.sub = sub          # list[_Op] on local qudits, for blocks
        self.ph = ph


def _compact_ops(ops, radix: int) -> list:
    out = []
    for o in ops:
        name, loc = o[0], list(o[1])
        if name == 'blk':
            out.append(_Op(None, loc, (), _compact_ops(o[2], radix)))
        elif name in _PLACEHOLDERS:
            out.append(_Op(_gate(name, radix, len(loc)), loc, (), None, True))
        else:
            out.append(
                _Op(_gate(name, radix, 0), loc, o[2] if len(o) > 2 else ()),
            )
    return out


def _spec_ops(spec: dict) -> list:
    out = []
    for o in spec['ops']:
        g = o['gate']
        if g['g'] == 'CircuitGate':
            # the block's program is its sub-ops with their own parameters
            # (the op-level "params" of the spec is not used: _build passes
            # the sub-circuit's own parameter vector)
            out.append(_Op(None, o['loc'], (), _spec_ops(g['circ'])))
        else:
            out.append(_Op(
                S.build_gate(g), o['loc'], o.get('params', []), None,
                S.is_placeholder(g),
            ))
    return out


def _radixes(case) -> list:
    if 'spec' in case:
        return list(case['spec']['radixes'])
    return [case['radix']] * case['n']


def _case_ops(case) -> list:
    if 'spec' in case:
        return _spec_ops(case['spec'])
    return _compact_ops(case['ops'], case['radix'])


def _build(radixes, ops):
    """Build a fresh Circuit from the op list (blocks become CircuitGates)."""
    from bqskit.ir.circuit import Circuit
    from bqskit.ir.gates.circuitgate import CircuitGate
    c = Circuit(len(radixes), radixes)
    for o in ops:
        if o.sub is not None:
            sub = _build([radixes[q] for q in o.loc], o.sub)
            c.append_gate(CircuitGate(sub), list(o.loc), list(sub.params))
        else:
            c.append_gate(o.gate, list(o.loc), list(o.params))
    return c


def _flat_ref(ops, loc_map=None) -> list:
    """Reference flat program straight from the case (list order)."""
    out = []
    for o in ops:
        loc = o.loc if loc_map is None else tuple(loc_map[q] for q in o.loc)
        if o.sub is not None:
            out.extend(_flat_ref(o.sub, loc))
        else:
            out.append((o.gate, loc, o.params, o.ph))
    return out


# ------------------------------------------------------------ reading output
def _is_cg(gate) -> bool:
    return type(gate).__name__ == 'CircuitGate'


def _walk(circuit, loc_map, depth, top, out) -> None:
    """Append (gate, global loc, params, is_placeholder, depth, top index) of
    the fully unfolded circuit in grid order (CircuitGates expanded in
    place); ``top`` is the index of the enclosing top-level operation."""
    for i, (_, op) in enumerate(refsim.grid_ops(circuit)):
        loc = tuple(op.location) if loc_map is None else tuple(
            loc_map[q] for q in op.location
        )
        t = i if depth == 0 else top
        if _is_cg(op.gate):
            sub = op.gate._circuit.copy()
            sub.set_params(op.params)
            _walk(sub, loc, depth + 1, t, out)
        else:
            out.append((
                op.gate, loc, tuple(float(p) for p in op.params),
                refsim.is_placeholder(op), depth, t,
            ))


def _projections(flat, n: int) -> list:
    proj = [[] for _ in range(n)]
    for i, k in enumerate(flat):
        for q in k[1]:
            proj[q].append(i)
    return proj


def _same(a, b) -> bool:
    """Same operation: gate, location and bit-identical parameters."""
    return a[1] == b[1] and a[2] == b[2] and a[0] == b[0]


def _s(k) -> str:
    return f'{getattr(k[0], "name", k[0])}@{list(k[1])}{list(k[2])[:3]}'


def _hkey(k) -> tuple:
    return (type(k[0]).__name__, k[1], k[2])


def _numeric(radixes, ref, got, seed: int):
    """Max abs difference between the two flat programs as unitaries (or on
    seeded random states when the unitary is too expensive)."""
    dim = int(np.prod(radixes))
    a = [
        (np.asarray(g.get_unitary(list(p)).numpy), list(l))
        for g, l, p, ph in ref if not ph
    ]
    b = [
        (np.asarray(k[0].get_unitary(list(k[2])).numpy), list(k[1]))
        for k in got if not k[3]
    ]
    if max(len(a), len(b)) * dim * dim <= 2e6:
        return float(np.abs(
            refsim.unitary_of_ops(radixes, a)
            - refsim.unitary_of_ops(radixes, b),
        ).max()) if dim > 1 else 0.0
    rng = np.random.default_rng(seed)
    worst = 0.0
    for _ in range(3):
        v = rng.normal(size=dim) + 1j * rng.normal(size=dim)
        v /= np.linalg.norm(v)
        d = np.abs(
            refsim.statevector(radixes, a, v)
            - refsim.statevector(radixes, b, v),
        ).max()
        worst = max(worst, float(d))
    return worst


# ------------------------------------------------------------------- running
def _drive(p, circuit, data) -> None:
    coro = p.run(circuit, data)
    try:
        coro.send(None)
    except StopIteration:
        return
    except core.HarnessError:
        raise
    except Exception as e:
        e._c08_stage = type(p).__name__     # the pass that raised
        raise
    raise core.HarnessError(f'{type(p).__name__} awaited the runtime')


# input feature appended to a run| signature, per message: the trigger of the
# finding known under that message, so that the same message raised without
# the trigger (another root cause) gets a signature of its own
_RUN_FEATURE = {
    'unable-to-process-all': lambda f: 'ph2' if f['ph2'] else 'noph2',
    'region-goes-off-circuit': lambda f: 'bs>n' if f['bs>n'] else 'bs<=n',
    'unable-to-topologically-sort':
        lambda f: 'narrow' if f['narrow'] else 'general',
}


def _run_sig(name: str, e: BaseException, feat: dict) -> str:
    """run|<pass that raised>|<exception type>|<innermost bqskit frame>, and
    for the exceptions bqskit raises itself |<first words of the message>
    (numbers dropped) and, where one is defined, |<input feature>."""
    import re
    stage = getattr(e, '_c08_stage', name)
    sig = core.exc_sig(f'run|{stage}', e)
    if type(e) in (ValueError, RuntimeError):
        slug = '-'.join(re.findall(r'[a-z]+', str(e).lower())[:4])
        sig += '|' + slug
        if slug in _RUN_FEATURE:
            sig += '|' + _RUN_FEATURE[slug](feat)
    return sig


def _pass_data(case, circuit):
    """PassData for the run.  ``PassData(circuit)`` eagerly computes the
    unitary of circuits of <= 8 qudits (6561 x 6561 for 8 qutrits); none of
    the passes under test reads the target, so the data is built from a
    same-shaped circuit holding one Reset, which keeps the target lazy."""
    from bqskit.compiler.passdata import PassData
    from bqskit.ir.circuit import Circuit
    from bqskit.ir.gates import Reset
    proxy = Circuit(circuit.num_qudits, circuit.radixes)
    proxy.append_gate(Reset(circuit.radixes[0]), [0])
    data = PassData(proxy)
    m = case.get('model')
    if m:
        from bqskit.compiler.machine import MachineModel
        from bqskit.qis.graph import CouplingGraph
        cg = CouplingGraph(
            [tuple(e) for e in m['edges']], circuit.num_qudits,
            remote_edges=[tuple(e) for e in m['remote']],
        )
        data.model = MachineModel(
            circuit.num_qudits, cg, radixes=circuit.radixes,
        )
    return data


def _stages(case) -> list:
    """(stage name, pass, width limit of the blocks it may produce)."""
    import warnings
    import bqskit.passes as P
    name, bs = case['p'], case['bs']
    with warnings.catch_warnings():
        warnings.simplefilter('ignore')     # GreedyPartitioner: deprecated
        if name == 'ClusteringPartitioner':
            return [(name, P.ClusteringPartitioner(bs, case['pts']), bs)]
        if name == 'GroupSingleQuditGatePass':
            return [(name, P.GroupSingleQuditGatePass(), 1)]
        if name == 'QuickExtend':
            return [
                ('QuickPartitioner', P.QuickPartitioner(bs), bs),
                ('ExtendBlockSizePass', P.ExtendBlockSizePass(case['min']),
                 max(bs, case['min'])),
            ]
        return [(name, getattr(P, name)(bs), bs)]


class _Timeout(BaseException):
    """CPU-time limit of one pass run exceeded (not an Exception, so that no
    handler inside the code under test can swallow it)."""


def _on_timer(signum, frame):
    raise _Timeout()


def _run_stage(case, p, circuit, data) -> None:
    """Run one pass under a CPU-time limit (process virtual time, so machine
    load cannot trip it); the limit is only armed in a main thread."""
    import signal
    import warnings
    armed = False
    try:
        old = signal.signal(signal.SIGVTALRM, _on_timer)
        signal.setitimer(signal.ITIMER_VIRTUAL, CPU_LIMIT_S)
        armed = True
    except ValueError:
        pass
    try:
        with warnings.catch_warnings():
            warnings.simplefilter('ignore')
            if type(p).__name__ != 'ClusteringPartitioner':
                return _drive(p, circuit, data)
            # the pass draws its points from numpy's global generator
            state = np.random.get_state()
            np.random.seed(case['seed'] & 0x7FFFFFFF)
            try:
                _drive(p, circuit, data)
            finally:
                np.random.set_state(state)
    finally:
        if armed:
            signal.setitimer(signal.ITIMER_VIRTUAL, 0)
            signal.signal(signal.SIGVTALRM, old)


def _features(case, ops, flat) -> dict:
    n = len(_radixes(case))
    return {
        'has3q': any(len(k[1]) == 3 and not k[3] for k in flat),
        'wide': any(len(o.loc) > case['bs'] and not o.ph for o in ops),
        'ph': any(k[3] for k in flat),
        'blk': any(o.sub is not None for o in ops),
        'bs>n': case['bs'] > n,
        # a barrier/measurement on >= 2 qudits
        'ph2': any(k[3] and len(k[1]) >= 2 for k in flat),
        # GreedyPartitioner: no two maximal regions can overlap
        'narrow': case['bs'] == 2 and all(len(o.loc) >= 2 for o in ops),
    }


def _judge(name, limit, case, circuit, radixes, ops, ref, feat, out) -> dict:
    """Compare the circuit left by pass ``name`` with the reference program
    ``ref``; violations go to ``out`` under signatures carrying ``name``."""
    n = len(radixes)
    bs = case['bs']
    info = {'ok': False, 'blocks': []}
    if tuple(circuit.radixes) != tuple(radixes):
        out.fail(f'radixes|{name}', f'{circuit.radixes} != {radixes}')
        return info
    nv = len(out.violations)
    got: list = []
    _walk(circuit, None, 0, 0, got)
    top = [op for _, op in refsim.grid_ops(circuit)]

    # (4a) no placeholder inside a block
    inside = [k for k in got if k[3] and k[4] > 0]
    if inside:
        out.fail(
            f'placeholder_in_block|{name}',
            f'{_s(inside[0])} is inside a CircuitGate (bs={bs})',
        )

    # (2) multiset of operations, bit-identical parameters
    buckets: dict = {}
    for k in ref:
        buckets.setdefault(_hkey(k), []).append(k[0])
    extra = None
    for k in got:
        lst = buckets.get(_hkey(k), [])
        for j, g in enumerate(lst):
            if g == k[0]:
                lst.pop(j)
                break
        else:
            extra = k
            break
    missing = [(h, gs) for h, gs in buckets.items() if gs]
    ms_ok = extra is None and not missing
    if not ms_ok:
        if extra is not None:
            d = f'output has an extra {_s(extra)}'
        else:
            h, gs = missing[0]
            d = f'output lacks {_s((gs[0], h[1], h[2]))}'
        f = ''
        if name == 'GreedyPartitioner':
            f = '|narrow' if feat['narrow'] else '|general'
        out.fail(
            f'multiset|{name}{f}', f'{d}; {len(ref)} ops in, {len(got)} out',
        )

    # (3) per-qudit projections
    pr, pg = _projections(ref, n), _projections(got, n)
    order_ok = True
    for q in range(n):
        a, b = pr[q], pg[q]
        bad = None
        phb = False
        for i, (x, y) in enumerate(zip(a, b)):
            if not _same(ref[x], got[y]):
                bad = f'position {i}: {_s(ref[x])} became {_s(got[y])}'
                phb = ref[x][3] or got[y][3]
                break
        else:
            if len(a) != len(b):
                bad = f'lengths {len(a)} vs {len(b)}'
        if bad is not None:
            order_ok = False
            if ms_ok:
                if phb:
                    # (4b) an op moved across a barrier/measurement/reset
                    out.fail(
                        f'placeholder_order|{name}', f'qudit {q} {bad}',
                    )
                else:
                    f = 'has3q' if feat['has3q'] else 'no3q'
                    out.fail(f'order|{name}|{f}', f'qudit {q} {bad}')
            break

    # (5) redundant numeric check
    if int(np.prod(radixes)) <= 1024 and ms_ok:
        d = _numeric(radixes, ref, got, case.get('seed', 0))
        if d > TOL:
            if order_ok:
                out.fail(f'unitary|{name}', f'max abs diff {d:.3e}')
        elif not order_ok:
            out.label('reorder-of-commuting-ops')
        info['numeric'] = True

    # (1) block widths
    in_blocks: dict = {}
    for o in ops:
        if o.sub is not None:
            in_blocks.setdefault(tuple(sorted(o.loc)), set()).add(len(o.sub))
    blocks = info['blocks']     # number of direct children per block
    for op in top:
        if not _is_cg(op.gate):
            continue
        kids = [o for _, o in refsim.grid_ops(op.gate._circuit)]
        blocks.append(len(kids))
        widest = max([o.num_qudits for o in kids] + [0])
        w = op.num_qudits
        if w <= max(limit, widest):
            continue
        # an input block wider than the limit that was left as it is
        if len(kids) in in_blocks.get(tuple(sorted(op.location)), ()):
            continue
        out.fail(
            f'width|{name}',
            f'block on {tuple(op.location)} spans {w} > max(limit {limit}, '
            f'widest member {widest})',
        )
    if ref and not top:
        out.fail(f'multiset|{name}', 'empty output')
    info['ok'] = len(out.violations) == nv
    if order_ok and ms_ok and len(blocks) >= 3:
        info['interleaved'] = _interleaved3(ref, got, pr, pg, n)
    return info


def check(case) -> Outcome:
    out = Outcome()
    out.excluded = 1 if case.get('x') else 0
    name, bs = case['p'], case['bs']
    radixes = _radixes(case)
    n = len(radixes)
    ops = _case_ops(case)
    ref = _flat_ref(ops)
    circuit = _build(radixes, ops)
    feat = _features(case, ops, ref)
    out.label('p:' + name)
    reject = case.get('expect') == 'reject'
    if reject:
        out.label('wide-gate-rejection')

    data = _pass_data(case, circuit)
    info: dict = {}
    for stage, p, limit in _stages(case):
        # ---- run the code under test (it rewrites ``circuit`` in place)
        try:
            _run_stage(case, p, circuit, data)
        except core.HarnessError:
            raise
        except _Timeout:
            # a time limit is never a verdict: ScanPartitioner(6) on 19
            # qudits / 296 operations legitimately needs ~6 min of CPU
            out.label(f'inconclusive:cpu-time-limit|{stage}')
            return out
        except Exception as e:
            if reject and isinstance(e, REJECT_TYPE[name]):
                out.nontrivial = True       # the documented rejection
            elif reject:
                out.fail(
                    core.exc_sig(f'reject_type|{name}', e), repr(e)[:300],
                )
            else:
                out.fail(
                    _run_sig(name, e, feat),
                    f'{e!r} n={n} bs={bs} ops={len(ops)}',
                )
            return out
        if reject:
            # no rejection (the random points of Clustering may miss the
            # wide gate): then the result must be a correct partition
            out.label('wide-gate-not-rejected')
        # ---- judge what the pass left, read through the grid
        info = _judge(
            stage, limit, case, circuit, radixes, ops, ref, feat, out,
        )
        if not info['ok']:
            break

    # ---- non-triviality and labels
    blocks = info['blocks']
    out.nontrivial = len(blocks) >= 3 and any(k >= 2 for k in blocks)
    if info.get('numeric'):
        out.label('numeric-checked')
    if info.get('interleaved'):
        out.label('interleaved>=3')
    if feat['ph']:
        out.label('placeholder')
        if any(type(k[0]).__name__ == 'BarrierPlaceholder' for k in ref):
            out.label('barrier')
    if feat['has3q']:
        out.label('3q-gate')
    if feat['wide']:
        out.label('gate-wider-than-block')
    if feat['blk']:
        out.label('blocked-input')
    if feat['bs>n']:
        out.label('bs>width')
    if any(r != 2 for r in radixes):
        out.label('qutrit' if len(set(radixes)) == 1 else 'mixed-radix')
    out.label('w<=5' if n <= 5 else 'w6-12' if n <= 12 else 'w13-20')
    out.label(
        'ops<=20' if len(ref) <= 20 else 'ops21-100' if len(ref) <= 100
        else 'ops>100',
    )
    return out


def _interleaved3(ref, got, pr, pg, n) -> bool:
    """True if three or more multi-operation output blocks are pairwise
    chained by 'overlap in input time and share a qudit' (the situation the
    dependency-blocking logic of QuickPartitioner exists for).  Input time is
    the as-soon-as-possible cycle computed here from the case's op list."""
    free = [0] * n
    cyc = []
    for k in ref:
        c = max(free[q] for q in k[1])
        cyc.append(c)
        for q in k[1]:
            free[q] = c + 1
    # identify output ops with input ops through the (equal) projections
    span: dict = {}
    for q in range(n):
        for x, y in zip(pr[q], pg[q]):
            k = got[y]
            if k[4] == 0:
                continue
            s = span.setdefault(k[5], [cyc[x], cyc[x], set(), set()])
            s[0] = min(s[0], cyc[x])
            s[1] = max(s[1], cyc[x])
            s[2].add(q)
            s[3].add(y)
    blocks = [s for s in span.values() if len(s[3]) >= 2]
    m = len(blocks)
    if m < 3:
        return False
    parent = list(range(m))

    def find(i):
        while parent[i] != i:
            parent[i] = parent[parent[i]]
            i = parent[i]
        return i
    for i in range(m):
        for j in range(i + 1, m):
            a, b = blocks[i], blocks[j]
            if a[0] <= b[1] and b[0] <= a[1] and a[2] & b[2]:
                parent[find(i)] = find(j)
    sizes: dict = {}
    for i in range(m):
        r = find(i)
        sizes[r] = sizes.get(r, 0) + 1
    return max(sizes.values()) >= 3


replay = check


# ---------------------------------------------------------------- generators
_PARAMS = st.one_of(
    st.sampled_from(S.SPECIAL_PARAMS),
    st.floats(-2 * S.PI, 2 * S.PI, allow_nan=False, allow_infinity=False),
)

# signatures of the findings confirmed on the unchanged tree (see DEDICATED)
SIG_DUP = 'multiset|GreedyPartitioner|general'
SIG_OFF = (
    'run|{}|ValueError|circuit.py:check_region|region-goes-off-circuit|bs>n'
)
SIG_PENDING = (
    'run|QuickPartitioner|RuntimeError|quick.py:run|unable-to-process-all|ph2'
)
SIG_PH = 'placeholder_in_block|{}'
SIG_TOPO = (
    'run|GreedyPartitioner|RuntimeError|greedy.py:topo_sort|'
    'unable-to-topologically-sort|general'
)


def _avoid(ctx, name: str) -> dict:
    """Triggers of open known findings that the arm ``name`` must not draw."""
    if ctx is None:
        return {}
    return {
        # every circuit in which two maximal regions overlap triggers it;
        # the arm is then confined to block size 2 without single-qudit ops
        'dup': name == 'GreedyPartitioner' and (
            ctx.is_known(SIG_DUP) or ctx.is_known(SIG_TOPO)
        ),
        '3q': ctx.is_known(f'order|{name}|has3q'),
        'ph': ctx.is_known(SIG_PH.format(name)),
        # a barrier/measurement spanning >= 2 qudits is needed to tie a
        # closed bin to a later operation of another bin
        'ph2': name in ('QuickPartitioner', 'QuickExtend')
        and ctx.is_known(SIG_PENDING),
        'bs>n': ctx.is_known(SIG_OFF.format(name)),
    }


def _expand(n, radix, nops, seed, prof) -> list:
    """Deterministic op list from a seed; op i does not depend on nops, so a
    smaller nops gives a prefix.  prof: win (location window, 0 = whole
    register), ph/blk/p4/p3/p1 (probabilities), gw/bw/pw (maximal width of
    gates/blocks/placeholders), q1 (single-qudit ops allowed)."""
    rng = np.random.default_rng(seed)
    tab = _table(radix)
    by_k = {k: _names(radix, k) for k in (1, 2, 3, 4)}
    ops = []
    w = min(n, prof['win']) if prof['win'] else n
    kmin = 1 if prof['q1'] else 2
    for _ in range(nops):
        r = rng.random()
        u = rng.random()
        base = int(rng.integers(0, n))
        perm = rng.permutation(n)
        pv = rng.uniform(-2 * S.PI, 2 * S.PI, size=8)
        pick = int(rng.integers(0, 1 << 30))

        def loc(k, window=True):
            if w == n or not window or k > w:
                return [int(x) for x in perm[:k]]
            start = min(base, n - w)
            return [start + int(x) for x in perm if x < w][:k]
        if r < prof['ph'] and prof['pw'] >= kmin:
            kind = ('bar', 'meas', 'reset')[pick % 3]
            if kind == 'meas' and radix != 2:
                kind = 'bar'
            if kind == 'reset' and kmin > 1:
                kind = 'bar'
            k = 1 if kind == 'reset' else max(
                kmin, 1 + int(u * min(n, prof['pw'])),
            )
            ops.append([kind, loc(min(k, n), window=k <= w)])
            continue
        r -= prof['ph']
        if r < prof['blk'] and prof['bw'] >= kmin:
            k = min(n, prof['bw'], 2 if u < 0.7 else 3 if u < 0.9 else 1)
            k = max(k, kmin)
            sub = _expand(k, radix, 1 + pick % 4, pick, dict(
                prof, ph=0.0, blk=0.0, p4=0.0, win=0, q1=True,
                p3=0.25, gw=k,
            ))
            ops.append(['blk', loc(k), sub])
            continue
        r -= prof['blk']
        gw = min(prof['gw'], n)
        if r < prof['p4'] and gw >= 4 and by_k[4]:
            k = 4
        elif r < prof['p4'] + prof['p3'] and gw >= 3 and by_k[3]:
            k = 3
        elif (u < prof['p1'] and prof['q1']) or gw < 2:
            k = 1
        else:
            k = 2
        nm = by_k[k][pick % len(by_k[k])]
        npar = tab[nm][3]
        o = [nm, loc(k)]
        if npar:
            o.append([float(x) for x in pv[:npar]])
        ops.append(o)
    return ops


@st.composite
def _drawn_ops(draw, n, radix, lim, max_ops):
    """Op-by-op drawn circuit (shrinks well).  lim: gw/bw/pw = maximal width
    of gates/blocks/placeholders (0 = none), q1 = single-qudit ops allowed."""
    tab = _table(radix)
    gw = min(lim['gw'], n)
    kinds = []
    if lim['q1']:
        kinds += ['1', '1']
    if gw >= 2:
        kinds += ['2', '2', '2', '2']
    if gw >= 3:
        kinds += ['3', '3']
    if gw >= 4 and _names(radix, 4):
        kinds += ['4']
    kmin = 1 if lim['q1'] else 2
    if min(lim['pw'], n) >= kmin:
        kinds += ['ph']
    if min(lim['bw'], n) >= kmin:
        kinds += ['blk']
    if not kinds:
        kinds = ['1']
    nops = draw(st.integers(1, max_ops))
    local = draw(st.booleans())
    ops = []
    for _ in range(nops):
        kind = draw(st.sampled_from(kinds))
        if local and n > 4:
            start = draw(st.integers(0, n - 4))
            pool = list(range(start, start + 4))
        else:
            pool = list(range(n))
        if kind == 'ph':
            names = ['bar', 'bar']
            if radix == 2:
                names.append('meas')
            if kmin == 1:
                names.append('reset')
            nm = draw(st.sampled_from(names))
            k = 1 if nm == 'reset' else draw(
                st.integers(kmin, min(lim['pw'], n)),
            )
            loc = draw(st.permutations(
                pool if k <= len(pool) else list(range(n)),
            ))[:k]
            ops.append([nm, list(loc)])
            continue
        if kind == 'blk':
            k = draw(st.integers(kmin, min(3, lim['bw'], n)))
            loc = list(draw(st.permutations(pool))[:k])
            sub = draw(_drawn_ops(
                k, radix, {'gw': k, 'bw': 0, 'pw': 0, 'q1': True}, 4,
            ))
            ops.append(['blk', loc, sub])
            continue
        k = int(kind)
        loc = list(draw(st.permutations(pool))[:k])
        nm = draw(st.sampled_from(_names(radix, k)))
        o = [nm, loc]
        npar = tab[nm][3]
        if npar:
            o.append(draw(st.lists(_PARAMS, min_size=npar, max_size=npar)))
        ops.append(o)
    return ops


@st.composite
def _model(draw, n):
    """A connected coupling graph split into two QPUs by remote edges."""
    cut = draw(st.integers(1, n - 1))
    edges = [[i, i + 1] for i in range(n - 1)]
    extra = draw(st.lists(
        st.tuples(st.integers(0, n - 1), st.integers(0, n - 1)), max_size=4,
    ))
    remote = [[cut - 1, cut]]
    for u, v in extra:
        if u == v:
            continue
        e = [min(u, v), max(u, v)]
        if e not in edges:
            edges.append(e)
        if (e[0] < cut) != (e[1] < cut) and e not in remote:
            remote.append(e)
    return {'edges': edges, 'remote': remote}


# Circuit.surround is an exhaustive search whose cost explodes with the block
# size (80 ops on 4 qubits at block size 4: 90 s); op-count caps per block
# size for the two arms built on it
_SURROUND_CAPS = {
    'GreedyPartitioner': {4: 24, 5: 16, 6: 16},
    'ClusteringPartitioner': {4: 40, 5: 40, 6: 16},
}


def _op_cap(name: str, bs: int) -> int:
    return _SURROUND_CAPS.get(name, {}).get(bs, 300)


def _spec_width(spec) -> int:
    return max([len(o['loc']) for o in spec['ops']] + [0])


@st.composite
def cases(draw, ctx=None, name=None, mode='drawn'):
    """mode: 'drawn' (op-by-op, <= 40 ops), 'big' (seeded expansion, <= 300
    ops) or 'rich' (vt.gen.specs gates, <= 5 qudits)."""
    if name is None:
        name = draw(st.sampled_from(
            ['QuickPartitioner'] * 5 + PARTITIONERS[1:],
        ))
    avoid = _avoid(ctx, name)
    x = 0
    case = {'p': name}
    no_wide = name in NO_WIDE
    if avoid.get('dup') and mode == 'rich':
        mode = 'drawn'      # the rich generator cannot leave out 1-qudit ops
    if mode == 'rich':
        radixes = draw(S.radix_lists(2, 5, 1024))
        n = len(radixes)
    else:
        radix = draw(st.sampled_from([2, 2, 2, 3]))
        n = draw(st.integers(4, 20) if mode == 'big' else st.integers(2, 20))
        if radix == 3 and n in (7, 8):
            # PassData() allocates a dim x dim identity for <= 8 qudits
            n = 6 if n == 7 else 9
    bs = draw(st.sampled_from([2, 3, 3, 3, 4, 4, 5, 6]))
    if bs > n and avoid.get('bs>n'):
        bs = n
        x += 1
    if avoid.get('dup'):
        bs = 2
    # widths: gates / blocks / placeholders
    lim = {'gw': 4, 'bw': 3, 'pw': n, 'q1': True}
    if no_wide:
        # documented domain: no operation wider than the block
        lim = {'gw': min(4, bs), 'bw': min(3, bs), 'pw': bs, 'q1': True}
    if avoid.get('3q'):
        lim['gw'] = min(lim['gw'], 2)
        lim['bw'] = min(lim['bw'], 2)
        x += 1
    if avoid.get('ph'):
        lim['pw'] = 0
        x += 1
    if avoid.get('ph2'):
        lim['pw'] = min(lim['pw'], 1)
        x += 1
    if avoid.get('dup'):
        lim['pw'] = 0
        lim['q1'] = False
        x += 1

    if mode == 'rich':
        spec = draw(S.circuit_specs(
            radixes=radixes, max_ops=14, min_ops=1,
            max_k=min(3, lim['gw']), placeholders=lim['pw'] > 1,
            nested_depth=1 if lim['bw'] >= 3 else 0,
        ))
        case['spec'] = spec
        if no_wide:
            bs = max(bs, _spec_width(spec))     # stays <= 5
    elif mode == 'big':
        prof = dict(
            lim,
            win=draw(st.sampled_from([0, 0, 3, 4, 5, 6])),
            ph=draw(st.sampled_from([0.0, 0.02, 0.05])),
            blk=draw(st.sampled_from([0.0, 0.0, 0.04])),
            p3=draw(st.sampled_from([0.0, 0.05, 0.15])),
            p4=draw(st.sampled_from([0.0, 0.0, 0.03])),
            p1=draw(st.sampled_from([0.2, 0.4, 0.6])),
        )
        prof['pw'] = min(lim['pw'], draw(st.sampled_from([1, 2, 4, 20])))
        nops = draw(st.integers(20, 300))
        nops = min(nops, _op_cap(name, bs))
        seed = draw(st.integers(0, 2**31 - 1))
        case.update(
            n=n, radix=radix, ops=_expand(n, radix, nops, seed, prof),
        )
    else:
        lim['pw'] = min(lim['pw'], 4)
        cap = min(40, _op_cap(name, bs))
        case.update(
            n=n, radix=radix, ops=draw(_drawn_ops(n, radix, lim, cap)),
        )

    case['bs'] = bs
    case['seed'] = draw(st.integers(0, 2**31 - 1))
    if name == 'ClusteringPartitioner':
        case['pts'] = draw(st.sampled_from([1, 2, 4, 8, 16]))
    if name == 'QuickExtend':
        case['min'] = draw(st.integers(2, max(2, min(n, bs + 1))))
    if name in ('GTQCPartitioner', 'TDAGPartitioner'):
        case['model'] = draw(_model(n))
    if x:
        case['x'] = x
    return case


@st.composite
def reject_cases(draw):
    """One gate wider than the block for the arms that document they cannot
    take it."""
    name = draw(st.sampled_from(sorted(NO_WIDE)))
    n = draw(st.integers(4, 8))
    ops = draw(_drawn_ops(
        n, 2, {'gw': 2, 'bw': 0, 'pw': 0, 'q1': True}, 8,
    ))
    bs = draw(st.sampled_from([2, 3]))
    k = bs + 1
    wide = ['ccx' if k == 3 else 'rc3x', list(draw(
        st.permutations(range(n)),
    )[:k])]
    ops.insert(draw(st.integers(0, len(ops))), wide)
    case = {'p': name, 'bs': bs, 'n': n, 'radix': 2, 'ops': ops,
            'seed': draw(st.integers(0, 2**31 - 1)), 'expect': 'reject'}
    if name == 'ClusteringPartitioner':
        case['pts'] = draw(st.sampled_from([1, 4]))
    if name in ('GTQCPartitioner', 'TDAGPartitioner'):
        case['model'] = draw(_model(n))
    return case


# Minimal reproducers of the findings confirmed on the unchanged tree, with
# the signature each one produces.  They run first in every shard, so the
# findings are reported whether or not the random arms are steered away from
# their triggers (and the shrink pass is not spent on them).
def _ded(p, bs, n, ops, **kw) -> dict:
    return dict({'p': p, 'bs': bs, 'n': n, 'radix': 2, 'ops': ops,
                 'seed': 0}, **kw)


_BAR = [['cx', [0, 1]], ['bar', [0, 1]], ['cx', [1, 2]]]
_M2 = {'edges': [[0, 1], [1, 2]], 'remote': [[1, 2]]}
DEDICATED: list = [
    # Circuit.surround ignores its bounding_region argument, so the regions
    # GreedyPartitioner recomputes overlap the ones already chosen: H is
    # emitted in two blocks
    (SIG_DUP, _ded(
        'GreedyPartitioner', 2, 3,
        [['cx', [0, 1]], ['h', [0]], ['cx', [0, 2]]],
    )),
    # the regions GreedyPartitioner selects depend on each other cyclically
    # (still so when surround is made to honour bounding_region)
    (SIG_TOPO, _ded(
        'GreedyPartitioner', 4, 8,
        [['h', [0]], ['ccx', [0, 1, 6]], ['cx', [7, 1]], ['cx', [1, 4]],
         ['cx', [5, 2]], ['ccx', [3, 1, 7]], ['cx', [2, 3]], ['cx', [2, 4]],
         ['cx', [5, 6]]],
    )),
    # block size > width folds {q: (0, num_cycles)}: one cycle too many
    (SIG_OFF.format('GreedyPartitioner'), _ded(
        'GreedyPartitioner', 3, 2, [['h', [0]]],
    )),
    (SIG_OFF.format('ClusteringPartitioner'), _ded(
        'ClusteringPartitioner', 3, 2, [['h', [0]]], pts=1,
    )),
    # the bin {cx(0,1), cx(4,0)} straddles the barrier through the closed
    # qudit 1: blocked qudits are not propagated at a barrier
    (SIG_PENDING, _ded(
        'QuickPartitioner', 3, 5,
        [['cx', [0, 1]], ['ccx', [1, 2, 3]], ['bar', [1, 4]],
         ['cx', [4, 0]]],
    )),
    # these partitioners treat a barrier/measurement/reset as a gate
    (SIG_PH.format('ScanPartitioner'), _ded('ScanPartitioner', 2, 3, _BAR)),
    (SIG_PH.format('ClusteringPartitioner'), _ded(
        'ClusteringPartitioner', 2, 3, _BAR, pts=4,
    )),
    (SIG_PH.format('GreedyPartitioner'), _ded(
        'GreedyPartitioner', 2, 3, _BAR,
    )),
    (SIG_PH.format('GTQCPartitioner'), _ded(
        'GTQCPartitioner', 2, 3, _BAR, model=_M2,
    )),
    (SIG_PH.format('TDAGPartitioner'), _ded(
        'TDAGPartitioner', 2, 3, _BAR, model=_M2,
    )),
]


def run_shard(ctx: core.Ctx) -> core.ShardResult:
    res = core.ShardResult()
    for _, case in DEDICATED:
        res.record(case, check(case))
    plan = [
        (cases(ctx), 230, 4500),
        (cases(ctx, mode='big'), 100, 2300),
        (cases(ctx, mode='rich'), 60, 1000),
        (reject_cases(), 10, 200),
    ]
    for i, (strat, q, t) in enumerate(plan):
        core.run_hypothesis(ctx, res, strat, check, ctx.n(q, t), sub=i)
    return res
