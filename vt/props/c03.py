"""C03 - compile() of a unitary, state or state system reaches its target."""
from __future__ import annotations

import math

import numpy as np
from hypothesis import strategies as st

from vt import core
from vt.core import Outcome
from vt.gen import specs
from vt.oracle import embed
from vt.oracle import refsim
from vt.props import compilecommon as cc

ID = 'C03'
LEVEL = 'exploration'
RULE = (
    'cases: (target, model, optimization_level, seed, workers, schedule). '
    'Targets: unitaries of 1-3 qudits (Haar, permutation, diagonal, identity, '
    'Clifford product, near-identity exp(i eps H)), qubits and qutrits; pure '
    'states (Haar, basis, GHZ, W); state systems of 1..dim orthonormal '
    'pairs; lists of 2-4 mixed targets (pairwise distinguishable, so an '
    'order swap is visible). Models: default, or a generated gate set / '
    'sparse graph / wider machine. The public bqskit.compile is executed on '
    'the simulated runtime. Oracle: independent simulation of the returned '
    'circuit under the returned mappings. Non-trivial: the target is not the '
    'identity / a computational basis state, or the model is non-default. '
    'Distinct = sha1 of the JSON case.'
)
ASSUMPTIONS = [
    'refsim + vt/oracle/embed.py; budget (R+1)*4*sqrt(2 eps)+1e-7 on the '
    'distance sqrt(1-|tr|^2/N^2) for unitaries and sqrt(infidelity) for '
    'states/systems, R read from the pass data of the same compile call',
    'the runtime is simulated; real processes are not started',
]
SHARDS = {'quick': 16, 'thorough': 16}
BUDGET_S = {'quick': 170, 'thorough': 3000}


def make_unitary(t, radix, n):
    dim = radix ** n
    k = t['kind']
    if k == 'haar':
        return specs.haar(dim, t['seed'])
    if k == 'identity':
        return np.eye(dim, dtype=complex)
    rng = np.random.default_rng(t['seed'])
    if k == 'perm':
        return np.eye(dim)[rng.permutation(dim)].astype(complex)
    if k == 'diag':
        return np.diag(np.exp(1j * rng.uniform(-np.pi, np.pi, dim)))
    if k == 'local':
        # a product of single-qudit unitaries: synthesis succeeds with zero
        # entangling layers
        L = np.eye(1, dtype=complex)
        for q in range(n):
            L = np.kron(L, specs.haar(radix, t['seed'] + 17 * q + 3))
        return L
    if k in ('qperm', 'qperm_local'):
        # a permutation of the QUDITS, optionally followed by single-qudit
        # unitaries: cheapest when compiled with a non-identity output
        # permutation (what permutation-aware synthesis looks for)
        perm = list(rng.permutation(n))
        if n >= 2 and perm == sorted(perm):
            perm = perm[1:] + perm[:1]
        P = np.zeros((dim, dim), dtype=complex)
        for x in range(dim):
            digits = [(x // radix ** (n - 1 - q)) % radix for q in range(n)]
            y = sum(digits[perm[q]] * radix ** (n - 1 - q) for q in range(n))
            P[y, x] = 1
        if k == 'qperm':
            return P
        L = np.eye(1, dtype=complex)
        for q in range(n):
            L = np.kron(L, specs.haar(radix, t['seed'] + 31 * q + 1))
        return L @ P
    if k == 'near':
        H = rng.normal(size=(dim, dim)) + 1j * rng.normal(size=(dim, dim))
        H = (H + H.conj().T) / 2
        w, v = np.linalg.eigh(H)
        return (v * np.exp(1j * 1e-3 * w)) @ v.conj().T
    if k == 'clifford' and radix == 2:
        from bqskit.ir.circuit import Circuit
        from bqskit.ir.gates import CXGate, HGate, SGate
        c = Circuit(n)
        for _ in range(6):
            q = int(rng.integers(0, n))
            g = int(rng.integers(0, 3))
            if g == 0:
                c.append_gate(HGate(), [q])
            elif g == 1:
                c.append_gate(SGate(), [q])
            elif n >= 2:
                r = int(rng.integers(0, n - 1))
                r = r if r < q else r + 1
                c.append_gate(CXGate(), [q, r])
        return refsim.circuit_unitary(c)
    return specs.haar(dim, t['seed'])


def make_state(t, radix, n):
    dim = radix ** n
    k = t['kind']
    v = np.zeros(dim, dtype=complex)
    if k == 'basis':
        v[t['seed'] % dim] = 1
    elif k == 'ghz':
        for lvl in range(radix):
            idx = sum(lvl * radix ** i for i in range(n))
            v[idx] = 1
    elif k == 'w':
        for i in range(n):
            v[radix ** i] = 1
    else:
        v = specs.haar(dim, t['seed'])[:, 0].copy()
    return v / np.linalg.norm(v)


def build_target(t):
    from bqskit.qis.state.state import StateVector
    from bqskit.qis.state.system import StateSystem
    from bqskit.qis.unitary.unitarymatrix import UnitaryMatrix
    radix, n = t['radix'], t['n']
    rad = [radix] * n
    if t['type'] == 'unitary':
        U = make_unitary(t, radix, n)
        return UnitaryMatrix(U, rad), U
    if t['type'] == 'state':
        v = make_state(t, radix, n)
        return StateVector(v, rad), v
    dim = radix ** n
    A = specs.haar(dim, t['seed'])
    B = specs.haar(dim, t['seed'] + 7)
    k = 1 + t['pairs'] % dim
    pairs = [(A[:, i].copy(), B[:, i].copy()) for i in range(k)]
    return StateSystem({
        StateVector(a, rad): StateVector(b, rad) for a, b in pairs
    }), pairs


PLACEMENT = '|first_n_model_qudits_not_connected'


def missed(clause, tag):
    """signature of a missed target; the recorded placement root cause
    leads so that one known-finding prefix covers the three target kinds"""
    if PLACEMENT in tag:
        return PLACEMENT[1:] + '|' + clause + tag.replace(PLACEMENT, '')
    return clause + tag


def judge_one(t, ref, out_c, pi, pf, bud, out: Outcome, tag=''):
    n, radix = t['n'], t['radix']
    m = out_c.num_qudits
    for name, mp in (('initial', pi), ('final', pf)):
        d = embed.check_mapping(mp, n, m)
        if d is not None:
            out.fail(f'{name}_mapping_invalid{tag}', d)
            return
    rad = [radix] * n
    if t['type'] == 'unitary':
        dev, leak = embed.deviation(ref, out_c, pi, pf, rad)
        # phase-insensitive distance of the read-back matrix
        V = embed.readback(list(out_c.radixes), embed.circuit_ops(out_c),
                           pi, pf, rad)[0]
        d = refsim.hs_distance(ref, V)
        if leak > bud or d > bud:
            out.fail(missed('unitary_target_not_reached', tag),
                     f'distance {d:.3e} leak {leak:.3e} budget {bud:.3e}')
        return
    V, leak = embed.readback(list(out_c.radixes), embed.circuit_ops(out_c),
                             pi, pf, rad)[:2]
    if t['type'] == 'state':
        got = V[:, 0]
        infid = 1 - abs(np.vdot(ref, got)) ** 2
        if math.sqrt(max(infid, 0)) > bud or leak > bud:
            out.fail(missed('state_target_not_reached', tag),
                     f'infidelity {infid:.3e} leak {leak:.3e} budget^2 '
                     f'{bud * bud:.3e}')
        return
    for i, (a, b) in enumerate(ref):
        got = V @ a
        infid = 1 - abs(np.vdot(b, got)) ** 2
        if math.sqrt(max(infid, 0)) > bud:
            out.fail(missed('state_system_pair_not_mapped', tag),
                     f'pair {i}: infidelity {infid:.3e} budget^2 '
                     f'{bud * bud:.3e}')
            return


def placement_tag(t, model) -> str:
    """Signature suffix for the one recorded root cause that makes synthesis
    miss its target: the synthesis workflows work on the model's FIRST n
    qudits and never choose a placement, so when those qudits are not
    connected among themselves no entangling gate can be placed."""
    n = t['n']
    if model is None or n < 2:
        return ''
    edges = [(a, b) for a, b in model.coupling_graph if a < n and b < n]
    seen, todo = {0}, [0]
    while todo:
        x = todo.pop()
        for a, b in edges:
            for u, v in ((a, b), (b, a)):
                if u == x and v not in seen:
                    seen.add(v)
                    todo.append(v)
    return '' if len(seen) == n else PLACEMENT


def check(case) -> Outcome:
    out = Outcome()
    targets = case['targets']
    built = [build_target(t) for t in targets]
    model = cc.build_model(case['model'])
    cap = cc.Captured()
    inp = [b[0] for b in built] if case['as_list'] else built[0][0]
    out.label(f'level:{case["level"]}',
              'list' if case['as_list'] else 'single')
    for t in targets:
        out.label(f'type:{t["type"]}', f'kind:{t["kind"]}',
                  f'n:{t["n"]}', f'radix:{t["radix"]}')
    try:
        res = cc.run_compile(
            inp, model, case['level'], case['mss'], case['eps'], case['seed'],
            case['nw'], case['sched'], case.get('policy'), cap,
            cc.CASE_LIMIT_S[case.get('tier', 'quick')],
        )
    except cc.CaseTimeLimit:
        out.label('inconclusive:case-time-limit')
        for t in targets:
            out.label(f'time-limit:{t["type"]}:{t["kind"]}:n{t["n"]}:'
                      f'level{case["level"]}')
        return out
    except BaseException as e:
        from vt.simrt.sim import SimSignal
        if not isinstance(e, (Exception, SimSignal)):
            raise
        from vt.props import c01
        from vt.props import simcommon as sc
        det = sc.client_error(e)[1] if isinstance(e, RuntimeError) else repr(e)
        if 'Cannot expand a single-qudit circuit' in det:
            kinds = sorted({t['type'] for t in targets if t['n'] == 1})
            out.fail('single_qudit_target_cannot_be_expanded|'
                     + '+'.join(kinds), det[-900:])
            return out
        out.fail('accepted_input_not_compiled|' + c01.classify_failure(e),
                 det[-900:])
        return out
    rewrites = sum(cc.count_rewrites(d) for d in cap.data)
    bud = cc.budget(case['eps'], rewrites)
    if case['as_list']:
        if not isinstance(res, list) or len(res) != len(targets):
            out.fail('list_result_length',
                     f'{type(res).__name__} of length '
                     f'{len(res) if hasattr(res, "__len__") else "?"}')
            return out
        for i, (t, b, r) in enumerate(zip(targets, built, res)):
            judge_one(t, b[1], r[0], list(r[1]), list(r[2]), bud, out,
                      tag='|in_list' + placement_tag(t, model))
    else:
        judge_one(targets[0], built[0][1], res[0], list(res[1]), list(res[2]),
                  bud, out, tag=placement_tag(targets[0], model))
    out.nontrivial = any(
        t['kind'] not in ('identity', 'basis') for t in targets
    ) or case['model'] is not None
    return out


replay = check


@st.composite
def target_specs(draw, quick=True, radix=None, n=None):
    radix = radix or (3 if draw(st.integers(0, 7)) == 0 else 2)
    # quick: 3-qubit synthesis costs 20-70 s per target on one core
    maxn = (1 if quick else 2) if radix == 3 else (2 if quick else 3)
    n = n or draw(st.integers(1, maxn))
    ty = draw(st.sampled_from(['unitary', 'unitary', 'state', 'system']))
    if ty == 'unitary':
        kind = draw(st.sampled_from(['haar', 'haar', 'perm', 'diag',
                                     'identity', 'clifford', 'near',
                                     'local']))
    elif ty == 'state':
        kind = draw(st.sampled_from(['haar', 'basis', 'ghz', 'w']))
    else:
        kind = 'system'
    return {'type': ty, 'kind': kind, 'radix': radix, 'n': n,
            'seed': draw(st.integers(0, 10**6)),
            'pairs': draw(st.integers(0, 7))}


@st.composite
def cases(draw, quick=True):
    as_list = draw(st.integers(0, 5)) == 0
    first = draw(target_specs(quick))
    targets = [first]
    if as_list:
        # all inputs of one compile() call share one model: same radix
        for _ in range(draw(st.integers(1, 3))):
            targets.append(draw(target_specs(quick, radix=first['radix'])))
        # make list entries pairwise distinguishable
        for i, t in enumerate(targets):
            t['seed'] = t['seed'] + 1000 * i
            if t['kind'] in ('identity', 'ghz', 'w'):
                t['kind'] = 'haar' if t['type'] != 'system' else 'system'
    nmax = max(t['n'] for t in targets)
    radix = first['radix']
    model = None
    if radix == 2 and draw(st.booleans()):
        model = draw(cc.model_specs(nmax, 2, allow_default=False))
        if model and model.get('gs') == 'cx+u3+ccx':
            model['gates'] = cc.GATESETS['cx+u3']
            model['gs'] = 'cx+u3'
    elif radix == 3:
        model = draw(cc.model_specs(nmax, 3, allow_default=False))
    level = draw(st.sampled_from([1, 1, 2, 3] if quick else [1, 2, 3, 4]))
    if quick and nmax >= 2 and level == 3:
        level = 2
    return {
        'targets': targets, 'as_list': as_list, 'model': model,
        'level': level, 'mss': 3,
        'eps': draw(st.sampled_from([1e-8, 1e-8, 1e-10, 1e-6])),
        'seed': draw(st.integers(0, 10**6)),
        'nw': draw(st.integers(1, 3)),
        'sched': draw(cc.schedules),
        'policy': draw(st.sampled_from([None, 'lazy_recv', 'eager_recv'])),
        'tier': 'quick' if quick else 'thorough',
    }


@st.composite
def pas_cases(draw, quick=True):
    """optimization level 4 (permutation-aware synthesis) on small unitaries
    for which a non-identity output permutation is the cheapest circuit"""
    n = 2 if quick else draw(st.sampled_from([2, 2, 3]))
    t = {'type': 'unitary', 'radix': 2, 'n': n,
         'kind': draw(st.sampled_from(['qperm', 'qperm_local', 'qperm_local',
                                       'haar'])),
         'seed': draw(st.integers(0, 10**6)), 'pairs': 0}
    return {
        'targets': [t], 'as_list': False, 'model': None,
        'level': 4, 'mss': 3,
        'eps': draw(st.sampled_from([1e-8, 1e-10])),
        'seed': draw(st.integers(0, 10**6)),
        'nw': draw(st.integers(1, 3)),
        'sched': draw(cc.schedules),
        'policy': draw(st.sampled_from([None, 'lazy_recv', 'eager_recv'])),
        'tier': 'quick' if quick else 'thorough',
    }


def run_shard(ctx: core.Ctx) -> core.ShardResult:
    res = core.ShardResult()
    core.run_hypothesis(ctx, res, pas_cases(ctx.tier == 'quick'), check,
                        ctx.n(3, 40), shrink=False, min_cases=2, sub=1)
    core.run_hypothesis(ctx, res, cases(ctx.tier == 'quick'), check,
                        ctx.n(12, 100), shrink=False, min_cases=3)
    return res
