"""C14 - a crashed worker or manager unblocks every waiting client with an
error."""
from __future__ import annotations

import logging
import time

from hypothesis import strategies as st

from vt import core
from vt.core import Outcome
from vt.props import simcommon as sc
from vt.simrt import programs as P

ID = 'C14'
LEVEL = 'fault_enumeration'
RULE = (
    'cases: a base run = (task program, topology, schedule/policy, attached '
    'or detached server, how sends to a dead peer fail: silently buffered / '
    'ConnectionResetError / BrokenPipeError). The fault-free run is executed '
    'once to get its length T in simulator actions; then for every node '
    '(each worker, each manager) and every crash point t in 0..T (all of them '
    'when T <= 60 quick / 400 thorough, otherwise 40 / 200 evenly spaced plus '
    'drawn ones) the run is replayed to t, the node is crashed (its links '
    'close: already-sent data stays deliverable and is followed by EOF) and '
    'the run continues under the same schedule with the client blocked in '
    'result(); optionally a second node crashes later. evaluations counts '
    'faulted executions. Non-trivial: at the crash the node held >= 1 task '
    '(delayed, ready, running or parked) or had a message in flight in '
    'either direction. Distinct = sha1 of (base case, node, t).'
)
ASSUMPTIONS = [
    'crash model: fail-stop of one process; its sockets close; peers see EOF '
    'after buffered data; sends to it fail in one of three ways chosen by '
    'the case',
    '"bounded time" is measured in simulator actions: at most 6*T+400 '
    'actions after the crash',
    'the OS, real sockets and process spawning are not exercised',
]
SHARDS = {'quick': 16, 'thorough': 16}
BUDGET_S = {'quick': 150, 'thorough': 2400}


def run_once(case, crash_at, crash_node, crash2=None, want_info=False):
    """-> dict(outcome=..., ...).  outcome: 'value' | 'error' | 'hang' |
    'bound' | 'wrong'"""
    from vt.simrt.sim import Hang, Sim, StepBound, make_root_task
    from bqskit.runtime.message import RuntimeMessage as M
    spec = sc.normalise(case['prog'])
    P.reset()
    bound = case.get('_bound', 20000)
    topo = case['topo']
    if case['attached'] and 'managers' in topo:
        # the attached architecture has no managers
        topo = {'workers': min(4, sum(topo['managers']))}
    sim = Sim(topo, case['sched'], policy=case.get('policy'),
              attached=case['attached'], send_fail_mode=case['fail'],
              max_actions=bound)
    info = {'held': False, 'inflight': False}
    try:
        def crash_hook(sim_, act):
            for node, at in ((crash_node, crash_at),) + (
                    (crash2,) if crash2 else ()):
                if node is None or at is None:
                    continue
                if sim_.nactions == at and node not in sim_.dead:
                    if node == crash_node:
                        _classify(sim_, node, info)
                    sim_.kill(node)
        if crash_node is not None:
            sim.hooks.append(crash_hook)
            if crash_at == 0:
                _classify(sim, crash_node, info)
                sim.kill(crash_node)
        comp = sim.compiler()
        task = make_root_task(spec)
        r = {'sim': sim, 'info': info}
        try:
            comp._send(M.SUBMIT, task)
            res = comp.result(task.task_id)
            d = P.value_matches(P.expected(spec), res[1]['res'])
            r['outcome'] = 'value' if d is None else 'wrong'
            r['detail'] = d
        except Hang:
            r['outcome'] = 'hang'
            r['detail'] = f'trace tail {sim.trace[-6:]}'
            return r
        except StepBound:
            r['outcome'] = 'bound'
            return r
        except RuntimeError as e:
            r['outcome'] = 'error'
            r['detail'] = str(e)[:200]
        r['t_result'] = sim.nactions
        try:
            sim.drain()
        except StepBound:
            r['outcome_after'] = 'bound'
        r['T'] = sim.nactions
        # a second client call after the fault must fail, not hang or succeed
        if crash_node is not None and r['outcome'] == 'value' and \
                crash_node in sim.dead:
            try:
                comp.status(task.task_id)
                r['late_call'] = 'answered'
            except Hang:
                r['late_call'] = 'hang'
            except RuntimeError:
                r['late_call'] = 'error'
            except StepBound:
                r['late_call'] = 'bound'
            try:
                sim.drain()
            except StepBound:
                pass
        r['server_running'] = sim.server.running
        r['live_workers'] = [
            n for n, w in sim.workers.items()
            if sim.alive(n)
        ]
        r['live_managers'] = [
            n for n, m in sim.managers.items() if sim.alive(n) and m.running
        ]
        return r
    finally:
        sim.close()


def _classify(sim, node, info):
    if node in sim.workers:
        w = sim.workers[node]
        info['held'] = bool(w._tasks or w._delayed_tasks or
                            w._ready_task_ids.q)
    elif node in sim.managers:
        m = sim.managers[node]
        info['held'] = any(e.num_tasks > 0 for e in m.employees)
    for (a, b), conn in sim.links.items():
        if a == node and (conn.inn.q or conn.out.q):
            info['inflight'] = True


def check(case) -> Outcome:
    logging.disable(logging.CRITICAL)
    out = Outcome()
    base = run_once(case, None, None)
    if base['outcome'] != 'value':
        # C07/C12's business; here only a precondition
        out.label('base-run-not-clean:' + base['outcome'])
        return out
    T = base['T']
    case = dict(case, _bound=6 * T + 400)
    nodes = sorted(base['sim'].workers) + sorted(base['sim'].managers)
    quick = case.get('tier', 'quick') == 'quick'
    full_limit, spaced = (60, 40) if quick else (400, 200)
    if T <= full_limit:
        points = list(range(0, T + 1))
    else:
        points = sorted({round(i * T / spaced) for i in range(spaced + 1)}
                        | {x % (T + 1) for x in case['extra_points']})
    out.evals = 0
    basekey = core.case_hash(case)
    for node in nodes:
        for t in points:
            if DEADLINE[0] is not None and time.monotonic() > DEADLINE[0]:
                # time budget: inconclusive for the remaining crash points
                out.label('inconclusive:crash-points-truncated-by-budget')
                return out
            crash2 = None
            if case.get('second'):
                others = [n for n in nodes if n != node]
                if others:
                    crash2 = (others[case['second']['n'] % len(others)],
                              t + 1 + case['second']['dt'])
            r = run_once(case, t, node, crash2)
            if node not in r['sim'].dead:
                out.label('crash-point-after-end')
                continue
            out.evals += 1
            where = f'node={node} t={t}/{T} second={crash2}'
            oc = r['outcome']
            if oc == 'hang':
                out.fail('client_hangs_after_crash', f'{where}: {r["detail"]}')
            elif oc == 'bound':
                out.fail('no_termination_within_bound', where)
            elif oc == 'wrong':
                out.fail('partial_or_wrong_result_after_crash',
                         f'{where}: {r["detail"]}')
            elif oc == 'value' and r.get('late_call') in ('hang', 'answered'):
                out.fail(f'late_call_{r["late_call"]}_after_crash', where)
            if oc in ('value', 'error'):
                if r.get('server_running'):
                    out.fail('server_keeps_running_after_crash', where)
                elif r.get('live_workers'):
                    out.fail('workers_keep_running_after_crash',
                             f'{where}: {r["live_workers"]}')
                elif r.get('live_managers'):
                    out.fail('managers_keep_running_after_crash',
                             f'{where}: {r["live_managers"]}')
            if r['info']['held'] or r['info']['inflight']:
                out.nt_keys.append(core.case_hash([basekey, node, t]))
                out.nontrivial = True
            out.label('outcome:' + oc)
            if len(out.violations) >= 3:
                return out
    out.label('attached' if case['attached'] else 'detached')
    out.label('fail:' + case['fail'])
    return out


replay = check


@st.composite
def cases(draw, quick=True):
    return {
        'prog': draw(sc.programs(3, 3)),
        'topo': draw(sc.topologies),
        'sched': draw(sc.schedules),
        'policy': draw(st.sampled_from([None, None, 'lazy_recv',
                                        'eager_recv'])),
        'attached': draw(st.booleans()),
        'fail': draw(st.sampled_from(['silent', 'reset', 'pipe'])),
        'extra_points': draw(st.lists(st.integers(0, 5000), max_size=10)),
        'second': draw(st.one_of(
            st.none(), st.none(),
            st.fixed_dictionaries({'n': st.integers(0, 5),
                                   'dt': st.integers(0, 30)}))),
        'tier': 'quick' if quick else 'thorough',
    }


DEADLINE = [None]     # monotonic; set per shard, None in replays


def run_shard(ctx: core.Ctx) -> core.ShardResult:
    res = core.ShardResult()
    DEADLINE[0] = ctx.deadline + 60
    # no Hypothesis shrinking: one case is already ~100 faulted executions
    # and the violation detail names the node and crash point
    core.run_hypothesis(ctx, res, cases(ctx.tier == 'quick'), check,
                        ctx.n(4, 120), shrink=False, min_cases=1)
    return res
