"""Shared pieces of the runtime properties (C07, C12-C15): program and
schedule strategies, error classification, hygiene checks."""
from __future__ import annotations

import re

from hypothesis import strategies as st

from vt.simrt import programs as P


# ------------------------------------------------------------- programs
def normalise(spec, counter=None):
    """Assign unique tags/ids by DFS (generator does not need uniqueness)."""
    counter = counter if counter is not None else [0]
    i = counter[0]
    counter[0] += 1
    out = dict(spec)
    if spec['t'] in ('leaf', 'raise', 'log'):
        out['tag'] = f'{spec["t"][0]}{i}'
    else:
        out['id'] = f'n{i}'
    if 'kids' in spec:
        out['kids'] = [normalise(k, counter) for k in spec['kids']]
        if spec['t'] == 'seq':
            n = len(out['kids'])
            pool = list(range(n))
            sel = spec.get('order') or [0]
            out['order'] = [
                pool.pop(sel[j % len(sel)] % len(pool)) for j in range(n)
            ]
    if 'kid' in spec:
        out['kid'] = normalise(spec['kid'], counter)
    return out


def depth(spec) -> int:
    kids = spec.get('kids') or ([spec['kid']] if 'kid' in spec else [])
    return 1 + max((depth(k) for k in kids), default=0)


def size(spec) -> int:
    kids = spec.get('kids') or ([spec['kid']] if 'kid' in spec else [])
    return 1 + sum(size(k) for k in kids)


def programs(max_depth=3, max_fan=4, kinds=('seq', 'map', 'mapnext'),
             leaf_kinds=('leaf',)):
    leaf = st.sampled_from(leaf_kinds).map(lambda t: {'t': t})

    def extend(children):
        kids = st.lists(children, min_size=1, max_size=max_fan)
        opts = []
        if 'seq' in kinds:
            opts.append(st.builds(
                lambda k, o: {'t': 'seq', 'kids': k, 'order': o}, kids,
                st.lists(st.integers(0, 5), min_size=1, max_size=4)))
        if 'map' in kinds:
            opts.append(st.builds(lambda k: {'t': 'map', 'kids': k}, kids))
        if 'mapnext' in kinds:
            opts.append(st.builds(lambda k: {'t': 'mapnext', 'kids': k}, kids))
        if 'mapcancel' in kinds:
            opts.append(st.builds(
                lambda k, a: {'t': 'mapcancel', 'kids': k, 'after': a},
                st.lists(children, min_size=2, max_size=max_fan + 1),
                st.integers(0, 3)))
        if 'forget' in kinds:
            opts.append(st.builds(
                lambda k: {'t': 'forget', 'kids': k},
                st.lists(children, min_size=1, max_size=max_fan)))
        if 'subcancel' in kinds:
            opts.append(st.builds(
                lambda k, w: {'t': 'subcancel', 'kid': k, 'wait': w},
                children, st.booleans()))
        return st.one_of(opts)

    s = leaf
    for _ in range(max_depth - 1):
        s = st.one_of(leaf, extend(s), extend(s))
    return extend(s)


topologies = st.one_of(
    st.builds(lambda w: {'workers': w}, st.integers(1, 4)),
    st.builds(lambda ws: {'managers': ws},
              st.lists(st.integers(1, 3), min_size=1, max_size=3)),
)
flat_topologies = st.builds(lambda w: {'workers': w}, st.integers(1, 4))

schedules = st.lists(st.integers(0, 11), min_size=1, max_size=120)

injections = st.lists(
    st.fixed_dictionaries({
        'w': st.integers(0, 8), 'step': st.integers(1, 25),
        'line': st.integers(0, 140), 'k': st.integers(1, 3),
    }), min_size=0, max_size=3,
)


rinjections = st.lists(
    st.fixed_dictionaries({
        'w': st.integers(0, 8), 'recv': st.integers(1, 20),
        'line': st.integers(0, 30),
    }), min_size=0, max_size=3,
)


def resolve_rinjections(inj, worker_names):
    """plans for main-thread steps inside a worker's incoming handler"""
    seen = set()
    out = []
    for x in inj:
        w = worker_names[x['w'] % len(worker_names)]
        if (w, x['recv']) in seen:
            continue
        seen.add((w, x['recv']))
        out.append({'worker': w, 'recv': x['recv'], 'line': x['line']})
    return out


def resolve_injections(inj, worker_names):
    """-> sorted plans the simulator understands (one per (worker, step))."""
    seen = set()
    out = []
    for x in inj:
        w = worker_names[x['w'] % len(worker_names)]
        key = (w, x['step'])
        if key in seen:
            continue
        seen.add(key)
        out.append({'worker': w, 'step': x['step'], 'line': x['line'],
                    'k': x['k']})
    # the simulator pops plans in order per worker step
    return out


# ------------------------------------------------------ error classification
_FRAME = re.compile(r'File "([^"]+)", line \d+, in (\w+)')


def classify_error(text: str) -> str:
    """'<ExcType>|<file>:<func>' of the innermost bqskit frame in a traceback
    string shipped to a client."""
    text = str(text)
    lines = [ln for ln in text.strip().splitlines() if ln.strip()]
    last = lines[-1] if lines else ''
    et = last.split(':')[0].strip().split('.')[-1] if last else 'unknown'
    # multi-line messages: the exception line is the last one that looks
    # like "SomeError: ..." at column 0
    for ln in reversed(lines):
        m = re.match(r'^([A-Za-z_][\w.]*(?:Error|Exception|Interrupt))\b', ln)
        if m:
            et = m.group(1).split('.')[-1]
            break
    frame = 'none'
    for fn, func in _FRAME.findall(text):
        if '/bqskit/' in fn:
            frame = f'{fn.rsplit("/", 1)[-1]}:{func}'
    if not re.match(r'^[A-Za-z_]\w*$', et):
        et = 'text'
    return f'{et}|{frame}'


def worker_leftovers(sim) -> list:
    """Names of tables that are not empty on live workers."""
    bad = []
    for name, w in sim.workers.items():
        if not sim.alive(name):
            continue
        if w._tasks:
            bad.append((name, '_tasks', len(w._tasks)))
        if w._mailboxes:
            bad.append((name, '_mailboxes', len(w._mailboxes)))
        if w._delayed_tasks:
            bad.append((name, '_delayed_tasks', len(w._delayed_tasks)))
        if w._ready_task_ids.q:
            bad.append((name, 'ready_queue', len(w._ready_task_ids.q)))
    return bad


def exec_counts():
    d: dict = {}
    for ent in P.EXEC_LOG:
        d[ent[0]] = d.get(ent[0], 0) + 1
    return d


def client_error(e: BaseException):
    """(sig, detail) for a RuntimeError raised by a Compiler call."""
    import traceback
    from vt import core
    cause = e.__cause__
    if isinstance(cause, RuntimeError) and cause.args and \
            'Traceback' in str(cause.args[0]):
        # an ERROR message from the runtime, re-wrapped by the client
        text = str(cause.args[0])
        return ('client_error|' + classify_error(text), text[-900:])
    if cause is not None:
        tb = ''.join(traceback.format_exception(
            type(cause), cause, cause.__traceback__))
        return (
            f'client_error|cause:{type(cause).__name__}|'
            f'{core.innermost_repo_frame(cause)}', tb[-900:],
        )
    text = e.args[0] if e.args else ''
    return ('client_error|' + classify_error(text), str(text)[-900:])


# ------------------------------------------- single pre-emption enumeration
def enum_preemptions(progs, bases, nws, kmax=2, extra=None):
    """Every single pre-emption point (worker step x source line x k) at
    which at least one message is pending for the stepping worker, for each
    fixed program under each base (policy, schedule) and worker count.  The
    base run is executed first to find those steps."""
    import logging
    from vt.simrt import programs as P
    from vt.simrt.sim import Sim, make_root_task, SimSignal
    from bqskit.runtime.message import RuntimeMessage as M
    logging.disable(logging.CRITICAL)
    for prog in progs:
        spec = normalise(prog)
        for policy, sched in bases:
            for nw in nws:
                P.reset()
                sim = Sim({'workers': nw}, sched, policy=policy)
                try:
                    comp = sim.compiler()
                    task = make_root_task(spec)
                    comp._send(M.SUBMIT, task)
                    comp.result(task.task_id)
                    sim.drain()
                except (SimSignal, RuntimeError):
                    pass
                finally:
                    sim.close()
                names = sorted(sim.workers)
                for (w, step, pending) in sim.step_info:
                    if pending == 0:
                        continue
                    for line in range(0, 100):
                        for k in range(1, min(pending, kmax) + 1):
                            case = {
                                'prog': prog, 'topo': {'workers': nw},
                                'sched': sched, 'policy': policy,
                                'inject': [{'w': names.index(w), 'step': step,
                                            'line': line, 'k': k}],
                            }
                            case.update(extra or {})
                            yield case


def enum_rpreemptions(progs, bases, nws, names=('SUBMIT', 'SUBMIT_BATCH'),
                      extra=None, lines=32):
    """Every single point (n-th message of a worker x source line of its
    handler) at which the worker's MAIN thread takes a step while the
    incoming thread is inside the handler of a message named in ``names``."""
    import logging
    from vt.simrt import programs as P
    from vt.simrt.sim import Sim, make_root_task, SimSignal
    from bqskit.runtime.message import RuntimeMessage as M
    logging.disable(logging.CRITICAL)
    for prog in progs:
        spec = normalise(prog)
        for policy, sched in bases:
            for nw in nws:
                P.reset()
                sim = Sim({'workers': nw}, sched, policy=policy)
                try:
                    comp = sim.compiler()
                    task = make_root_task(spec)
                    comp._send(M.SUBMIT, task)
                    comp.result(task.task_id)
                    sim.drain()
                except (SimSignal, RuntimeError):
                    pass
                finally:
                    sim.close()
                wn = sorted(sim.workers)
                for (w, nth, mname) in sim.recv_info:
                    if mname not in names:
                        continue
                    for line in range(lines):
                        case = {
                            'prog': prog, 'topo': {'workers': nw},
                            'sched': sched, 'policy': policy,
                            'rinject': [{'w': wn.index(w), 'recv': nth,
                                         'line': line}],
                        }
                        case.update(extra or {})
                        yield case


def abandon_safe(fn):
    """A drawn interleaving the simulator cannot continue faithfully is an
    inconclusive case, never a violation."""
    import functools
    from vt.core import Outcome

    @functools.wraps(fn)
    def wrapped(case):
        from vt.simrt.sim import Abandon
        try:
            return fn(case)
        except Abandon:
            out = Outcome()
            out.label('inconclusive:interleaving-not-continuable')
            return out
    return wrapped
