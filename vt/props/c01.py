"""C01 - compile() preserves circuit semantics under the reported qudit
mappings (and C02's executable-on-model verdict is computed on the same
outputs by c02.py)."""
from __future__ import annotations

import numpy as np
from hypothesis import strategies as st

from vt import core
from vt.core import Outcome
from vt.oracle import embed
from vt.oracle import refsim
from vt.props import compilecommon as cc

ID = 'C01'
LEVEL = 'exploration'
RULE = (
    'cases: (input circuit, machine model, optimization_level, '
    'max_synthesis_size, synthesis_epsilon, seed, number of workers, '
    'schedule). Circuits: width 1-5 quick / 1-7 thorough, 1-14 / 1-30 '
    'operations over 1/2/3-qudit library gates with special and generic '
    'angles, Haar unitary gates, barriers, pre-blocked CircuitGates, terminal '
    'measurements; qutrit circuits with the CSUM model. Models: default or '
    'machine width n..n+2, graph all-to-all/line/ring/star/grid/tree/tree+, '
    'ten native gate sets. The PUBLIC bqskit.compile(..., with_mapping=True) '
    'is executed with a real Compiler object whose runtime is the '
    'deterministic simulator (1-3 workers, drawn schedule). Non-trivial: '
    'output differs structurally from the input AND (a non-identity mapping '
    'or a SWAP-requiring sparse graph, a 3-qudit gate decomposed, a non-'
    'default gate set, measurements present, or machine wider than circuit). '
    'Distinct = sha1 of the JSON case.'
)
ASSUMPTIONS = [
    'oracle: vt/oracle/embed.py (state-vector simulation of all embedded '
    'basis states through the output, one global phase, no leakage) on top of '
    'the independent simulator refsim',
    'distance budget (R+1)*4*sqrt(2*eps)+1e-7 with R = number of block '
    'results the workflow itself reports as accepted (read from the pass data '
    'of the same compile call); each accepted numerical rewrite has cost '
    '< eps, i.e. distance < sqrt(2 eps)',
    'the runtime is simulated (DESIGN 3.5); real processes are not started',
]
SHARDS = {'quick': 16, 'thorough': 16}
BUDGET_S = {'quick': 130, 'thorough': 3000}


def run_case(case):
    """-> dict with out, pi, pf, model, rewrites or 'error'."""
    circ, meas = cc.build_circuit(case['circ'])
    model = cc.build_model(case['model'])
    cap = cc.Captured()
    r = {'circ': circ, 'meas': meas, 'model': model}
    try:
        out, pi, pf = cc.run_compile(
            circ.copy(), model, case['level'], case['mss'], case['eps'],
            case['seed'], case['nw'], case['sched'], case.get('policy'), cap,
            cc.CASE_LIMIT_S[case.get('tier', 'quick')],
        )
    except cc.CaseTimeLimit:
        r['timeout'] = True
        return r
    except BaseException as e:    # SimSignals are BaseExceptions
        from vt.simrt.sim import SimSignal
        if not isinstance(e, (Exception, SimSignal)):
            raise
        r['error'] = e
        return r
    r.update(out=out, pi=list(pi), pf=list(pf),
             rewrites=sum(cc.count_rewrites(d) for d in cap.data))
    return r


def judge_semantics(case, r, out: Outcome) -> None:
    from bqskit.ir.gates import MeasurementPlaceholder
    o = r['out']
    n = case['circ']['n']
    radix = case['circ'].get('radix', 2)
    m = o.num_qudits
    pi, pf = r['pi'], r['pf']
    for name, mp in (('initial', pi), ('final', pf)):
        d = embed.check_mapping(mp, n, m)
        if d is not None:
            out.fail(f'{name}_mapping_invalid', d)
            return
    U_in = cc.input_unitary(case['circ'])
    dev, leak = embed.deviation(U_in, o, pi, pf, [radix] * n)
    bud = cc.budget(case['eps'], r['rewrites'])
    ratio = max(dev, leak) / bud
    out.label('ratio<0.01' if ratio < 0.01 else
              'ratio<0.3' if ratio < 0.3 else 'ratio<1' if ratio <= 1 else
              'ratio>1')
    if leak > bud:
        out.fail('leakage_outside_final_mapping',
                 f'leak {leak:.3e} > budget {bud:.3e} pi={pi} pf={pf}')
    elif dev > bud:
        out.fail('output_differs_from_input_under_mappings',
                 f'dev {dev:.3e} > budget {bud:.3e} (R={r["rewrites"]}) '
                 f'pi={pi} pf={pf}')
    # measurements
    want = {q: b for q, b in r['meas'].items()}
    got = {}
    last_op_on = {}
    for cy, op in refsim.grid_ops(o):
        for q in op.location:
            last_op_on[q] = op
        if isinstance(op.gate, MeasurementPlaceholder):
            for q, (_, b) in op.gate.measurements.items():
                got[q] = b
    if want:
        exp = {pf[q]: b for q, b in want.items()}
        if got != exp:
            out.fail('measurements_not_on_final_physical_qudits',
                     f'got {got} want {exp} (pf={pf})')
        else:
            for q in exp:
                if not isinstance(last_op_on[q].gate, MeasurementPlaceholder):
                    out.fail('measurement_not_last_on_its_qudit', f'q{q}')
    elif got:
        out.fail('measurement_invented', str(got))


def nontrivial(case, r) -> bool:
    o = r['out']
    n = case['circ']['n']
    changed = o.num_operations != r['circ'].num_operations or \
        set(o.gate_set) != set(r['circ'].gate_set)
    ms = case['model']
    feats = (
        r['pi'] != list(range(n)) or r['pf'] != list(range(n))
        or (ms is not None and ms['m'] > n)
        or (ms is not None and ms.get('gs', 'cx+u3') != 'cx+u3')
        or bool(r['meas'])
        or any(op[0] in cc.G3 for op in case['circ']['ops'])
        or any(g.name == 'SwapGate' for g in o.gate_set)
    )
    return bool(changed and feats)


def labels(case, r, out: Outcome) -> None:
    ms = case['model']
    out.label(f'level:{case["level"]}', f'n:{case["circ"]["n"]}',
              f'workers:{case["nw"]}',
              'gs:' + ('default' if ms is None else ms.get('gs', 'qutrit')))
    if ms is not None:
        out.label('graph:' + ('all' if ms['graph'] is None else 'sparse'))
        if ms['m'] > case['circ']['n']:
            out.label('machine>circuit')
    if 'pi' in r and (r['pi'] != list(range(len(r['pi'])))
                      or r['pf'] != list(range(len(r['pf'])))):
        out.label('non-identity-mapping')
    if r.get('meas'):
        out.label('measurements')
    if case['circ'].get('radix', 2) == 3:
        out.label('qutrit')


def classify_failure(e: BaseException) -> str:
    from vt.props import simcommon as sc
    from vt.simrt.sim import SimSignal
    if isinstance(e, SimSignal):
        return 'runtime|' + type(e).__name__
    if isinstance(e, RuntimeError):
        return sc.client_error(e)[0]
    return core.exc_sig('compile_raises', e)


def check(case) -> Outcome:
    out = Outcome()
    r = run_case(case)
    labels(case, r, out)
    if r.get('timeout'):
        out.label('inconclusive:case-time-limit')
        return out
    if 'error' in r:
        e = r['error']
        if isinstance(e, (KeyboardInterrupt, SystemExit)):
            raise e
        from vt.props import simcommon as sc
        det = sc.client_error(e)[1] if isinstance(e, RuntimeError) else repr(e)
        out.fail('accepted_input_not_compiled|' + classify_failure(e),
                 det[-900:])
        return out
    judge_semantics(case, r, out)
    out.nontrivial = nontrivial(case, r)
    return out


replay = check


@st.composite
def cases(draw, quick=True):
    radix = 3 if draw(st.integers(0, 11)) == 0 else 2
    if radix == 3:
        circ = draw(cc.circuit_cases(1, 3, 6, radix=3, placeholders=False,
                                     blocks=False))
        level = draw(st.sampled_from([1, 1, 2]))
    else:
        level = draw(st.sampled_from(
            [1, 1, 1, 1, 2, 2, 3] if quick else [1, 1, 2, 2, 3, 3, 4]))
        if quick:
            # levels 2-3 cost tens of seconds on wide inputs
            max_n, max_ops = (5, 14) if level == 1 else (4, 8)
        else:
            max_n, max_ops = (7, 30) if level <= 2 else (5, 16)
        circ = draw(cc.circuit_cases(2, max_n, max_ops))
    n = circ['n']
    model = draw(cc.model_specs(n, radix))
    biggest = max([len(op[1]) for op in circ['ops']
                   if op[0] not in ('barrier', 'measure')] + [2])
    native = 3 if (model and model.get('gs') == 'cx+u3+ccx') else 2
    lo = max(2, native, biggest)
    mss = draw(st.integers(lo, max(lo, 3 if quick else 4)))
    return {
        'circ': circ, 'model': model, 'level': level, 'mss': mss,
        'eps': draw(st.sampled_from([1e-8, 1e-8, 1e-10, 1e-6])),
        'seed': draw(st.integers(0, 10**6)),
        'nw': draw(st.integers(1, 3)),
        'sched': draw(cc.schedules),
        'policy': draw(st.sampled_from([None, 'lazy_recv', 'eager_recv'])),
        'tier': 'quick' if quick else 'thorough',
    }


def run_shard(ctx: core.Ctx) -> core.ShardResult:
    res = core.ShardResult()
    # cheap routing-heavy family first (sparse machines, level 1)
    core.run_hypothesis(ctx, res, cc.routing_cases(), check,
                        ctx.n(14, 150), shrink=False, min_cases=4, sub=1)
    core.run_hypothesis(ctx, res, cases(ctx.tier == 'quick'), check,
                        ctx.n(8, 100), shrink=False, min_cases=2)
    return res
