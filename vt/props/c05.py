"""C05 - all views of a Circuit stay mutually consistent after every edit."""
from __future__ import annotations

import itertools as it

from vt import core
from vt.props import circmachine as cm

ID = 'C05'
LEVEL = 'exploration'
RULE = (
    'cases: (a) the same generated editing histories as C04 (1..40 / 1..80 '
    'steps, 1-5 / 1-7 qudits) with the cross-view invariant evaluated after '
    'EVERY step through the public read API (grid vs next/prev/front/rear/'
    'first_on/last_on vs counters vs iteration); (b) exhaustive enumeration '
    'of all histories of length <= 3 (quick) / <= 4 (thorough) over a reduced '
    'alphabet with canonical arguments on 2-3 qubits. Non-trivial: at some '
    'point >= 2 multi-qudit operations were present and the history contains '
    '>= 1 deletion or renumbering. Distinct = sha1 of the JSON history.'
)
ASSUMPTIONS = [
    'the grid (operation at cycle, qudit) is taken as the primary view; every '
    'other view is recomputed from it',
]
SHARDS = {'quick': 16, 'thorough': 16}
BUDGET_S = {'quick': 200, 'thorough': 2400}

DELETES = {
    'pop', 'remove_op', 'remove_gate', 'batch_pop', 'pop_cycle', 'replace',
    'replace_gate', 'batch_replace', 'replace_with_circuit', 'pop_qudit',
    'renumber', 'fold', 'unfold', 'batch_unfold',
}


def check(case) -> core.Outcome:
    out = core.Outcome()
    itp = cm.Interp(out, want_trace=False, want_views=True, want_unitary=False)
    itp.run(case)
    out.nontrivial = itp.saw_multi > 0 and bool(itp.kinds & DELETES)
    for k in sorted(itp.kinds):
        out.label('did:' + k)
    out.evals = max(1, itp.nmut)
    return out


replay = check

P = [0.5, -1.25, 2.0]


def reduced_alphabet():
    """Canonical argument sets for the exhaustive tier (2-3 qubits)."""
    a = []
    for g, k, loc in ((0, 0, [0, 0, 0]), (0, 0, [1, 0, 0]), (0, 1, [0, 0, 0]),
                      (0, 1, [1, 0, 0]), (0, 1, [2, 0, 0]), (0, 2, [0, 0, 0])):
        a.append({'op': 'append', 'loc': loc, 'k': k, 'g': g, 'p': P})
    for cyc in (0, 2, 3):      # resolved modulo state: low / in range / high
        a.append({'op': 'insert', 'loc': [0, 0, 0], 'k': 0, 'g': 1, 'p': P,
                  'cyc': cyc})
        a.append({'op': 'insert', 'loc': [1, 0, 0], 'k': 1, 'g': 0, 'p': P,
                  'cyc': cyc})
    for pt in (0, 1):
        a.append({'op': 'pop', 'pt': pt, 'mode': 3, 'q': 0})
        a.append({'op': 'replace', 'pt': pt, 'mode': 2, 'q': 0, 'perm': 1,
                  'loc': [0, 0, 0], 'g': 0, 'p': P, 'neg': 0})
        a.append({'op': 'unfold', 'pt': pt, 'q': 0})
    # blocks sharing a cycle, then unfolded together
    sub2 = [{'loc': [0, 0], 'k': 0, 'g': 0, 'p': P},
            {'loc': [0, 0], 'k': 0, 'g': 1, 'p': P}]
    for loc in ([0, 0, 0], [1, 0, 0]):
        a.append({'op': 'append_circuit', 'loc': loc, 'k': 0, 'sub': sub2,
                  'as_gate': 1, 'move': 0})
    a.append({'op': 'batch_unfold', 'pts': [0, 1]})
    a.append({'op': 'pop_cycle', 'cyc': 0})
    a.append({'op': 'renumber', 'perm': [1, 0, 0]})
    a.append({'op': 'renumber', 'perm': [2, 0, 0]})
    a.append({'op': 'insert_qudit', 'q': 1, 'radix': 0})
    a.append({'op': 'pop_qudit', 'q': 0})
    a.append({'op': 'fold', 'mode': 0, 'pts': [0, 1], 'pt': 0, 'k': 1,
              'loc': [0, 0, 0]})
    a.append({'op': 'fold', 'mode': 1, 'pts': [0], 'pt': 1, 'k': 1,
              'loc': [0, 0, 0]})
    return a


def enum_histories(L: int):
    alpha = reduced_alphabet()
    for n in (2, 3):
        for length in range(1, L + 1):
            for combo in it.product(range(len(alpha)), repeat=length):
                yield {'radixes': [2] * n, 'steps': [alpha[i] for i in combo]}


def run_shard(ctx: core.Ctx) -> core.ShardResult:
    res = core.ShardResult()
    quick = ctx.tier == 'quick'
    L = 3 if quick else 4
    done = core.run_enumeration(ctx, res, enum_histories(L), check)
    res.extra['exhaustive_history_length'] = L
    res.extra['exhaustive_alphabet_size'] = len(reduced_alphabet())
    res.extra['exhaustive_part_complete'] = bool(done)
    strat = cm.histories(max_steps=40 if quick else 80,
                         max_n=5 if quick else 7)
    core.run_hypothesis(ctx, res, strat, check, ctx.n(120, 2500))
    return res
