"""C18 - every library gate obeys the gate contract for all parameters.

Case (JSON):
  {"g": <gate spec>, "p": {"seed": S, "fill": null|x, "sp": [[i, x], ...],
                           "win": null|k},
   "seed": S2, "t": "haar"|"id"|"diag"|"perm", "env": "gauss"|"unitary"}

Gate spec:
  {"g": <ClassName>, "a": [ctor args...]}                    library gate
  {"g": "ConstantUnitaryGate", "radixes": [...], "seed": S}   Haar matrix
  {"g": "DaggerGate", "inner": spec}
  {"g": "TaggedGate", "inner": spec, "tag": str|int|null|{"k": v, ...}}
  {"g": "PowerGate", "inner": spec, "power": k}
  {"g": "FrozenParameterGate", "inner": spec, "frozen": [[idx, value], ...]}
        (list order = dict insertion order)
  {"g": "ControlledGate", "inner": spec, "nc": n, "cr": [...]|int,
        "cl": null|int|[int|[int...], ...]}
  {"g": "EmbeddedGate", "inner": spec, "radixes": [...]|int,
        "maps": null|[int...]|[[int...], ...]}
  {"g": "VariableLocationGate", "inner": spec, "locs": [[...], ...],
        "radixes": [...]}   ("radixes" may be [])
  {"g": "CircuitGate", "circ": {"radixes": [...], "ops": [{"gate": spec,
        "loc": [...], "params": [...]}]}}
  {"g": "Export", "name": "U1qPiGate"}     a Gate *instance* exported by name

The parameter vector is expanded inside the check: generic values come from
``default_rng(p.seed).uniform(-2pi, 2pi)``, ``fill`` overrides every entry,
``sp`` overrides single entries (index modulo the length) with special
values; for a VariableLocationGate ``win`` (if not null) saturates the
trailing location parameters so that location ``win`` is selected.
"""
from __future__ import annotations

import inspect
import math
import pickle

import numpy as np
from hypothesis import strategies as st

from vt import core
from vt.core import Outcome
from vt.gen import specs as S
from vt.oracle import refsim

ID = 'C18'
LEVEL = 'exploration'
RULE = (
    'cases: one Hypothesis family per concrete class exported by '
    'bqskit.ir.gates (found by reflection over __all__; a class without a '
    'registered constructor strategy is a harness error). Constructor '
    'arguments: radix 2-5 for qudit gates, ControlledGate with 1-3 controls '
    '/ control radixes 2-4 / control levels as None, int or per-control lists '
    'with several levels / any inner gate, PowerGate power -3..4, DaggerGate, '
    'FrozenParameterGate with any subset (insertion order drawn), '
    'EmbeddedGate with level maps, TaggedGate (str/int/None/dict tags), '
    'VariableLocationGate, PermutationGate, SubSwapGate, PDGate, '
    'ConstantUnitary/VariableUnitary/Pauli/PauliZ/Diagonal of 1-3 qudits, '
    'CircuitGate of 0-4 operations, IdentityGate, MPRY/MPRZ, '
    'ArbitraryCPhaseGate with mixed radixes, RSU3Gate index 0..7. Parameter '
    'vectors mix generic reals in [-2pi, 2pi] with 0, +-pi/2, +-pi, 2pi, '
    'pi/4, 1e-9, -1e-7, 50.25, -47.5. Non-trivial: non-default constructor '
    'arguments (any argument, wrapper or export) or >= 1 special parameter '
    'value. Distinct = sha1 of the JSON case. Labels cls:<Name> count the '
    'cases per exported class.'
)
ASSUMPTIONS = [
    'numpy linear algebra (matmul, matrix_power, conj/transpose, svd-free '
    'index arithmetic) is correct',
    'Qiskit 2.5.2 gate library matrices (Operator(gate)) are the reference '
    'for shared gate names; bit order handled by reverse_qargs()',
    'vt.oracle.refsim places a k-qudit matrix at a location correctly '
    '(used for CircuitGate and VariableLocationGate)',
    'central finite differences with step 1e-6 approximate the derivative to '
    '1e-5 (scaled) for the smooth library gates',
    'optimize() is judged one-directionally against the documented objective '
    'Re tr(env U(p)) or its phase-insensitive form |tr(env U(p))| (what '
    'QFactor minimises); attaining either maximum over the candidates passes',
    'inner gate matrices used by the composed-gate algebra come from the '
    'inner gate\'s own get_unitary (the inner gate is judged separately)',
]
SHARDS = {'quick': 16, 'thorough': 16}
BUDGET_S = {'quick': 170, 'thorough': 2400}

# ------------------------------------------------------------------ tolerances
TOL_UNITARY = 1e-9      # max |U^dagger U - I|
FD_STEP = 1e-6          # central finite-difference step
TOL_FD = 1e-5           # times max(1, |grad|max)
TOL_EQ = 1e-9           # two computations of the same matrix/gradient
TOL_INV = 1e-9          # max |U V - I| for the inverse gate
TOL_CALC = 1e-7         # calc_params reproduction
TOL_ALG = 1e-9          # composed gate vs numpy algebra
TOL_QISKIT = 1e-9       # Qiskit differential
TOL_OPT = 1e-7          # optimize(): allowed shortfall
N_OPT_RANDOM = 200      # random candidates optimize() must not lose against

PI = math.pi
SPECIAL = [0.0, PI / 2, -PI / 2, PI, -PI, 2 * PI, PI / 4, 1e-9, -1e-7,
           50.25, -47.5]


def _G():
    import bqskit.ir.gates as G
    return G


# =========================================================== class registries
# Hand-written from the class docstrings: (number of qubits, number of params)
QUBIT_FIXED = {
    # one qubit constants
    'XGate': (1, 0), 'YGate': (1, 0), 'ZGate': (1, 0), 'SGate': (1, 0),
    'SdgGate': (1, 0), 'TGate': (1, 0), 'TdgGate': (1, 0),
    'SqrtXGate': (1, 0), 'SqrtXdgGate': (1, 0), 'SqrtTGate': (1, 0),
    # two qubit constants
    'BGate': (2, 0), 'CHGate': (2, 0), 'CSGate': (2, 0), 'CTGate': (2, 0),
    'CNOTGate': (2, 0), 'CYGate': (2, 0), 'CZGate': (2, 0), 'ECRGate': (2, 0),
    'ISwapGate': (2, 0), 'SqrtCNOTGate': (2, 0), 'SqrtISwapGate': (2, 0),
    'SycamoreGate': (2, 0), 'XXGate': (2, 0), 'YYGate': (2, 0),
    'ZZGate': (2, 0),
    # three / four qubit constants
    'CCXGate': (3, 0), 'IToffoliGate': (3, 0), 'RCCXGate': (3, 0),
    'RC3XGate': (4, 0),
    # parameterised qubit gates
    'RXGate': (1, 1), 'RYGate': (1, 1), 'RZGate': (1, 1), 'U1Gate': (1, 1),
    'U2Gate': (1, 2), 'U3Gate': (1, 3), 'U1qGate': (1, 2),
    'PhasedXZGate': (1, 3),
    'CPGate': (2, 1), 'CRXGate': (2, 1), 'CRYGate': (2, 1), 'CRZGate': (2, 1),
    'CUGate': (2, 4), 'FSIMGate': (2, 2), 'RXXGate': (2, 1), 'RYYGate': (2, 1),
    'RZZGate': (2, 1), 'CCPGate': (3, 1),
}
# fixed qutrit gates: (radixes, params)
QUTRIT_FIXED = {
    'CPIGate': ((3, 3), 0), 'CKMGate': ((3,), 4), 'CKMdgGate': ((3,), 4),
    'U8Gate': ((3,), 8),
}
EXPORTED_INSTANCES = {
    # name: (base spec, frozen) - documented as U1q with theta frozen
    'U1qPiGate': ('U1qGate', {0: PI}),
    'U1qPi2Gate': ('U1qGate', {0: PI / 2}),
}
# not concrete unitary gate classes: exempt, with the reason
EXEMPT = {
    'ComposedGate': 'abstract base (no get_unitary)',
    'QuditGate': 'abstract base (no get_unitary)',
    'GeneralGate': 'abstract base (abstract calc_params)',
    'ConstantGate': 'abstract base (no get_unitary)',
    'MeasurementPlaceholder': 'placeholder, not a unitary gate',
    'BarrierPlaceholder': 'placeholder, not a unitary gate',
    'Reset': 'placeholder, not a unitary gate',
}
COMPOSED = (
    'DaggerGate', 'TaggedGate', 'PowerGate', 'FrozenParameterGate',
    'ControlledGate', 'EmbeddedGate', 'VariableLocationGate',
)

# ---------------------------------------------------------- Qiskit name table
# Hand-reviewed.  Key: name exported by bqskit.ir.gates.  Value:
# (qiskit.circuit.library class, how the BQSKit parameters / constructor
# arguments become the Qiskit constructor arguments, condition on the
# BQSKit constructor arguments).  Every pair is compared EXACTLY (no global
# phase): Qiskit documents no phase difference between its definition and
# the BQSKit docstring for any of them (RZ is diag(e^-it/2, e^it/2) and
# U1 is diag(1, e^it) in both libraries).  Bit order: BQSKit qudit 0 is
# most significant, Qiskit qubit 0 least: Operator(...).reverse_qargs().
_P = 'params'           # Qiskit ctor args = BQSKit parameter vector
QISKIT_MAP = {
    # names shared verbatim with qiskit.circuit.library
    'HGate': ('HGate', _P, 'radix2'), 'XGate': ('XGate', _P, None),
    'YGate': ('YGate', _P, None), 'ZGate': ('ZGate', _P, None),
    'SGate': ('SGate', _P, None), 'SdgGate': ('SdgGate', _P, None),
    'TGate': ('TGate', _P, None), 'TdgGate': ('TdgGate', _P, None),
    'SXGate': ('SXGate', _P, None), 'SXdgGate': ('SXdgGate', _P, None),
    'CXGate': ('CXGate', _P, None), 'CYGate': ('CYGate', _P, None),
    'CZGate': ('CZGate', _P, None), 'CHGate': ('CHGate', _P, None),
    'CSGate': ('CSGate', _P, None), 'CCXGate': ('CCXGate', _P, None),
    'RCCXGate': ('RCCXGate', _P, None), 'RC3XGate': ('RC3XGate', _P, None),
    'SwapGate': ('SwapGate', _P, 'radix2'), 'ECRGate': ('ECRGate', _P, None),
    'RXGate': ('RXGate', _P, None), 'RYGate': ('RYGate', _P, None),
    'RZGate': ('RZGate', _P, None), 'RXXGate': ('RXXGate', _P, None),
    'RYYGate': ('RYYGate', _P, None), 'RZZGate': ('RZZGate', _P, None),
    'U1Gate': ('U1Gate', _P, None), 'U2Gate': ('U2Gate', _P, None),
    'U3Gate': ('U3Gate', _P, None), 'CRXGate': ('CRXGate', _P, None),
    'CRYGate': ('CRYGate', _P, None), 'CRZGate': ('CRZGate', _P, None),
    'CUGate': ('CUGate', _P, None),          # (theta, phi, lam, gamma) both
    # same name, constructor differs: the diagonal / the qubit pattern
    'DiagonalGate': ('DiagonalGate', 'diag', None),
    'PermutationGate': ('PermutationGate', 'perm', None),
    # BQSKit aliases / synonyms of the above (same object, other name)
    'CNOTGate': ('CXGate', _P, None), 'ToffoliGate': ('CCXGate', _P, None),
    'MargolusGate': ('RCCXGate', _P, None),
    'SqrtXGate': ('SXGate', _P, None), 'SqrtXdgGate': ('SXdgGate', _P, None),
    # spelled differently in Qiskit, same standard gate
    'ISwapGate': ('iSwapGate', _P, None),
    'CPGate': ('CPhaseGate', _P, None),
    'SqrtCNOTGate': ('CSXGate', _P, None),
    'U1qGate': ('RGate', _P, None),           # Quantinuum U1q == R(theta,phi)
    'CCPGate': ('MCPhaseGate', 'ccp', None),  # MCPhaseGate(lam, 2 controls)
    'IdentityGate': ('IGate', _P, 'identity1'),
}
# exported names that also exist in qiskit.circuit.library but denote a
# different object there: deliberately not compared
QISKIT_DIFFERENT = {
    'PauliGate': 'Qiskit: fixed Pauli-string gate PauliGate(label); BQSKit: '
                 'exp(-i/2 sum alpha_k sigma_k) over all Pauli strings',
}


def _qiskit_names() -> set:
    import qiskit.circuit.library as L
    return {n for n in dir(L) if n.endswith('Gate')}


# ================================================================ spec helpers
def _prod(xs) -> int:
    acm = 1
    for x in xs:
        acm *= int(x)
    return acm


def _norm_levels(nc: int, cr: list, cl) -> list:
    """Control levels as documented by ControlledGate.__init__."""
    if cl is None:
        return [[r - 1] for r in cr]
    if isinstance(cl, int):
        return [[cl] for _ in range(nc)]
    return [[x] if isinstance(x, int) else list(x) for x in cl]


def _norm_cr(nc: int, cr) -> list:
    return [cr] * nc if isinstance(cr, int) else list(cr)


ALIASES = {   # exported alias -> class name (documented synonyms)
    'SXGate': 'SqrtXGate', 'SXdgGate': 'SqrtXdgGate', 'CXGate': 'CNOTGate',
    'ToffoliGate': 'CCXGate', 'MargolusGate': 'RCCXGate',
}


def cname(spec: dict) -> str:
    if spec['g'] == 'Export':
        return spec['name']
    return ALIASES.get(spec['g'], spec['g'])


def expect(spec: dict) -> tuple:
    """(radixes, num_params) a gate built from ``spec`` must advertise,
    derived from the constructor arguments and the docstrings only."""
    g = ALIASES.get(spec['g'], spec['g'])
    a = spec.get('a', [])
    if g in QUBIT_FIXED:
        n, k = QUBIT_FIXED[g]
        return (2,) * n, k
    if g in QUTRIT_FIXED:
        return QUTRIT_FIXED[g]
    if g in ('HGate', 'ShiftGate'):
        return ((a[0] if a else 2),), 0
    if g == 'ClockGate':
        return ((a[0] if a else 3),), 0
    if g == 'PDGate':
        return ((a[1] if len(a) > 1 else 3),), 0
    if g == 'CSUMGate':
        r = a[0] if a else 3
        return (r, r), 0
    if g == 'SwapGate':
        r = a[0] if a else 2
        return (r, r), 0
    if g == 'SubSwapGate':
        return (a[0], a[0]), 0
    if g == 'IdentityGate':
        n = a[0] if a else 1
        r = a[1] if len(a) > 1 and a[1] else [2] * n
        return tuple(r), 0
    if g == 'PermutationGate':
        return (2,) * a[0], 0
    if g == 'ConstantUnitaryGate':
        return tuple(spec['radixes']), 0
    if g == 'VariableUnitaryGate':
        r = a[1] if len(a) > 1 and a[1] else [2] * a[0]
        return tuple(r), 2 * _prod(r) ** 2
    if g == 'PauliGate':
        return (2,) * a[0], 4 ** a[0]
    if g == 'PauliZGate':
        return (2,) * a[0], 2 ** a[0]
    if g == 'DiagonalGate':
        n = a[0] if a else 2
        return (2,) * n, 2 ** n - 1
    if g in ('MPRYGate', 'MPRZGate'):
        return (2,) * a[0], 2 ** (a[0] - 1)
    if g == 'ArbitraryCPhaseGate':
        r = a[0] if a and a[0] else [2, 2]
        return tuple(r), 1
    if g == 'RSU3Gate':
        return (3,), 1
    if g == 'Export':
        base, frozen = EXPORTED_INSTANCES[spec['name']]
        r, k = expect({'g': base})
        return r, k - len(frozen)
    if g in ('DaggerGate', 'TaggedGate', 'PowerGate'):
        return expect(spec['inner'])
    if g == 'FrozenParameterGate':
        r, k = expect(spec['inner'])
        return r, k - len(spec['frozen'])
    if g == 'ControlledGate':
        r, k = expect(spec['inner'])
        return tuple(_norm_cr(spec['nc'], spec['cr'])) + tuple(r), k
    if g == 'EmbeddedGate':
        r, k = expect(spec['inner'])
        rr = spec['radixes']
        return tuple([rr] * len(r) if isinstance(rr, int) else rr), k
    if g == 'VariableLocationGate':
        r, k = expect(spec['inner'])
        if spec.get('radixes'):
            rad = tuple(spec['radixes'])
        else:
            m = len({q for l in spec['locs'] for q in l})
            rad = (2,) * m
        return rad, k + len(spec['locs'])
    if g == 'CircuitGate':
        c = spec['circ']
        return tuple(c['radixes']), sum(
            expect(o['gate'])[1] for o in c['ops']
        )
    raise core.HarnessError(f'C18: no expectation rule for spec {spec!r}')


def build(spec: dict):
    """Construct the BQSKit gate a spec describes."""
    G = _G()
    g = spec['g']
    if g == 'ConstantUnitaryGate':
        r = list(spec['radixes'])
        return G.ConstantUnitaryGate(S.haar(_prod(r), spec['seed']), r)
    if g == 'DaggerGate':
        return G.DaggerGate(build(spec['inner']))
    if g == 'TaggedGate':
        return G.TaggedGate(build(spec['inner']), spec['tag'])
    if g == 'PowerGate':
        return G.PowerGate(build(spec['inner']), spec['power'])
    if g == 'FrozenParameterGate':
        return G.FrozenParameterGate(
            build(spec['inner']),
            {int(i): float(v) for i, v in spec['frozen']},
        )
    if g == 'ControlledGate':
        return G.ControlledGate(
            build(spec['inner']), spec['nc'], spec['cr'], spec.get('cl'),
        )
    if g == 'EmbeddedGate':
        return G.EmbeddedGate(
            build(spec['inner']), spec['radixes'], spec.get('maps'),
        )
    if g == 'VariableLocationGate':
        return G.VariableLocationGate(
            build(spec['inner']), [tuple(l) for l in spec['locs']],
            list(spec.get('radixes') or []),
        )
    if g == 'CircuitGate':
        return G.CircuitGate(build_circuit(spec['circ']))
    if g == 'Export':
        return getattr(G, spec['name'])
    return getattr(G, g)(*spec.get('a', []))


def build_circuit(cspec: dict):
    from bqskit.ir.circuit import Circuit
    radixes = list(cspec['radixes'])
    c = Circuit(len(radixes), radixes)
    for op in cspec['ops']:
        c.append_gate(
            build(op['gate']), list(op['loc']), list(op.get('params', [])),
        )
    return c


def expand_params(pspec: dict, n: int, spec: dict) -> list:
    rng = np.random.default_rng(pspec['seed'])
    p = rng.uniform(-2 * PI, 2 * PI, n)
    if pspec.get('fill') is not None:
        p[:] = pspec['fill']
    if n:
        for i, v in pspec.get('sp', []):
            p[int(i) % n] = v
    win = pspec.get('win')
    if spec['g'] == 'VariableLocationGate' and win is not None and n:
        k = len(spec['locs'])
        for j in range(k):
            p[n - k + j] = 3.0 if j == win % k else -3.0
    return [float(x) for x in p]


def has_special(pspec: dict) -> bool:
    return pspec.get('fill') is not None or bool(pspec.get('sp'))


def nondefault_ctor(spec: dict) -> bool:
    return any(k != 'g' for k in spec) and spec.get('a', None) != []


# ================================================================== references
def _digits(x: int, radixes) -> list:
    ds = []
    for r in reversed(list(radixes)):
        ds.append(x % r)
        x //= r
    return ds[::-1]


def _undigits(ds, radixes) -> int:
    x = 0
    for d, r in zip(ds, radixes):
        x = x * r + d
    return x


def controlled_ref(U: np.ndarray, cr: list, levels: list) -> np.ndarray:
    """Block structure by control levels: the block of a control basis state
    is U when every control digit is one of its active levels, else I."""
    d = U.shape[0]
    cdim = _prod(cr)
    M = np.zeros((cdim * d, cdim * d), dtype=np.complex128)
    for c in range(cdim):
        ds = _digits(c, cr)
        active = all(ds[i] in levels[i] for i in range(len(cr)))
        M[c * d:(c + 1) * d, c * d:(c + 1) * d] = U if active else np.eye(d)
    return M


def embedded_ref(U, inner_r, radixes, maps) -> np.ndarray:
    big = np.eye(_prod(radixes), dtype=np.complex128)
    d = U.shape[0]
    tgt = [
        _undigits(
            [maps[q][x] for q, x in enumerate(_digits(i, inner_r))], radixes,
        ) for i in range(d)
    ]
    for i in range(d):
        for j in range(d):
            big[tgt[i], tgt[j]] = U[i, j]
    return big


def norm_maps(inner_r, maps) -> list:
    if maps is None:
        return [list(range(r)) for r in inner_r]
    if all(isinstance(x, int) for x in maps):
        return [list(maps) for _ in inner_r]
    return [list(m) for m in maps]


def perm_ref(n: int, loc: list) -> np.ndarray:
    """P|x_0..x_{n-1}> = |x_full[0] .. x_full[n-1]>, full = loc followed by
    the remaining qubits in increasing order (qubit 0 most significant)."""
    full = list(loc) + [i for i in range(n) if i not in loc]
    dim = 2 ** n
    P = np.zeros((dim, dim))
    for col in range(dim):
        ds = _digits(col, [2] * n)
        P[_undigits([ds[full[i]] for i in range(n)], [2] * n), col] = 1
    return P


def fd_grad(gate, p: list) -> np.ndarray:
    out = []
    for i in range(len(p)):
        a = list(p)
        b = list(p)
        a[i] += FD_STEP
        b[i] -= FD_STEP
        ua = np.asarray(gate.get_unitary(a).numpy, dtype=np.complex128)
        ub = np.asarray(gate.get_unitary(b).numpy, dtype=np.complex128)
        out.append((ua - ub) / (2 * FD_STEP))
    return np.array(out)


def maxabs(x) -> float:
    x = np.asarray(x)
    return float(np.abs(x).max()) if x.size else 0.0


def target_unitary(kind: str, dim: int, seed: int, diagonal: bool):
    rng = np.random.default_rng(seed)
    if kind == 'id':
        return np.eye(dim, dtype=np.complex128)
    if kind == 'diag' or (diagonal and kind == 'haar'):
        return np.diag(np.exp(1j * rng.uniform(-PI, PI, dim)))
    if kind == 'perm':
        if diagonal:
            return np.diag(rng.choice([1.0, -1.0], dim)).astype(np.complex128)
        return np.roll(np.eye(dim, dtype=np.complex128), 1, axis=0)
    return S.haar(dim, seed)


# ================================================================== the judge
class Judge:
    """Runs every applicable clause on one gate; records failures with the
    signature ``clause|Class``.  ``inherited`` holds the clause keys that
    already failed on an inner gate: the same clause failing on the wrapper
    is then the inner gate's defect and is not reported twice."""

    def __init__(self, out: Outcome, spec: dict, case: dict, top: bool,
                 inherited: set):
        self.out = out
        self.spec = spec
        self.case = case
        self.top = top
        self.inherited = inherited
        self.failed: set = set()
        self.cls = cname(spec)

    def fail(self, key: str, detail: str) -> None:
        self.failed.add(key)
        if key in self.inherited:
            return
        self.out.fail(f'{key}|{self.cls}', f'{detail} spec={self.spec}')

    def exc(self, clause: str, e: BaseException) -> None:
        """An unexpected exception.  The same exception type from the same
        innermost bqskit frame is one root cause: it is reported once per
        case, under the first clause that met it."""
        self.failed.add(clause)
        seen = self.out.__dict__.setdefault('_exc_seen', set())
        k = (type(e).__name__, core.innermost_repo_frame(e))
        if k in seen:
            return
        seen.add(k)
        self.out.fail(
            core.exc_sig(clause, e), f'{e!r} spec={self.spec}',
        )

    def label(self, *names: str) -> None:
        if self.top:
            self.out.label(*names)


def inner_view(spec: dict, p: list) -> list:
    """[(inner spec, inner params)] of a composed spec."""
    g = spec['g']
    if g in ('DaggerGate', 'TaggedGate', 'PowerGate', 'ControlledGate',
             'EmbeddedGate'):
        return [(spec['inner'], list(p))]
    if g == 'FrozenParameterGate':
        return [(spec['inner'], frozen_full(spec, p))]
    if g == 'VariableLocationGate':
        return [(spec['inner'], list(p[:len(p) - len(spec['locs'])]))]
    if g == 'CircuitGate':
        # operations in grid order (cycle, lowest qudit) with their slices
        c = spec['circ']
        front = [0] * len(c['radixes'])
        items = []
        for idx, o in enumerate(c['ops']):
            cyc = max(front[q] for q in o['loc'])
            for q in o['loc']:
                front[q] = cyc + 1
            items.append((cyc, min(o['loc']), idx))
        out, i = [], 0
        for _, _, idx in sorted(items):
            k = expect(c['ops'][idx]['gate'])[1]
            out.append((c['ops'][idx]['gate'], list(p[i:i + k])))
            i += k
        return out
    return []


def vlg_winner(spec: dict, p: list):
    """Index of the selected location when the softmax(10 x) weights of a
    VariableLocationGate are saturated (runner-up weight < e^-40), else
    None."""
    k = len(spec['locs'])
    if k == 1:
        return 0
    l = list(p[len(p) - k:])
    order = sorted(range(k), key=lambda i: -l[i])
    return order[0] if l[order[0]] - l[order[1]] >= 4.0 else None


def frozen_full(spec: dict, p: list) -> list:
    k = expect(spec['inner'])[1]
    fz = {int(i): float(v) for i, v in spec['frozen']}
    it = iter(p)
    return [fz[i] if i in fz else next(it) for i in range(k)]


def judge(out: Outcome, spec: dict, p: list, case: dict, top: bool) -> set:
    G = _G()
    from bqskit.ir.gate import Gate
    from bqskit.ir.gates.constantgate import ConstantGate
    from bqskit.qis.unitary import LocallyOptimizableUnitary
    from bqskit.qis.unitary.unitarymatrix import UnitaryMatrix

    inherited: set = set()
    for ispec, ip in inner_view(spec, p):
        inherited |= judge(out, ispec, ip, case, False)
    j = Judge(out, spec, case, top, inherited)

    # ------------------------------------------------------------ constructor
    try:
        gate = build(spec)
    except core.HarnessError:
        raise
    except Exception as e:
        if core.innermost_repo_frame(e) == 'outside':
            raise
        j.exc('ctor', e)
        return j.failed
    want_r, want_np = expect(spec)
    dim = _prod(want_r)
    if len(p) != want_np:
        raise core.HarnessError(f'C18: param length {len(p)} != {want_np}')

    # ---------------------------------------------- 1. advertised + unitarity
    try:
        adv = (
            tuple(int(r) for r in gate.radixes), int(gate.num_qudits),
            int(gate.dim), int(gate.num_params),
        )
    except Exception as e:
        j.exc('advertised', e)
        return j.failed
    if adv != (tuple(want_r), len(want_r), dim, want_np):
        j.fail(
            'advertised',
            f'radixes/num_qudits/dim/num_params {adv} want '
            f'{(tuple(want_r), len(want_r), dim, want_np)}',
        )
        return j.failed
    try:
        Uo = gate.get_unitary(p)
    except Exception as e:
        j.exc('get_unitary', e)
        return j.failed
    U = np.asarray(getattr(Uo, 'numpy', Uo), dtype=np.complex128)
    if U.shape != (dim, dim):
        j.fail('unitary_shape', f'{U.shape} want {(dim, dim)}')
        return j.failed
    if not isinstance(Uo, UnitaryMatrix):
        j.fail('unitary_type', f'{type(Uo).__name__}')
    elif tuple(Uo.radixes) != tuple(want_r):
        j.fail('unitary_radixes', f'{tuple(Uo.radixes)} want {want_r} p={p}')
    if not np.all(np.isfinite(U)):
        j.fail('unitary_nonfinite', f'p={p}')
        return j.failed
    dev = maxabs(U.conj().T @ U - np.eye(dim))
    if dev > TOL_UNITARY:
        j.fail('not_unitary', f'|UhU-I|={dev:.3e} p={p}')

    # ------------------------------------------------- 2. gradient clauses
    grad = None
    fd_fail = None      # reported after get_unitary_and_grad was looked at
    if want_np > 0:
        try:
            grad = np.asarray(gate.get_grad(p))
        except NotImplementedError:
            grad = None
            differentiable = None
            try:
                differentiable = bool(gate.is_differentiable())
            except Exception as e:
                j.exc('is_differentiable', e)
            if differentiable:
                j.fail('grad_missing', 'is_differentiable() but get_grad '
                       'raises NotImplementedError')
            j.label('nograd')
        except Exception as e:
            j.exc('get_grad', e)
        if grad is not None:
            j.label('has:grad')
            if grad.shape != (want_np, dim, dim):
                j.fail('grad_shape', f'{grad.shape} want '
                       f'{(want_np, dim, dim)}')
                grad = None
        if grad is not None:
            try:
                fd = fd_grad(gate, p)
            except Exception as e:
                j.exc('get_unitary', e)
                fd = None
            if fd is not None:
                scale = max(1.0, maxabs(grad), maxabs(fd))
                err = np.abs(fd - grad).reshape(want_np, -1).max(axis=1)
                if err.max() > TOL_FD * scale:
                    bad = [int(i) for i in np.nonzero(
                        err > TOL_FD * scale)[0]]
                    key = 'grad_fd'
                    if spec['g'] == 'VariableLocationGate' and \
                            vlg_winner(spec, p) is None:
                        # location weights not saturated: get_unitary
                        # projects onto the closest unitary, get_grad
                        # differentiates the unprojected matrix
                        key = 'grad_fd_mixed_locations'
                    fd_fail = (
                        key,
                        f'max|fd-grad|={err.max():.3e} at params {bad[:8]} '
                        f'p={p}',
                    )
    else:
        try:
            g0 = np.asarray(gate.get_grad(p))
            if g0.size != 0:
                j.fail('grad_shape', f'constant gate grad size {g0.size}')
        except NotImplementedError:
            pass
        except Exception as e:
            j.exc('get_grad', e)

    # get_unitary_and_grad agrees with both
    try:
        uag = gate.get_unitary_and_grad(p)
    except NotImplementedError:
        uag = None
    except Exception as e:
        j.exc('get_unitary_and_grad', e)
        uag = None
    if uag is not None:
        U2o, g2 = uag
        U2 = np.asarray(getattr(U2o, 'numpy', U2o), dtype=np.complex128)
        if U2.shape != U.shape or maxabs(U2 - U) > TOL_EQ:
            d = maxabs(U2 - U) if U2.shape == U.shape else float('nan')
            j.fail('uag_unitary', f'max diff {d:.3e} p={p}')
        if isinstance(U2o, UnitaryMatrix) and \
                tuple(U2o.radixes) != tuple(want_r):
            j.fail('uag_radixes', f'{tuple(U2o.radixes)} want {want_r}')
        g2 = np.asarray(g2)
        if grad is not None:
            if g2.shape != grad.shape:
                j.fail('uag_grad', f'shape {g2.shape} vs {grad.shape}')
            elif maxabs(g2 - grad) > TOL_EQ * max(1.0, maxabs(grad)):
                j.fail('uag_grad', f'max diff {maxabs(g2 - grad):.3e} p={p}')
        elif want_np == 0 and g2.size != 0:
            j.fail('uag_grad', f'constant gate grad size {g2.size}')
    if fd_fail is not None:
        same_cause = False
        if 'uag_unitary' in j.failed and 'uag_grad' not in j.failed:
            # get_unitary_and_grad computes another matrix than get_unitary
            # (already reported); if get_grad is the exact derivative of
            # *that* matrix, the finite-difference mismatch is the same
            # defect, not a second one
            try:
                class _UagView:
                    @staticmethod
                    def get_unitary(q):
                        return gate.get_unitary_and_grad(q)[0]
                fd2 = fd_grad(_UagView, p)
                same_cause = maxabs(fd2 - grad) <= TOL_FD * max(
                    1.0, maxabs(grad), maxabs(fd2))
            except Exception:
                same_cause = False
        if same_cause:
            j.failed.add(fd_fail[0])
        else:
            j.fail(*fd_fail)

    # expression backend vs hand-written overrides
    expr = getattr(gate, '_expr', None)
    if expr is not None:
        cls = type(gate)
        over_u = cls.get_unitary is not Gate.get_unitary
        over_g = cls.get_grad is not Gate.get_grad and \
            cls.get_grad is not ConstantGate.get_grad
        try:
            e_adv = (
                tuple(int(r) for r in expr.radices()),
                int(expr.num_params()), int(expr.dimension()),
            )
        except Exception as e:
            j.exc('expr', e)
            e_adv = None
        if e_adv is not None and e_adv != (tuple(want_r), want_np, dim):
            j.fail('expr_advertised', f'{e_adv}')
        for attr, val in (('_num_params', want_np),
                          ('_num_qudits', len(want_r)),
                          ('_radixes', tuple(want_r)), ('_dim', dim)):
            if hasattr(gate, attr):
                got = getattr(gate, attr)
                got = tuple(got) if attr == '_radixes' else got
                if got != val:
                    j.fail('expr_advertised', f'{attr}={got!r} want {val!r}')
        if over_u:
            j.label('has:expr+hand')
            try:
                Ue = np.asarray(expr(*p), dtype=np.complex128)
                if Ue.shape != U.shape or maxabs(Ue - U) > TOL_EQ:
                    j.fail('expr_unitary',
                           f'_expr(*p) vs get_unitary(p) p={p}')
            except Exception as e:
                j.exc('expr', e)
        if over_g and want_np > 0 and grad is not None:
            try:
                Ge = np.asarray(expr.gradient(*p), dtype=np.complex128)
                if Ge.shape != grad.shape or \
                        maxabs(Ge - grad) > TOL_EQ * max(1, maxabs(grad)):
                    j.fail('expr_grad',
                           f'_expr.gradient(*p) vs get_grad(p) p={p}')
            except Exception as e:
                j.exc('expr', e)

    # ------------------------------------------------------------ 3. inverse
    try:
        inv = gate.get_inverse()
        ip = list(gate.get_inverse_params(p))
        if tuple(inv.radixes) != tuple(want_r):
            j.fail('inverse_radixes', f'{inv.radixes}')
        elif len(ip) != inv.num_params:
            j.fail('inverse_params_len',
                   f'{len(ip)} for inverse with {inv.num_params} params')
        else:
            V = np.asarray(inv.get_unitary(ip).numpy, dtype=np.complex128)
            d1 = maxabs(V @ U - np.eye(dim))
            d2 = maxabs(U @ V - np.eye(dim))
            if max(d1, d2) > TOL_INV:
                if inv is gate and 'get_inverse' not in type(gate).__dict__:
                    # Gate.get_inverse returned the gate itself (its
                    # "constant and is_self_inverse()" shortcut)
                    j.failed.add('inverse')
                    if 'inverse' not in j.inherited:
                        out.fail(
                            'inverse_self_shortcut|Gate',
                            f'get_inverse() returned the gate itself but '
                            f'|UU-I|={d1:.3e} spec={spec}',
                        )
                else:
                    j.fail('inverse', f'|VU-I|={d1:.3e} |UV-I|={d2:.3e} '
                           f'inverse={inv!r} p={p} ip={ip}')
    except Exception as e:
        j.exc('inverse', e)

    # -------------------------------------------- 4. calc_params / optimize
    if isinstance(gate, G.GeneralGate):
        j.label('has:calc')
        tkind = case.get('t', 'haar')
        diagonal = spec['g'] == 'PauliZGate'
        T = target_unitary(tkind, dim, case['seed'], diagonal)
        key = 'calc_params' if tkind == 'haar' else 'calc_params_special'
        try:
            cp = [float(x) for x in gate.calc_params(
                UnitaryMatrix(T, list(want_r)))]
            if len(cp) != want_np:
                j.fail(key, f'{len(cp)} params returned, want {want_np}')
            elif not np.all(np.isfinite(cp)):
                j.fail(key, f'non-finite parameters {cp} target={tkind} '
                       f'seed={case["seed"]}')
            else:
                R = np.asarray(gate.get_unitary(cp).numpy)
                # a family with fewer than dim^2 real parameters cannot
                # represent every global phase: compare up to phase there
                if want_np < (dim if diagonal else dim * dim):
                    d = refsim.phase_max_diff(R, T)
                else:
                    d = maxabs(R - T)
                if d > TOL_CALC:
                    j.fail(key, f'reproduction error {d:.3e} target={tkind} '
                           f'seed={case["seed"]}')
        except Exception as e:
            j.exc(key, e)

    try:
        lou = isinstance(gate, LocallyOptimizableUnitary)
    except Exception as e:
        j.exc('is_locally_optimizable', e)
        lou = False
    if lou:
        j.label('has:optimize')
        rng = np.random.default_rng(case['seed'] + 17)
        if case.get('env', 'gauss') == 'unitary':
            env = S.haar(dim, case['seed'] + 5).conj().T
        elif case.get('env') == 'diag':
            env = np.diag(rng.normal(size=dim) + 1j * rng.normal(size=dim))
        else:
            env = rng.normal(size=(dim, dim)) + 1j * rng.normal(
                size=(dim, dim))
        try:
            po = [float(x) for x in gate.optimize(env)]
        except Exception as e:
            j.exc('optimize', e)
            po = None
        if po is not None:
            if len(po) != want_np:
                j.fail('optimize_len', f'{len(po)} want {want_np}')
            elif not np.all(np.isfinite(po)):
                if isinstance(gate, G.GeneralGate) and \
                        'optimize' not in type(gate).__dict__:
                    # GeneralGate.optimize is calc_params of the unitary
                    # closest to env^dagger: the non-finite values are
                    # calc_params' (an env with structure gives a
                    # non-generic unitary)
                    j.fail('calc_params_special',
                           f'optimize(env={case.get("env")}, seed='
                           f'{case["seed"]}) -> non-finite parameters {po}')
                elif 'calc_params_special' in j.inherited:
                    j.failed.add('optimize')    # the inner gate's defect
                else:
                    j.fail('optimize', f'non-finite parameters {po}')
            elif want_np > 0:
                def tr(q):
                    return np.trace(env @ np.asarray(gate.get_unitary(
                        [float(x) for x in q]).numpy))
                t_opt = tr(po)
                half = N_OPT_RANDOM // 2
                cands = [p] + list(rng.uniform(-PI, PI, (half, want_np)))
                # the other half: seeded random vectors around the returned
                # point (an argmax is in particular a local maximum)
                for sigma in (0.03, 0.3):
                    cands += list(np.asarray(po) + sigma * rng.normal(
                        size=((N_OPT_RANDOM - half) // 2, want_np)))
                vals = np.array([tr(q) for q in cands])
                best_re = float(vals.real.max())
                best_abs = float(np.abs(vals).max())
                ok_re = t_opt.real >= best_re - TOL_OPT
                ok_abs = abs(t_opt) >= best_abs - TOL_OPT
                j.label('opt:re' if ok_re else
                        ('opt:abs-only' if ok_abs else 'opt:neither'))
                if not ok_re and not ok_abs:
                    j.fail(
                        'optimize',
                        f'Re tr={t_opt.real:.6f} < best candidate '
                        f'{best_re:.6f} and |tr|={abs(t_opt):.6f} < '
                        f'{best_abs:.6f} (env={case.get("env")}, '
                        f'seed={case["seed"]}, candidate 0 = p={p})',
                    )

    # ------------------------------------------------ 5. composed-gate algebra
    ref = None
    g = spec['g']
    try:
        if g in COMPOSED or g == 'Export':
            if g == 'Export':
                base, fz = EXPORTED_INSTANCES[spec['name']]
                fspec = {'g': 'FrozenParameterGate', 'inner': {'g': base},
                         'frozen': [[i, v] for i, v in fz.items()]}
                ispec, ip = fspec['inner'], frozen_full(fspec, p)
            else:
                ispec, ip = inner_view(spec, p)[0]
            Ui = np.asarray(build(ispec).get_unitary(ip).numpy,
                            dtype=np.complex128)
            ir = expect(ispec)[0]
            if g == 'DaggerGate':
                ref = Ui.conj().T
            elif g == 'TaggedGate' or g in ('FrozenParameterGate', 'Export'):
                ref = Ui
            elif g == 'PowerGate':
                k = spec['power']
                ref = np.linalg.matrix_power(
                    Ui if k >= 0 else Ui.conj().T, abs(k))
            elif g == 'ControlledGate':
                cr = _norm_cr(spec['nc'], spec['cr'])
                ref = controlled_ref(
                    Ui, cr, _norm_levels(spec['nc'], cr, spec.get('cl')))
            elif g == 'EmbeddedGate':
                ref = embedded_ref(
                    Ui, ir, want_r, norm_maps(ir, spec.get('maps')))
            elif g == 'VariableLocationGate':
                win = vlg_winner(spec, p)
                if win is not None:
                    loc = spec['locs'][win]
                    ref = refsim.unitary_of_ops(want_r, [(Ui, list(loc))])
                    j.label('vlg:saturated')
                else:
                    j.label('vlg:mixed')
        elif g == 'CircuitGate':
            circ = build_circuit(spec['circ'])
            ref = refsim.circuit_unitary(circ, p)
        elif g == 'PermutationGate':
            ref = perm_ref(spec['a'][0], list(spec['a'][1]))
    except Exception as e:
        if core.innermost_repo_frame(e) == 'outside':
            raise
        j.exc('algebra', e)
    if ref is not None:
        d = maxabs(ref - U)
        if d > TOL_ALG:
            j.fail('algebra', f'max|ref-U|={d:.3e} p={p}')

    # ------------------------------------------------------- 6. equality/hash
    try:
        h = hash(gate)
        twin = build(spec)
        if not (gate == twin) or not (twin == gate):
            j.fail('eq_rebuild', 'two builds from the same arguments differ')
        elif hash(twin) != h:
            j.fail('hash_rebuild', 'equal rebuilds, different hash')
        try:
            cp_ = pickle.loads(pickle.dumps(gate))
        except Exception as e:
            j.exc('pickle', e)
            cp_ = None
        if cp_ is not None:
            if not (cp_ == gate) or not (gate == cp_):
                j.fail('eq_pickle', 'pickled copy != original')
            elif hash(cp_) != h:
                j.fail('hash_pickle', 'pickled copy hashes differently')
            Up = np.asarray(cp_.get_unitary(p).numpy)
            if Up.shape != U.shape or maxabs(Up - U) > TOL_EQ:
                j.fail('pickle_unitary', f'pickled copy computes another '
                       f'matrix p={p}')
        for aspec in alts(spec):
            try:
                other = build(aspec)
            except (ValueError, TypeError):
                continue    # the variant is not admissible (e.g. a frozen
                #             index that the shortened inner gate lacks)
            e1, e2 = (gate == other), (other == gate)
            if (e1 is True or e2 is True) and hash(other) != h:
                j.fail('eq_hash_alt',
                       f'a == b is {e1}/{e2} but hash differs; b={aspec}')
                break
    except core.HarnessError:
        raise
    except Exception as e:
        if core.innermost_repo_frame(e) == 'outside':
            raise
        j.exc('eq_hash', e)

    # ------------------------------------------------- 7. Qiskit differential
    if top:
        qiskit_clause(j, spec, p, U)
    return j.failed


# ------------------------------------------------ differently built variants
def alts(spec: dict, depth: int = 0) -> list:
    """Specs of gates built differently that may compare equal to ``spec``'s
    gate (whether they do is the implementation's choice; if they do, the
    hashes must agree)."""
    g = spec['g']
    a = spec.get('a', [])
    out = []
    if g == 'FrozenParameterGate' and len(spec['frozen']) >= 2:
        out.append(dict(spec, frozen=spec['frozen'][::-1]))
    if g == 'TaggedGate' and isinstance(spec['tag'], dict) \
            and len(spec['tag']) >= 2:
        out.append(dict(spec, tag=dict(reversed(list(spec['tag'].items())))))
    if g == 'CircuitGate':
        ops = spec['circ']['ops']
        if ops:
            out.append({'g': g, 'circ': dict(spec['circ'], ops=ops[:-1])})
            out.append({'g': g, 'circ': dict(spec['circ'],
                                             ops=ops + [ops[0]])})
            if ops[-1]['params']:
                flipped = dict(ops[-1], params=[
                    x + 0.5 for x in ops[-1]['params']])
                out.append({'g': g, 'circ': dict(
                    spec['circ'], ops=ops[:-1] + [flipped])})
    if g == 'ControlledGate':
        cr = _norm_cr(spec['nc'], spec['cr'])
        lv = _norm_levels(spec['nc'], cr, spec.get('cl'))
        out.append(dict(spec, cr=cr, cl=lv))
        out.append(dict(spec, cr=cr, cl=[l[::-1] for l in lv]))
    if g == 'EmbeddedGate':
        ir = expect(spec['inner'])[0]
        out.append(dict(
            spec, radixes=list(expect(spec)[0]),
            maps=norm_maps(ir, spec.get('maps')),
        ))
    if g == 'IdentityGate':
        n = a[0] if a else 1
        out.append({'g': g, 'a': [n, list(expect(spec)[0])]})
    if g == 'VariableUnitaryGate':
        out.append({'g': g, 'a': [a[0], list(expect(spec)[0])]})
    if g == 'ArbitraryCPhaseGate':
        out.append({'g': g, 'a': [list(expect(spec)[0])]})
    if g == 'PermutationGate':
        n, loc = a[0], list(a[1])
        out.append({'g': g, 'a': [
            n, loc + [i for i in range(n) if i not in loc]]})
    if g in ('MPRYGate', 'MPRZGate'):
        n = a[0]
        t = a[1] if len(a) > 1 else -1
        out.append({'g': g, 'a': [n, n - 1 if t == -1 else t]})
    if g in ('HGate', 'ShiftGate', 'SwapGate') and not a:
        out.append({'g': g, 'a': [2]})
    if g in ('ClockGate', 'CSUMGate') and not a:
        out.append({'g': g, 'a': [3]})
    if g == 'DiagonalGate' and not a:
        out.append({'g': g, 'a': [2]})
    if g == 'VariableLocationGate' and not spec.get('radixes'):
        out.append(dict(spec, radixes=list(expect(spec)[0])))
    if 'inner' in spec and depth < 2:
        for ia in alts(spec['inner'], depth + 1)[:2]:
            out.append(dict(spec, inner=ia))
    return out


# ------------------------------------------------------- Qiskit differential
def _class_to_qiskit() -> dict:
    G = _G()
    m: dict = {}
    for name, ent in QISKIT_MAP.items():
        m.setdefault(getattr(G, name).__name__, ent)
    return m


_C2Q: dict = {}


def qiskit_entry(spec: dict):
    if not _C2Q:
        _C2Q.update(_class_to_qiskit())
    ent = _C2Q.get(cname(spec))
    if ent is None:
        return None
    cond = ent[2]
    a = spec.get('a', [])
    if cond == 'radix2' and a and a[0] != 2:
        return None
    if cond == 'identity1' and expect(spec)[0] != (2,):
        return None
    return ent


def qiskit_matrix(ent, spec: dict, p: list) -> np.ndarray:
    import qiskit.circuit.library as L
    from qiskit.quantum_info import Operator
    qname, how, _ = ent
    cls = getattr(L, qname)
    if how == _P:
        qg = cls(*p)
    elif how == 'ccp':
        qg = cls(p[0], 2)
    elif how == 'diag':
        # entry k of the diagonal belongs to basis state k in each library's
        # own ordering; reverse_qargs() below translates the ordering
        n = len(expect(spec)[0])
        d = [1.0] + [complex(np.exp(1j * x)) for x in p]
        dq = [0j] * len(d)
        for k, v in enumerate(d):
            dq[int(format(k, f'0{n}b')[::-1], 2)] = v
        qg = cls(dq)
    elif how == 'perm':
        # Qiskit: pattern[k] = m, "qubit m goes to position k"; BQSKit:
        # output qudit i takes the state of input qudit full[i]
        n, loc = spec['a'][0], list(spec['a'][1])
        qg = cls(loc + [i for i in range(n) if i not in loc])
    else:
        raise core.HarnessError(f'C18: unknown Qiskit mapping {how}')
    return np.asarray(Operator(qg).reverse_qargs().data, dtype=np.complex128)


def qiskit_clause(j: Judge, spec: dict, p: list, U: np.ndarray) -> None:
    ent = qiskit_entry(spec)
    if ent is None:
        return
    j.label('has:qiskit')
    Q = qiskit_matrix(ent, spec, p)
    if Q.shape != U.shape:
        j.fail('qiskit', f'shape {Q.shape} vs {U.shape} ({ent[0]})')
        return
    d = maxabs(Q - U)
    if d > TOL_QISKIT:
        dp = refsim.phase_max_diff(U, Q)
        j.fail('qiskit', f'vs qiskit {ent[0]}: max diff {d:.3e} '
               f'(up to phase {dp:.3e}) p={p}')


# ========================================================================check
def check(case) -> Outcome:
    out = Outcome()
    spec = case['g']
    n = expect(spec)[1]
    p = expand_params(case['p'], n, spec)
    out.label('cls:' + cname(spec))
    if 'inner' in spec:
        out.label('inner:' + cname(spec['inner']))
    sp = has_special(case['p'])
    out.label('p:special' if sp else 'p:generic')
    if any(abs(x) > 40 for x in p):
        out.label('p:large')
    if any(0 < abs(x) < 1e-6 for x in p):
        out.label('p:tiny')
    out.nontrivial = bool(sp or nondefault_ctor(spec))
    judge(out, spec, p, case, True)
    return out


replay = check


# =================================================================== generators
RADIX = st.sampled_from([2, 3, 4, 5])
SEED = st.integers(0, 2 ** 31)


def _just(name):
    return st.just({'g': name})


def _args(name, *strats):
    return st.tuples(*strats).map(lambda t: {'g': name, 'a': list(t)})


@st.composite
def _radix_list(draw, min_n=1, max_n=3, max_dim=64, choices=(2, 2, 3, 4, 5)):
    n = draw(st.integers(min_n, max_n))
    out, d = [], 1
    for _ in range(n):
        r = draw(st.sampled_from(choices))
        if d * r > max_dim:
            r = 2
        if d * r > max_dim:
            break
        out.append(r)
        d *= r
    return out or [2]


@st.composite
def _pd(draw):
    r = draw(RADIX)
    return {'g': 'PDGate', 'a': [draw(st.integers(0, r - 1)), r]}


@st.composite
def _subswap(draw):
    r = draw(RADIX)
    lv = [draw(st.integers(0, r - 1)) for _ in range(4)]
    return {'g': 'SubSwapGate',
            'a': [r, f'{lv[0]},{lv[1]};{lv[2]},{lv[3]}']}


@st.composite
def _identity(draw):
    if draw(st.integers(0, 4)) == 0:
        n = draw(st.integers(1, 3))
        return {'g': 'IdentityGate', 'a': [n] if n > 1 else []}
    r = draw(_radix_list())
    return {'g': 'IdentityGate', 'a': [len(r), r]}


@st.composite
def _permutation(draw):
    n = draw(st.integers(1, 4))
    k = draw(st.integers(1, n))
    return {'g': 'PermutationGate',
            'a': [n, list(draw(st.permutations(range(n)))[:k])]}


@st.composite
def _const_unitary(draw):
    return {'g': 'ConstantUnitaryGate', 'radixes': draw(_radix_list()),
            'seed': draw(SEED)}


@st.composite
def _var_unitary(draw):
    if draw(st.integers(0, 3)) == 0:
        return {'g': 'VariableUnitaryGate', 'a': [draw(st.integers(1, 3))]}
    r = draw(_radix_list(max_dim=27, choices=(2, 2, 3, 4, 5)))
    return {'g': 'VariableUnitaryGate', 'a': [len(r), r]}


@st.composite
def _mpr(draw, name):
    n = draw(st.integers(1, 3))
    t = draw(st.sampled_from([None, -1] + list(range(n))))
    return {'g': name, 'a': [n] if t is None else [n, t]}


@st.composite
def _cphase(draw):
    if draw(st.integers(0, 5)) == 0:
        return {'g': 'ArbitraryCPhaseGate'}
    return {'g': 'ArbitraryCPhaseGate', 'a': [draw(_radix_list())]}


def _opt_radix(name):
    return st.one_of(_just(name), _args(name, RADIX))


BASE: dict = {}


def _register_base() -> None:
    if BASE:
        return
    for n in QUBIT_FIXED:
        BASE[n] = _just(n)
    for n in QUTRIT_FIXED:
        BASE[n] = _just(n)
    for n in ('HGate', 'ShiftGate', 'ClockGate', 'CSUMGate', 'SwapGate'):
        BASE[n] = _opt_radix(n)
    BASE['PDGate'] = _pd()
    BASE['SubSwapGate'] = _subswap()
    BASE['IdentityGate'] = _identity()
    BASE['PermutationGate'] = _permutation()
    BASE['ConstantUnitaryGate'] = _const_unitary()
    BASE['VariableUnitaryGate'] = _var_unitary()
    BASE['PauliGate'] = _args(
        'PauliGate', st.sampled_from([1, 1, 1, 2, 2, 2, 2, 3]))
    BASE['PauliZGate'] = _args('PauliZGate', st.integers(1, 3))
    BASE['DiagonalGate'] = st.one_of(
        _just('DiagonalGate'), _args('DiagonalGate', st.integers(1, 3)))
    BASE['MPRYGate'] = _mpr('MPRYGate')
    BASE['MPRZGate'] = _mpr('MPRZGate')
    BASE['ArbitraryCPhaseGate'] = _cphase()
    BASE['RSU3Gate'] = _args('RSU3Gate', st.integers(0, 7))
    for n in EXPORTED_INSTANCES:
        BASE[n] = st.just({'g': 'Export', 'name': n})


PARAM_NAMES = sorted(
    [n for n, (_, k) in QUBIT_FIXED.items() if k > 0]
    + [n for n, (_, k) in QUTRIT_FIXED.items() if k > 0]
    + ['VariableUnitaryGate', 'PauliGate', 'PauliZGate', 'DiagonalGate',
       'MPRYGate', 'MPRZGate', 'ArbitraryCPhaseGate', 'RSU3Gate']
    + list(EXPORTED_INSTANCES),
)
QUDIT_PARAM_NAMES = ['CKMGate', 'CKMdgGate', 'U8Gate', 'RSU3Gate',
                     'ArbitraryCPhaseGate', 'VariableUnitaryGate']


def _fits(max_dim, qubit_only, max_params, min_params=0, non_qubit=False):
    def ok(s):
        r, k = expect(s)
        return _prod(r) <= max_dim and min_params <= k <= max_params and \
            (not qubit_only or all(x == 2 for x in r)) and \
            (not non_qubit or any(x != 2 for x in r))
    return ok


def base_gate(max_dim=16, qubit_only=False, max_params=20, names=None,
              min_params=0, non_qubit=False):
    """Any non-composed gate spec within the size limits."""
    _register_base()
    names = sorted(BASE) if names is None else names
    return st.sampled_from(names).flatmap(lambda n: BASE[n]).filter(
        _fits(max_dim, qubit_only, max_params, min_params, non_qubit))


TAGS = st.one_of(
    st.sampled_from(['t', 'u', '', 7, 0, -1, None]),
    st.dictionaries(st.sampled_from(['a', 'b', 'c']), st.integers(0, 3),
                    min_size=1, max_size=3),
)
SPECIAL_OR_GENERIC = st.one_of(
    st.sampled_from(SPECIAL),
    st.floats(-2 * PI, 2 * PI, allow_nan=False, allow_infinity=False),
)


@st.composite
def wrapped(draw, kind, inner):
    """Spec of composed class ``kind`` around an inner spec strategy."""
    i = draw(inner)
    ir, ik = expect(i)
    if kind == 'DaggerGate':
        return {'g': kind, 'inner': i}
    if kind == 'TaggedGate':
        return {'g': kind, 'inner': i, 'tag': draw(TAGS)}
    if kind == 'PowerGate':
        return {'g': kind, 'inner': i, 'power': draw(st.integers(-3, 4))}
    if kind == 'FrozenParameterGate':
        idx = draw(st.lists(st.integers(0, max(ik - 1, 0)), unique=True,
                            max_size=ik))
        return {'g': kind, 'inner': i,
                'frozen': [[x, draw(SPECIAL_OR_GENERIC)] for x in idx]}
    if kind == 'ControlledGate':
        nc = draw(st.integers(1, 3))
        room = max(2, 64 // _prod(ir))
        cr, d = [], 1
        for _ in range(nc):
            r = draw(st.sampled_from([2, 2, 3, 4]))
            if d * r > room:
                r = 2
            cr.append(r)
            d *= r
        form = draw(st.sampled_from(['none', 'int', 'lists', 'lists']))
        spec = {'g': kind, 'inner': i, 'nc': nc, 'cr': cr}
        if len(set(cr)) == 1 and draw(st.booleans()):
            spec['cr'] = cr[0]
        if form == 'int':
            spec['cl'] = draw(st.integers(0, min(cr) - 1))
        elif form == 'lists':
            cl = []
            for r in cr:
                lv = draw(st.lists(st.integers(0, r - 1), unique=True,
                                   min_size=1, max_size=r))
                cl.append(lv[0] if len(lv) == 1 and draw(st.booleans())
                          else lv)
            spec['cl'] = cl
        return spec
    if kind == 'EmbeddedGate':
        rad = [draw(st.integers(r, 5)) for r in ir]
        while _prod(rad) > 64:
            k = max(range(len(rad)), key=lambda q: rad[q] - ir[q])
            if rad[k] == ir[k]:
                break
            rad[k] -= 1
        form = draw(st.sampled_from(['none', 'lists', 'lists', 'single']))
        spec = {'g': kind, 'inner': i, 'radixes': rad}
        if len(set(rad)) == 1 and draw(st.booleans()):
            spec['radixes'] = rad[0]
        if form == 'lists' or (form == 'single' and len(set(ir)) != 1):
            spec['maps'] = [
                list(draw(st.permutations(range(R)))[:r])
                for r, R in zip(ir, rad)
            ]
        elif form == 'single':
            spec['maps'] = list(
                draw(st.permutations(range(min(rad))))[:ir[0]])
        return spec
    if kind == 'VariableLocationGate':
        k = len(ir)
        m = draw(st.integers(k, min(4, k + 2)))
        nl = draw(st.integers(1, 3))
        locs = [list(draw(st.permutations(range(m)))[:k]) for _ in range(nl)]
        used = sorted({q for l in locs for q in l})
        ren = {q: t for t, q in enumerate(used)}
        locs = [[ren[q] for q in l] for l in locs]
        spec = {'g': kind, 'inner': i, 'locs': locs, 'radixes': []}
        if draw(st.booleans()):
            spec['radixes'] = [2] * len(used)
        return spec
    raise core.HarnessError(f'C18: unknown wrapper {kind}')


def any_inner(max_dim=16, qubit_only=False, max_params=20, depth=1):
    """"Any inner gate": every base class, with the parameterised ones, the
    non-qubit parameterised ones and one level of composed gates
    over-weighted (the constants are three quarters of the library)."""
    b = base_gate(max_dim, qubit_only, max_params)
    bp = base_gate(max_dim, qubit_only, max_params, PARAM_NAMES, 1)
    if depth <= 0:
        return st.one_of(b, bp)
    kinds = ['DaggerGate', 'TaggedGate', 'PowerGate', 'FrozenParameterGate',
             'ControlledGate', 'EmbeddedGate']
    small = st.one_of(
        base_gate(4, qubit_only, max_params),
        base_gate(4, qubit_only, max_params, PARAM_NAMES, 1),
    )
    fits = _fits(max_dim, qubit_only, max_params)
    w = st.sampled_from(kinds).flatmap(lambda kd: wrapped(kd, small))
    pools = [b, bp, bp, w.filter(fits)]
    if not qubit_only:
        pools.append(circuit_gate(max_ops=2).filter(fits))
        pools.append(base_gate(max_dim, False, max_params, QUDIT_PARAM_NAMES,
                               1, True))
        pools.append(st.sampled_from(['EmbeddedGate', 'ControlledGate'])
                     .flatmap(lambda kd: wrapped(kd, base_gate(
                         4, True, max_params, PARAM_NAMES, 1)))
                     .filter(_fits(max_dim, False, max_params, 1, True)))
    return st.one_of(*pools)


@st.composite
def circuit_gate(draw, max_ops=4):
    radixes = draw(_radix_list(max_n=3, max_dim=36, choices=(2, 2, 2, 3, 4)))
    n = len(radixes)
    ops = []
    for _ in range(draw(st.integers(0, max_ops))):
        k = draw(st.integers(1, min(3, n)))
        loc = list(draw(st.permutations(range(n)))[:k])
        gs = draw(S.gate_for(tuple(radixes[q] for q in loc), rich=True,
                             wrappers=False))
        params = draw(st.lists(SPECIAL_OR_GENERIC, min_size=expect(gs)[1],
                               max_size=expect(gs)[1]))
        ops.append({'gate': gs, 'loc': loc, 'params': params})
    return {'g': 'CircuitGate', 'circ': {'radixes': radixes, 'ops': ops}}


PARAM_SPEC = st.fixed_dictionaries({
    'seed': SEED,
    'fill': st.one_of(st.none(), st.none(), st.none(),
                      st.sampled_from(SPECIAL)),
    'sp': st.lists(
        st.tuples(st.integers(0, 63), st.sampled_from(SPECIAL)).map(list),
        max_size=3),
    'win': st.one_of(st.none(), st.integers(0, 2), st.integers(0, 2)),
})


def cases(spec_strategy):
    return st.fixed_dictionaries({
        'g': spec_strategy, 'p': PARAM_SPEC, 'seed': SEED,
        't': st.sampled_from(['haar', 'haar', 'haar', 'id', 'diag', 'perm']),
        'env': st.sampled_from(['gauss', 'gauss', 'unitary', 'diag']),
    })


def families() -> list:
    """[(family name, spec strategy, weight)] covering every concrete class
    exported by bqskit.ir.gates; raises HarnessError for a class without a
    registered strategy and for a Qiskit-shared name without a table row."""
    G = _G()
    from bqskit.ir.gate import Gate
    _register_base()
    strategies = dict(BASE)
    strategies['DaggerGate'] = wrapped('DaggerGate', any_inner(32))
    strategies['TaggedGate'] = wrapped('TaggedGate', any_inner(32))
    strategies['PowerGate'] = wrapped('PowerGate', any_inner(16))
    strategies['FrozenParameterGate'] = wrapped(
        'FrozenParameterGate', any_inner(16))
    strategies['ControlledGate'] = wrapped('ControlledGate', any_inner(9))
    strategies['EmbeddedGate'] = wrapped('EmbeddedGate', any_inner(16))
    strategies['VariableLocationGate'] = wrapped(
        'VariableLocationGate',
        any_inner(4, qubit_only=True, max_params=6, depth=1),
    )
    strategies['CircuitGate'] = circuit_gate()
    weights = {
        'ControlledGate': 4, 'EmbeddedGate': 3, 'PowerGate': 3,
        'FrozenParameterGate': 3, 'DaggerGate': 2, 'TaggedGate': 2,
        'VariableLocationGate': 3, 'CircuitGate': 3,
    }
    plan, seen = [], set()
    for name in G.__all__:
        obj = getattr(G, name)
        if inspect.isclass(obj):
            key = obj.__name__
            if key in EXEMPT:
                continue
            if not issubclass(obj, Gate):
                raise core.HarnessError(
                    f'C18: exported class {name} is not a Gate')
        elif isinstance(obj, Gate):
            key = name
        else:
            raise core.HarnessError(
                f'C18: export {name} is neither a Gate class nor instance')
        if key in seen:
            continue
        seen.add(key)
        if key not in strategies:
            raise core.HarnessError(
                f'C18: no constructor strategy registered for exported gate '
                f'{name} (class {key}); add one to vt/props/c18.py',
            )
        for rep in range(weights.get(key, 1)):
            plan.append((key, strategies[key]))
    # Qiskit name table must cover every shared name
    exported = set(G.__all__)
    for name in sorted(exported & _qiskit_names()):
        if name not in QISKIT_MAP and name not in QISKIT_DIFFERENT:
            raise core.HarnessError(
                f'C18: gate name {name} is shared with qiskit.circuit.library '
                f'but has no row in QISKIT_MAP / QISKIT_DIFFERENT',
            )
    for name in QISKIT_MAP:
        if name not in exported:
            raise core.HarnessError(f'C18: QISKIT_MAP row {name} not exported')
    return plan


def qiskit_enumeration():
    """Every Qiskit table row with fixed parameter vectors (finite part)."""
    G = _G()
    seen = set()
    for name in sorted(QISKIT_MAP):
        cls = getattr(G, name).__name__
        if cls in seen:
            continue
        seen.add(cls)
        if cls == 'PermutationGate':
            specs = [{'g': cls, 'a': [n, list(l)]} for n, l in (
                (2, [1]), (3, [1, 2]), (3, [2, 0]), (3, [2, 0, 1]),
                (4, [3, 1]), (4, [2, 3, 0]))]
        elif cls == 'DiagonalGate':
            specs = [{'g': cls, 'a': [n]} for n in (1, 2, 3)]
        elif cls in ('HGate', 'SwapGate', 'IdentityGate'):
            specs = [{'g': cls}]
        else:
            specs = [{'g': cls}]
        for s in specs:
            for k, fill in enumerate([None, None, 0.0, PI / 2, -PI, 50.25]):
                yield {
                    'g': s, 'seed': 11 + k, 't': 'haar', 'env': 'gauss',
                    'p': {'seed': 101 + k, 'fill': fill, 'sp': [],
                          'win': None},
                }


QUICK_PER_FAMILY = 120
THOROUGH_PER_FAMILY = 2000
MAX_SHRINKS_PER_SHARD = {'quick': 6, 'thorough': 40}


def run_shard(ctx: core.Ctx) -> core.ShardResult:
    import dataclasses
    res = core.ShardResult()
    plan = families()
    done = core.run_enumeration(ctx, res, qiskit_enumeration(), check)
    res.extra['qiskit_table_enumerated'] = bool(done)
    res.extra['gate_classes_covered'] = sorted({k for k, _ in plan})
    # heavy (repeated) families first so that they spread over the shards
    order = sorted(
        range(len(plan)),
        key=lambda i: (-sum(1 for k, _ in plan if k == plan[i][0]), i),
    )
    # A signature is shrunk at most once per shard and a shard shrinks at
    # most MAX_SHRINKS_PER_SHARD signatures (the same defect shows up in
    # every family that can wrap the defective gate; a shrink pass costs more
    # than generating a whole family).  Count-based, so runs stay a pure
    # function of the seed.
    attempted: list = []
    cap = MAX_SHRINKS_PER_SHARD[ctx.tier]
    for pos, i in enumerate(order):
        if pos % ctx.nshards != ctx.shard:
            continue
        name, strat = plan[i]
        left = max(0, cap - len(attempted))
        sub_ctx = dataclasses.replace(
            ctx, known_sigs=tuple(ctx.known_sigs) + tuple(attempted),
        )
        before = set(res.buckets)
        core.run_hypothesis(
            sub_ctx, res, cases(strat), check,
            ctx.n(QUICK_PER_FAMILY, THOROUGH_PER_FAMILY), sub=i,
            shrink=left > 0, max_shrink_sigs=min(2, left),
        )
        if left > 0:
            new = [s for s in res.buckets
                   if s not in before and not sub_ctx.is_known(s)]
            attempted += new[:min(2, left)]
    return res
