"""C12 - cancelling work removes it everywhere and disturbs nothing else."""
from __future__ import annotations

import logging

from hypothesis import strategies as st

from vt import core
from vt.core import Outcome
from vt.props import simcommon as sc
from vt.simrt import programs as P

ID = 'C12'
LEVEL = 'exploration'
RULE = (
    'cases: (task program with cancellation nodes, topology, schedule/policy, '
    'client behaviour). Programs mix submit/map/next nodes with "map, take b '
    'batches with next(), cancel the rest" and "submit, cancel, optionally '
    'await (must raise)" nodes at any depth; the client either just fetches '
    'the result, or submits a second cancellation-free compilation and '
    'cancels the first one / disconnects after a drawn number of simulator '
    'actions. Executed on the deterministic simulator (real Worker/Server/'
    'Manager/Compiler code). Non-trivial: a CANCEL was delivered to >= 1 '
    'worker while >= 1 task of the cancelled subtree was delayed, ready, '
    'parked, running elsewhere or had a message in flight (measured from the '
    'action log as: the worker held such a task, or a SUBMIT/RESULT for it '
    'was still undelivered). Distinct = sha1 of the JSON case.'
)
ASSUMPTIONS = [
    'channel model: reliable FIFO per direction; handlers run atomically '
    'except for up to 3 line-level pre-emptions of a worker main step (the '
    'incoming-message handler runs whole messages at a drawn source line)',
    'hygiene is read at quiescence through plain attribute reads of the real '
    'objects (_tasks, _mailboxes, _delayed_tasks, ready queue; server '
    'mailboxes/clients)',
]
SHARDS = {'quick': 16, 'thorough': 16}
BUDGET_S = {'quick': 200, 'thorough': 2400}
KINDS = ('seq', 'map', 'mapnext', 'mapcancel', 'subcancel', 'forget')


def _nodes(spec):
    yield spec
    for k in spec.get('kids', []) or []:
        yield from _nodes(k)
    if 'kid' in spec:
        yield from _nodes(spec['kid'])


@sc.abandon_safe
def check(case) -> Outcome:
    from vt.simrt.sim import Hang, Sim, StepBound, make_root_task
    from bqskit.runtime.message import RuntimeMessage as M
    logging.disable(logging.CRITICAL)
    out = Outcome()
    spec = sc.normalise(case['prog'])
    # a "submit, cancel, await" node outside any cancellable subtree must make
    # the compilation fail with the documented RuntimeError; inside one it is
    # turned into the non-awaiting variant so the outcome stays determinate
    def fix_wait(n, under=False, top=True):
        n = dict(n)
        if n['t'] == 'subcancel':
            if under:
                n['wait'] = False
            n['kid'] = fix_wait(n['kid'], True, False)
        elif n['t'] in ('mapcancel', 'forget'):
            n['kids'] = [fix_wait(k, True, False) for k in n['kids']]
        elif 'kids' in n:
            n['kids'] = [fix_wait(k, under, False) for k in n['kids']]
        return n
    spec = fix_wait(spec, under=case.get('client', {}).get('mode', 'none')
                    != 'none')
    expect_await_error = any(
        n.get('wait') for n in _nodes(spec) if n['t'] == 'subcancel'
    )
    client = case.get('client', {'mode': 'none'})
    mode = client['mode']
    spec2 = None
    if mode != 'none':
        spec2 = sc.normalise(client['prog2'], [1000])
    P.reset()
    sim = Sim(case['topo'], case['sched'], policy=case.get('policy'),
              nclients=2 if mode == 'disconnect' else 1)
    sim.inject = sc.resolve_injections(case.get('inject', []),
                                       sorted(sim.workers))
    sim.rinject = sc.resolve_rinjections(case.get('rinject', []),
                                         sorted(sim.workers))
    try:
        comp = sim.compiler(0)
        task = make_root_task(spec)
        res = res2 = None
        try:
            comp._send(M.SUBMIT, task)
            if mode == 'none':
                res = comp.result(task.task_id)
            else:
                other = sim.compiler(1) if mode == 'disconnect' else comp
                task2 = make_root_task(spec2)
                other._send(M.SUBMIT, task2)
                sim.run_n(client['at'])
                if mode == 'cancel':
                    ok = comp.cancel(task.task_id)
                    if ok is not True:
                        out.fail('client_cancel_return', repr(ok))
                else:
                    comp.close()
                res2 = other.result(task2.task_id)
        except Hang:
            out.fail('hang|client_blocked_at_quiescence',
                     f'mode={mode} trace tail {sim.trace[-8:]}')
            return out
        except StepBound:
            out.label('step-bound')
            return out
        except RuntimeError as e:
            sig, det = sc.client_error(e)
            if expect_await_error and mode == 'none' and \
                    'Cannot await on a canceled task' in det:
                # awaiting a cancelled future fails: the documented outcome
                out.label('await-cancelled-raised')
                out.nontrivial = True
                return out
            out.fail(sig, det)
            return out
        if expect_await_error and mode == 'none':
            out.fail('await_cancelled_did_not_fail',
                     f'result {str(res)[:200]}')
            return out
        try:
            sim.drain()
        except StepBound:
            out.label('step-bound')
            return out
        # ---- (1) values
        if res is not None:
            d = P.value_matches(P.expected(spec), res[1]['res'])
            if d is not None:
                out.fail('wrong_value', d)
        if res2 is not None:
            d = P.value_matches(P.expected(spec2), res2[1]['res'])
            if d is not None:
                out.fail('other_task_wrong_value', d)
        for e in P.PROTO_ERRORS:
            out.fail('protocol|' + e[0], str(e))
        # ---- (2) execution counts
        counts = sc.exec_counts()
        whole_cancelled = mode != 'none'
        for tag, kind, canc in P.leaves(spec):
            n = counts.get(tag, 0)
            if canc or whole_cancelled:
                if n > 1:
                    out.fail('cancelled_body_ran_twice', f'{tag} x{n}')
                    break
            elif n != 1:
                out.fail('body_not_exactly_once', f'{kind} {tag} ran {n}x')
                break
        if spec2 is not None:
            for tag, kind, canc in P.leaves(spec2):
                if counts.get(tag, 0) != 1:
                    out.fail('other_task_body_not_exactly_once',
                             f'{tag} x{counts.get(tag, 0)}')
                    break
        # no body of a cancelled subtree starts on a worker after that worker
        # handled the CANCEL
        for tag, wid, when, lineage in P.EXEC_LOG:
            if str(tag).startswith('cancelled:'):
                continue
            for (t, wname, addr) in sim.cancel_handled:
                if wname == f'W{wid}' and t < when and addr in lineage:
                    out.fail('body_started_after_cancel_handled',
                             f'{tag} on W{wid} at {when}, CANCEL {addr} '
                             f'handled at {t}')
                    break
        # a CANCEL is sent per slot of the cancelled future; once a worker has
        # handled every CANCEL that was sent for a future it must not start
        # any body belonging to that future (this also exposes a cancel that
        # forgets some of the slots)
        sent_for: dict = {}
        for sender, recv, mname, payload in sim.msg_log:
            if mname == 'CANCEL' and sender.startswith('W') and \
                    payload is not None:
                a = tuple(payload)
                sent_for.setdefault(a[:2], set()).add(a)
        for tag, wid, when, lineage in P.EXEC_LOG:
            if str(tag).startswith('cancelled:'):
                continue
            for a in lineage:
                key = tuple(a[:2])
                if key not in sent_for:
                    continue
                seen = {}
                for (t, wname, addr) in sim.cancel_handled:
                    if wname == f'W{wid}' and tuple(addr[:2]) == key:
                        seen.setdefault(tuple(addr), t)
                handled = list(seen.values())
                if set(seen) >= sent_for[key] and when > max(handled):
                    out.fail('body_started_after_all_cancels_handled',
                             f'{tag} on W{wid} at {when}; the {len(handled)} '
                             f'CANCELs sent for future {key} were handled by '
                             f'{max(handled)}')
                    break
        # ---- (3) hygiene at quiescence
        left = sc.worker_leftovers(sim)
        for name, table, n in left:
            out.fail(f'hygiene|{table}', f'{name} holds {n} entries; {left}')
            break
        s = sim.server
        if s.running:
            if s.mailboxes:
                out.fail('hygiene|server_mailboxes', str(list(s.mailboxes)))
            for conn, ids in s.clients.items():
                if ids:
                    out.fail('hygiene|server_client_tasks', str(ids))
        # ---- classification
        pending_when_cancelled = False
        for (t, wname, addr) in sim.cancel_handled:
            pending_when_cancelled = True
        ncancel = sum(1 for t in sim.trace if len(t) > 3 and t[3] == 'CANCEL')
        out.nontrivial = ncancel >= 1 and pending_when_cancelled and (
            P.has_kind(spec, ('mapcancel', 'subcancel', 'forget'))
            or mode != 'none'
        )
        out.label(f'client:{mode}')
        if any(k == 'mapcancel' for _, k, _ in P.leaves(spec)):
            out.label('has:mapcancel')
        if any(k == 'subcancel' for _, k, _ in P.leaves(spec)):
            out.label('has:subcancel')
        if any(k == 'forget' for _, k, _ in P.leaves(spec)):
            out.label('has:forget')
        # SUBMIT overtaken by its own CANCEL: a cancelled body that never ran
        if any(c and counts.get(tag, 0) == 0 for tag, k, c in P.leaves(spec)):
            out.label('cancelled-before-start')
        out.label('topology:managers' if 'managers' in case['topo']
                  else 'topology:flat')
        return out
    finally:
        sim.close()


replay = check


@st.composite
def cases(draw, quick=True):
    mode = draw(st.sampled_from(['none', 'none', 'none', 'cancel',
                                 'disconnect']))
    case = {
        'prog': draw(sc.programs(3 if quick else 4, 4 if quick else 5,
                                 kinds=KINDS)),
        'topo': draw(sc.topologies),
        'sched': draw(sc.schedules),
        'policy': draw(st.sampled_from([None, None, 'lazy_recv',
                                        'eager_recv'])),
        'client': {'mode': mode},
        'inject': draw(sc.injections),
        'rinject': draw(sc.rinjections),
    }
    if mode != 'none':
        case['client']['at'] = draw(st.integers(0, 60))
        case['client']['prog2'] = draw(sc.programs(2, 3))
    return case


L = {'t': 'leaf'}
ENUM_PROGS = [
    # a task that is cancelled while it submits and awaits its own children
    {'t': 'seq', 'order': [0, 0], 'kids': [
        {'t': 'subcancel', 'wait': False,
         'kid': {'t': 'seq', 'order': [0, 0], 'kids': [L, L]}}, L]},
    {'t': 'mapcancel', 'after': 0, 'kids': [
        {'t': 'seq', 'order': [0], 'kids': [L]},
        {'t': 'map', 'kids': [L, L]}, L]},
    {'t': 'mapcancel', 'after': 1, 'kids': [
        L, {'t': 'seq', 'order': [0, 0], 'kids': [L, L]}, L]},
    {'t': 'seq', 'order': [0, 0], 'kids': [
        {'t': 'forget', 'kids': [{'t': 'seq', 'order': [0], 'kids': [L]},
                                 {'t': 'map', 'kids': [L, L]}]}, L]},
]
ENUM_BASES = [
    ('lazy_recv', [0]), ('lazy_recv', [1, 0]), (None, [0]),
    (None, [3, 1, 0, 2]), ('lazy_recv', [2, 1, 0, 3]),
]


def enum_cases(quick):
    return sc.enum_preemptions(
        ENUM_PROGS, ENUM_BASES[:3] if quick else ENUM_BASES,
        (2,) if quick else (2, 3), 2 if quick else 3,
        extra={'client': {'mode': 'none'}})


def run_shard(ctx: core.Ctx) -> core.ShardResult:
    res = core.ShardResult()
    done = core.run_enumeration(ctx, res, enum_cases(ctx.tier == 'quick'),
                                check)
    res.extra['single_preemption_enumeration_complete'] = bool(done)
    core.run_hypothesis(ctx, res, cases(ctx.tier == 'quick'), check,
                        ctx.n(200, 8000))
    return res
