"""C06 - circuit simulation equals the ordered product of its operations."""
from __future__ import annotations

import numpy as np
from hypothesis import strategies as st

from vt import core
from vt.core import Outcome
from vt.gen import specs
from vt.oracle import refsim
from vt.props import circmachine as cm

ID = 'C06'
LEVEL = 'exploration'
RULE = (
    'cases: circuits built from generated specs (mixed radixes 2-4, width 1-6, '
    'dim <= 4096 quick 1024, gates on non-adjacent/permuted locations, nested '
    'CircuitGates, constant/parameterised/composed/frozen gates) or reached '
    'through a generated editing history, with a generated parameter vector '
    '(special values) and a seeded Haar input state. Oracle: independent numpy '
    'tensor contraction in grid order with parameters sliced in iteration '
    'order; central finite differences for gradients. Non-trivial: >= 1 '
    'multi-qudit op on a location that is not sorted-adjacent and (mixed '
    'radixes or >= 1 parameter). Distinct = sha1 of the JSON case.'
)
ASSUMPTIONS = [
    'each operation\'s own matrix/gradient comes from its gate (C18); numpy '
    'tensordot is correct',
    'the grid is read through the public API; iteration order (validated by '
    'C05) defines parameter slices as the property states',
    'tolerances: 1e-9 absolute for unitaries/states, 2e-5*scale for finite '
    'differences (step 1e-6)',
]
SHARDS = {'quick': 16, 'thorough': 16}
BUDGET_S = {'quick': 200, 'thorough': 2400}
TOL = 1e-9


def ops_with_params(c, flat_params=None):
    """[(matrix, location, op, param_slice_start)] in GRID order; parameter
    slices are assigned in ITERATION order."""
    start = {}
    i = 0
    for op in c:
        start[id(op)] = i
        i += op.num_params
    out = []
    for _, op in refsim.grid_ops(c):
        s = start[id(op)]
        p = list(op.params) if flat_params is None else \
            list(flat_params[s:s + op.num_params])
        out.append((refsim.op_matrix(op, p), list(op.location), op, s))
    return out


def ref_unitary(c, p=None):
    return refsim.unitary_of_ops(
        c.radixes, [(M, loc) for M, loc, _, _ in ops_with_params(c, p)],
    )


def build(case):
    if case['k'] == 'spec':
        return specs.build_circuit(case['circ'])
    out = Outcome()
    itp = cm.Interp(out, want_trace=False, want_views=False,
                    want_unitary=False)
    c = itp.run(case['hist'])
    return None if itp.idle_cycle else c


def draw_params(case, n):
    base = case['p']
    rng = np.random.default_rng(case['seed'])
    g = rng.uniform(-np.pi, np.pi, size=n)
    return [float(base[i % len(base)]) if (i % 3 == 0 and base) else float(g[i])
            for i in range(n)]


def check(case) -> Outcome:
    out = Outcome()
    c = build(case)
    if c is None:
        return out
    dim = int(np.prod(c.radixes))
    if dim > 4096 or c.num_operations == 0:
        out.label('skipped:empty-or-large')
        return out
    ops = [op for _, op in refsim.grid_ops(c)]
    if any(refsim.is_placeholder(op) for op in ops):
        out.label('skipped:placeholder')
        return out
    n = c.num_qudits
    nonadj = any(
        len(op.location) > 1 and (
            list(op.location) != sorted(op.location)
            or any(b - a != 1 for a, b in zip(op.location, op.location[1:]))
        ) for op in ops
    )
    mixed = len(set(c.radixes)) > 1
    k = c.num_params
    out.nontrivial = nonadj and (mixed or k > 0)
    out.label('mixed-radix' if mixed else 'uniform-radix')
    if nonadj:
        out.label('non-adjacent-location')
    if any(type(op.gate).__name__ == 'CircuitGate' for op in ops):
        out.label('nested-block')

    # 1. stored parameters
    U0 = ref_unitary(c)
    try:
        got = np.asarray(c.get_unitary().numpy)
    except Exception as e:
        out.fail(core.exc_sig('get_unitary_raises', e), repr(e))
        return out
    if got.shape != U0.shape or np.abs(got - U0).max() > TOL:
        out.fail('unitary_stored', f'max dev {np.abs(got - U0).max():.2e}')
        return out
    if tuple(c.get_unitary().radixes) != tuple(c.radixes):
        out.fail('unitary_radixes', str(c.get_unitary().radixes))

    # 2. params vector = concatenation in iteration order
    want_pv = [float(x) for op in c for x in op.params]
    pv = [float(x) for x in c.params]
    if pv != want_pv or len(pv) != k:
        out.fail('params_vector', f'{pv} want {want_pv}')
        return out

    # 3. explicit parameters == stored parameters
    p = draw_params(case, k)
    Up = ref_unitary(c, p)
    if k:
        got_p = np.asarray(c.get_unitary(p).numpy)
        if np.abs(got_p - Up).max() > TOL:
            out.fail('unitary_explicit_params',
                     f'max dev {np.abs(got_p - Up).max():.2e}')
        c2 = c.copy()
        c2.set_params(p)
        got_s = np.asarray(c2.get_unitary().numpy)
        if np.abs(got_s - Up).max() > TOL:
            out.fail('unitary_after_set_params',
                     f'max dev {np.abs(got_s - Up).max():.2e}')
        if [float(x) for x in c2.params] != [float(x) for x in p]:
            out.fail('set_params_roundtrip', '')
        if np.abs(np.asarray(c.get_unitary().numpy) - U0).max() > TOL:
            out.fail('explicit_params_mutated_circuit', '')

    # 4. state vectors
    rng = np.random.default_rng(case['seed'] + 1)
    v = rng.normal(size=dim) + 1j * rng.normal(size=dim)
    v /= np.linalg.norm(v)
    if case['seed'] % 3 == 0:
        v = np.zeros(dim, dtype=np.complex128)
        v[case['seed'] % dim] = 1
    from bqskit.qis.state.state import StateVector
    try:
        sv = StateVector(v, c.radixes)
        got_v = np.asarray(c.get_statevector(sv).numpy)
        if np.abs(got_v - U0 @ v).max() > TOL:
            out.fail('statevector_stored',
                     f'max dev {np.abs(got_v - U0 @ v).max():.2e}')
        if k:
            got_vp = np.asarray(c.get_statevector(sv, p).numpy)
            if np.abs(got_vp - Up @ v).max() > TOL:
                out.fail('statevector_explicit_params',
                         f'max dev {np.abs(got_vp - Up @ v).max():.2e}')
    except Exception as e:
        out.fail(core.exc_sig('get_statevector_raises', e), repr(e))

    # 5. gradients
    if k and dim <= 256 and k <= 24 and c.is_differentiable():
        out.label('grad-checked')
        try:
            Ug, G = c.get_unitary_and_grad(p)
            G2 = c.get_grad(p)
        except Exception as e:
            out.fail(core.exc_sig('get_unitary_and_grad_raises', e), repr(e))
            G = None
        if G is not None:
            G = np.asarray(G)
            if np.abs(np.asarray(Ug.numpy) - Up).max() > TOL:
                out.fail('grad_unitary_component', '')
            if G.shape != (k, dim, dim):
                out.fail('grad_shape', f'{G.shape} want {(k, dim, dim)}')
            else:
                if np.abs(np.asarray(G2) - G).max() > 1e-12:
                    out.fail('get_grad_vs_and_grad', '')
                h = 1e-6
                for i in range(k):
                    pp = list(p)
                    pm = list(p)
                    pp[i] += h
                    pm[i] -= h
                    fd = (ref_unitary(c, pp) - ref_unitary(c, pm)) / (2 * h)
                    scale = max(1.0, float(np.abs(fd).max()))
                    dev = float(np.abs(G[i] - fd).max())
                    if dev > 2e-5 * scale:
                        o = [x for x in ops_with_params(c, p)
                             if x[3] <= i < x[3] + x[2].num_params][0]
                        out.fail(
                            'grad_finite_difference',
                            f'param {i} ({o[2].gate.name}@{o[1]}) dev {dev:.2e}',
                        )
                        break

    # 6. parameter addressing
    if k:
        i = case['seed'] % k
        try:
            cy, q, pi = c.get_param_location(i)
            op = c[cy, q]
            if float(op.params[pi]) != pv[i]:
                out.fail('get_param_location', f'index {i}')
            if float(c.get_param(i)) != pv[i]:
                out.fail('get_param', f'index {i}')
            c3 = c.copy()
            c3.set_param(i, 0.3125)
            pv3 = [float(x) for x in c3.params]
            want3 = list(pv)
            want3[i] = 0.3125
            if pv3 != want3:
                out.fail('set_param', f'index {i}: {pv3} want {want3}')
            c4 = c.copy()
            c4.freeze_param(i)
            if c4.num_params != k - 1:
                out.fail('freeze_num_params', f'{c4.num_params}')
            else:
                pv4 = [float(x) for x in c4.params]
                if pv4 != pv[:i] + pv[i + 1:]:
                    out.fail('freeze_params_vector', f'{pv4}')
                if np.abs(ref_unitary(c4) - U0).max() > TOL:
                    out.fail('freeze_changed_unitary', '')
        except Exception as e:
            out.fail(core.exc_sig('param_addressing_raises', e), repr(e))
        for bad in (k, k + 3, -1):
            try:
                c.get_param_location(bad)
                out.fail('get_param_location_no_error', f'index {bad}')
            except IndexError:
                pass

    # 7. restricted iteration
    check_iteration(c, case, out)
    return out


def check_iteration(c, case, out) -> None:
    n, m = c.num_qudits, c.num_cycles
    recs = cm.snapshot(c)
    rng = np.random.default_rng(case['seed'] + 2)
    for trial in range(3):
        qs = sorted(rng.choice(n, size=int(rng.integers(1, n + 1)),
                               replace=False).tolist())
        for exclude in (False, True):
            for reverse in (False, True):
                try:
                    got = list(c.operations_with_cycles(
                        qudits_or_region=qs, exclude=exclude, reverse=reverse,
                    ))
                except Exception as e:
                    out.fail(core.exc_sig('iter_qudits_raises', e), repr(e))
                    return
                if exclude:
                    want = [r for r in recs if all(q in qs for q in r.loc)]
                else:
                    want = [r for r in recs if any(q in qs for q in r.loc)]
                _cmp_iter(out, 'iter_qudits', got, want, reverse,
                          f'qudits={qs} exclude={exclude} reverse={reverse}')
        # region: per-qudit intervals
        region = {}
        for q in qs:
            lo = int(rng.integers(0, m))
            hi = int(rng.integers(lo, m))
            region[q] = (lo, hi)
        for exclude in (False, True):
            for reverse in (False, True):
                try:
                    got = list(c.operations_with_cycles(
                        qudits_or_region=region, exclude=exclude,
                        reverse=reverse,
                    ))
                except Exception as e:
                    out.fail(core.exc_sig('iter_region_raises', e), repr(e))
                    return

                def inside(r, q):
                    return q in region and \
                        region[q][0] <= r.cycle <= region[q][1]
                if exclude:
                    want = [r for r in recs if all(inside(r, q) for q in r.loc)]
                else:
                    want = [r for r in recs if any(inside(r, q) for q in r.loc)]
                _cmp_iter(out, 'iter_region', got, want, reverse,
                          f'region={region} exclude={exclude} '
                          f'reverse={reverse}')


def _cmp_iter(out, clause, got, want, reverse, detail) -> None:
    gi = sorted(id(o) for _, o in got)
    wi = sorted(id(r.op) for r in want)
    if gi != wi:
        out.fail(
            f'{clause}_set',
            f'{detail}: got {len(gi)} ops want {len(wi)} '
            f'(missing {len(set(wi) - set(gi))}, extra {len(set(gi) - set(wi))},'
            f' dup {len(gi) - len(set(gi))})',
        )
        return
    cyc = {id(r.op): r.cycle for r in want}
    if any(cyc[id(o)] != cy for cy, o in got):
        out.fail(f'{clause}_cycle_index', detail)
    seq = [cy for cy, _ in got]
    if reverse:
        seq = seq[::-1]
    if any(a > b for a, b in zip(seq, seq[1:])):
        out.fail(f'{clause}_order', f'{detail}: cycles {seq}')


replay = check


@st.composite
def cases(draw, quick=True):
    seed = draw(st.integers(0, 2**31 - 1))
    p = draw(specs.param_values(3))
    if draw(st.integers(0, 4)) == 0:
        hist = draw(cm.histories(
            max_steps=20, max_n=5,
            exclude=('clear', 'inverse', 'freeze', 'copy', 'become', 'mul',
                     'imul'),
        ))
        return {'k': 'hist', 'hist': hist, 'seed': seed, 'p': p}
    circ = draw(specs.circuit_specs(
        min_n=1, max_n=6, max_dim=1024 if quick else 4096, max_ops=10,
        nested_depth=2,
    ))
    return {'k': 'spec', 'circ': circ, 'seed': seed, 'p': p}


def run_shard(ctx: core.Ctx) -> core.ShardResult:
    res = core.ShardResult()
    core.run_hypothesis(
        ctx, res, cases(ctx.tier == 'quick'), check, ctx.n(160, 3500),
    )
    return res
