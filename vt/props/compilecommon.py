"""Shared machinery of the compile() properties C01-C03: case -> objects,
running the PUBLIC ``bqskit.compile`` on the deterministic simulated runtime,
counting accepted numerical rewrites for the distance budget, and the
independent "executable on the model" predicate.

Inputs are JSON:
  circuit : {"radix": r, "n": n, "ops": [[name, loc, params], ...]}   (compact)
            names: library gate class names; "ccx","cswap" 3-qudit; "barrier";
            "measure" (params = classical bit per qudit of loc); "block"
            (params = nested op list, loc = block qudits)
  model   : {"m": m, "graph": [[a,b],...] | null, "gates": [names], "radix": r}
"""
from __future__ import annotations

import math

import numpy as np
from hypothesis import strategies as st

from vt.gen import specs
from vt.oracle import refsim

PI = math.pi

# ------------------------------------------------------------------ gate sets
GATESETS = {
    'cx+u3': ['CXGate', 'U3Gate'],
    'cz+rz+sx': ['CZGate', 'RZGate', 'SXGate'],
    'cz+u3': ['CZGate', 'U3Gate'],
    'iswap+u3': ['ISwapGate', 'U3Gate'],
    'sqisw+u3': ['SqrtISwapGate', 'U3Gate'],
    'ecr+u3': ['ECRGate', 'U3Gate'],
    'b+u3': ['BGate', 'U3Gate'],
    'cx+rz+sx+x': ['CXGate', 'RZGate', 'SXGate', 'XGate'],
    'zz+u3': ['RZZGate', 'U3Gate'],
    'cx+u3+ccx': ['CXGate', 'U3Gate', 'CCXGate'],
    # ZX-style single-qubit bases without RZ (the U1 branch of ZXZXZ)
    'cx+u1+sx': ['CXGate', 'U1Gate', 'SXGate'],
    'cz+u1+rx': ['CZGate', 'U1Gate', 'RXGate'],
    'cx+rz+rx': ['CXGate', 'RZGate', 'RXGate'],
}
QUTRIT_GATESETS = {
    'csum+vu': [['CSUMGate', [3]], ['VariableUnitaryGate', [1, [3]]]],
}

G1 = ['HGate', 'XGate', 'YGate', 'ZGate', 'SGate', 'TGate', 'SXGate',
      'TdgGate', 'SdgGate']
G1P = ['RXGate', 'RYGate', 'RZGate', 'U1Gate', 'U2Gate', 'U3Gate']
G2 = ['CXGate', 'CZGate', 'CYGate', 'CHGate', 'SwapGate', 'ISwapGate',
      'ECRGate', 'SqrtISwapGate']
G2P = ['CPGate', 'CRZGate', 'RZZGate', 'RXXGate', 'CRXGate']
G3 = ['CCXGate', 'IToffoliGate']
NPAR = {'RXGate': 1, 'RYGate': 1, 'RZGate': 1, 'U1Gate': 1, 'U2Gate': 2,
        'U3Gate': 3, 'CPGate': 1, 'CRZGate': 1, 'RZZGate': 1, 'RXXGate': 1,
        'CRXGate': 1}


def _g(name, args=()):
    import bqskit.ir.gates as G
    return getattr(G, name)(*args)


def build_model(ms):
    from bqskit.compiler.machine import MachineModel
    if ms is None:
        return None
    r = ms.get('radix', 2)
    gates = []
    for g in ms['gates']:
        gates.append(_g(g[0], g[1]) if isinstance(g, list) else _g(g))
    graph = None if ms['graph'] is None else [tuple(e) for e in ms['graph']]
    return MachineModel(ms['m'], graph, gates, [r] * ms['m'])


def build_circuit(cs, with_placeholders=True):
    """-> (Circuit, measurements {logical qudit: classical bit})"""
    from bqskit.ir.circuit import Circuit
    from bqskit.ir.gates import BarrierPlaceholder, MeasurementPlaceholder
    r = cs.get('radix', 2)
    n = cs['n']
    c = Circuit(n, [r] * n)
    meas: dict = {}
    nbits = max([b for op in cs['ops'] if op[0] == 'measure'
                 for b in op[2]] + [0]) + 1

    def add(circ, op, offset=None):
        name, loc, params = op
        if name == 'barrier':
            if with_placeholders:
                circ.append_gate(BarrierPlaceholder(len(loc), [r] * len(loc)),
                                 loc)
        elif name == 'measure':
            for q, b in zip(loc, params):
                meas[q] = b
            if with_placeholders:
                circ.append_gate(
                    MeasurementPlaceholder(
                        [('c', nbits)],
                        {q: ('c', b) for q, b in zip(loc, params)},
                    ), loc,
                )
        elif name == 'block':
            sub = Circuit(len(loc), [r] * len(loc))
            for sop in params:
                add(sub, sop)
            circ.append_circuit(sub, loc, as_circuit_gate=True)
        elif name == 'unitary':
            from bqskit.ir.gates import ConstantUnitaryGate
            U = specs.haar(r ** len(loc), params[0])
            circ.append_gate(ConstantUnitaryGate(U, [r] * len(loc)), loc)
        elif r == 3:
            g = {'h3': ('HGate', [3]), 'shift': ('ShiftGate', [3]),
                 'clock': ('ClockGate', [3]), 'csum': ('CSUMGate', [3]),
                 'swap3': ('SwapGate', [3])}[name]
            circ.append_gate(_g(*g), loc, params)
        else:
            circ.append_gate(_g(name), loc, params)
    for op in cs['ops']:
        add(c, op)
    return c, meas


def input_unitary(cs) -> np.ndarray:
    c, _ = build_circuit(cs, with_placeholders=False)
    return refsim.circuit_unitary(c)


# ------------------------------------------------------- running compile()
class CaseTimeLimit(BaseException):
    """A single compile() exceeded its wall-clock allowance: the case is
    abandoned and reported as inconclusive (a label), never as a violation."""


class time_limit:
    def __init__(self, seconds: int):
        self.seconds = int(seconds)

    def __enter__(self):
        import signal
        import threading
        self.active = threading.current_thread() is threading.main_thread()
        if self.active:
            def handler(signum, frame):
                raise CaseTimeLimit()
            self.old = signal.signal(signal.SIGALRM, handler)
            # re-armed every 5 s: an exception raised inside a callback of
            # native code (or under a broad except) can be swallowed once
            signal.setitimer(signal.ITIMER_REAL, self.seconds, 5)
        return self

    def __exit__(self, *a):
        import signal
        if self.active:
            signal.setitimer(signal.ITIMER_REAL, 0)
            signal.signal(signal.SIGALRM, self.old)
        return False


CASE_LIMIT_S = {'quick': 75, 'thorough': 400}


class Captured:
    def __init__(self):
        self.data = []


def run_compile(inp, model, level, mss, eps, seed, nworkers, sched,
                policy=None, capture=None, limit_s=75):
    """Run the public compile() with a Compiler living on the simulator.
    Returns whatever compile() returns (with_mapping=True)."""
    import logging
    from bqskit.compiler.compile import compile as bq_compile
    from vt.simrt.sim import Sim
    logging.disable(logging.CRITICAL)
    sim = Sim({'workers': nworkers}, sched, policy=policy, rseed=seed or 0,
              max_actions=2_000_000)
    try:
        comp = sim.compiler()
        if capture is not None:
            orig_compile = comp.compile
            orig_result = comp.result

            def cap_compile(*a, **k):
                r = orig_compile(*a, **k)
                if isinstance(r, tuple) and len(r) == 2:
                    capture.data.append(r[1])
                return r

            def cap_result(tid):
                r = orig_result(tid)
                if isinstance(r, tuple) and len(r) == 2:
                    capture.data.append(r[1])
                return r
            comp.compile = cap_compile
            comp.result = cap_result
        with time_limit(limit_s):
            return bq_compile(
                inp, model, optimization_level=level, max_synthesis_size=mss,
                synthesis_epsilon=eps, compiler=comp, seed=seed,
                with_mapping=True,
            )
    finally:
        sim.close()


def count_rewrites(data) -> int:
    """Number of block results accepted by ForEachBlockPass anywhere in the
    pass data of a compilation (recursively through block data)."""
    from bqskit.passes.control.foreach import ForEachBlockPass
    key = ForEachBlockPass.key
    n = 0
    try:
        runs = data[key] if key in data else []
    except Exception:
        runs = []
    for run in runs:
        for bd in run:
            try:
                if bd.get('replaced', False):
                    n += 1
                n += count_rewrites(bd)
            except Exception:
                pass
    return n


def budget(eps: float, rewrites: int) -> float:
    """Every accepted numerical rewrite has cost 1-|tr|/N < eps, i.e. distance
    sqrt(1-(|tr|/N)^2) < sqrt(2 eps); distances add along the pipeline."""
    return (rewrites + 1) * math.sqrt(2 * eps) * 4 + 1e-7


# ------------------------------------------------ executable-on-model predicate
PLACEHOLDERS = ('BarrierPlaceholder', 'MeasurementPlaceholder', 'Reset')


def executable_violations(out, model) -> list:
    """Independent check of the three conditions of C02; returns a list of
    (clause, detail)."""
    bad = []
    if out.num_qudits != model.num_qudits:
        bad.append(('width', f'{out.num_qudits} != {model.num_qudits}'))
        return bad
    if tuple(out.radixes) != tuple(model.radixes):
        bad.append(('radixes', f'{out.radixes} != {model.radixes}'))
    native = set(model.gate_set)
    edges = {(min(a, b), max(a, b)) for a, b in model.coupling_graph}
    for _, op in refsim.grid_ops(out):
        if type(op.gate).__name__ in PLACEHOLDERS:
            continue
        if op.gate not in native:
            bad.append(('non_native_gate', f'{op.gate.name}@{op.location}'))
            break
    for _, op in refsim.grid_ops(out):
        if type(op.gate).__name__ in PLACEHOLDERS:
            continue
        loc = list(op.location)
        for i in range(len(loc)):
            for j in range(i + 1, len(loc)):
                e = (min(loc[i], loc[j]), max(loc[i], loc[j]))
                if e not in edges:
                    bad.append((f'uncoupled_qudits:arity{len(loc)}',
                                f'{op.gate.name}@{op.location}'))
                    break
            else:
                continue
            break
        else:
            continue
        break
    return bad


# ------------------------------------------------------------------ strategies
def graphs(m: int):
    """Connected graphs on m vertices as edge lists (or None = all-to-all)."""
    if m == 1:
        return st.just(None)

    @st.composite
    def g(draw):
        kind = draw(st.sampled_from(['all', 'line', 'ring', 'star', 'tree',
                                     'tree+', 'grid']))
        if kind == 'all':
            return None
        if kind == 'line':
            return [[i, i + 1] for i in range(m - 1)]
        if kind == 'ring':
            return [[i, i + 1] for i in range(m - 1)] + (
                [[0, m - 1]] if m > 2 else [])
        if kind == 'star':
            return [[0, i] for i in range(1, m)]
        if kind == 'grid' and m in (4, 6, 8, 9):
            cols = {4: 2, 6: 3, 8: 4, 9: 3}[m]
            e = []
            for i in range(m):
                if i % cols != cols - 1:
                    e.append([i, i + 1])
                if i + cols < m:
                    e.append([i, i + cols])
            return e
        perm = draw(st.permutations(range(m)))
        e = set()
        for i in range(1, m):
            j = draw(st.integers(0, i - 1))
            e.add((min(perm[i], perm[j]), max(perm[i], perm[j])))
        if kind == 'tree+':
            for _ in range(draw(st.integers(1, 2))):
                a = draw(st.integers(0, m - 1))
                b = draw(st.integers(0, m - 1))
                if a != b:
                    e.add((min(a, b), max(a, b)))
        return [list(x) for x in sorted(e)]
    return g()


@st.composite
def model_specs(draw, n: int, radix: int = 2, max_extra: int = 2,
                allow_default=True):
    if allow_default and draw(st.integers(0, 5)) == 0:
        return None
    m = n + draw(st.sampled_from([0, 0, 1, max_extra]))
    if radix == 3:
        return {'m': m, 'graph': draw(graphs(m)), 'radix': 3,
                'gates': QUTRIT_GATESETS['csum+vu']}
    names = sorted(GATESETS)
    if n < 3:
        names = [x for x in names if x != 'cx+u3+ccx']
    gs = draw(st.sampled_from(['cx+u3', 'cx+u3'] + names))
    return {'m': m, 'graph': draw(graphs(m)), 'gates': GATESETS[gs],
            'radix': 2, 'gs': gs}


def _angle():
    return st.one_of(
        st.sampled_from([0.0, PI / 2, PI, -PI / 2, PI / 4, 2 * PI, 1e-9]),
        st.floats(-PI, PI, allow_nan=False),
    )


@st.composite
def circuit_cases(draw, min_n=1, max_n=5, max_ops=14, radix=2,
                  placeholders=True, blocks=True, three=True):
    n = draw(st.integers(min_n, max_n))
    ops = []
    measured = False

    def draw_op(width, allow_nested=True):
        kinds = ['g1', 'g1p', 'g2', 'g2', 'g2p'] if width >= 2 else \
            ['g1', 'g1p']
        if width >= 3 and three:
            kinds.append('g3')
        kind = draw(st.sampled_from(kinds))
        if kind in ('g1', 'g1p'):
            loc = [draw(st.integers(0, width - 1))]
            name = draw(st.sampled_from(G1 if kind == 'g1' else G1P))
        elif kind in ('g2', 'g2p'):
            a = draw(st.integers(0, width - 1))
            b = draw(st.integers(0, width - 2))
            b = b if b < a else b + 1
            loc = [a, b]
            name = draw(st.sampled_from(G2 if kind == 'g2' else G2P))
        else:
            loc = list(draw(st.permutations(range(width)))[:3])
            name = draw(st.sampled_from(G3))
        params = [draw(_angle()) for _ in range(NPAR.get(name, 0))]
        return [name, loc, params]

    def draw_qutrit_op(width):
        if width >= 2 and draw(st.booleans()):
            a = draw(st.integers(0, width - 1))
            b = draw(st.integers(0, width - 2))
            b = b if b < a else b + 1
            return [draw(st.sampled_from(['csum', 'swap3'])), [a, b], []]
        return [draw(st.sampled_from(['h3', 'shift', 'clock'])),
                [draw(st.integers(0, width - 1))], []]

    nops = draw(st.integers(1, max_ops))
    for _ in range(nops):
        if radix == 3:
            ops.append(draw_qutrit_op(n))
            continue
        roll = draw(st.integers(0, 19))
        if placeholders and roll == 0:
            k = draw(st.integers(1, n))
            ops.append(['barrier',
                        sorted(draw(st.permutations(range(n)))[:k]), []])
        elif blocks and roll == 1 and n >= 2:
            k = draw(st.integers(1, min(3, n)))
            loc = list(draw(st.permutations(range(n)))[:k])
            sub = [draw_op(k) for _ in range(draw(st.integers(1, 4)))]
            ops.append(['block', loc, sub])
        elif roll == 2 and n <= 3:
            k = draw(st.integers(1, min(2, n)))
            loc = list(draw(st.permutations(range(n)))[:k])
            ops.append(['unitary', loc, [draw(st.integers(0, 10**6))]])
        else:
            ops.append(draw_op(n))
    if placeholders and radix == 2 and draw(st.integers(0, 2)) == 0:
        k = draw(st.integers(1, n))
        loc = sorted(draw(st.permutations(range(n)))[:k])
        bits = list(draw(st.permutations(range(k))))
        ops.append(['measure', loc, bits])
        measured = True
    del measured
    return {'radix': radix, 'n': n, 'ops': ops}


schedules = st.lists(st.integers(0, 7), min_size=1, max_size=12)


@st.composite
def routing_cases(draw):
    """Cheap cases that force non-trivial routing: many two-qubit gates
    between arbitrary pairs on a sparse 4-6 qubit machine, level 1."""
    n = draw(st.integers(3, 5))
    ops = []
    for _ in range(draw(st.integers(4, 12))):
        if draw(st.integers(0, 3)) == 0:
            ops.append([draw(st.sampled_from(['HGate', 'TGate', 'SXGate'])),
                        [draw(st.integers(0, n - 1))], []])
        elif n >= 3 and draw(st.integers(0, 9)) == 0:
            ops.append(['CCXGate',
                        list(draw(st.permutations(range(n)))[:3]), []])
        else:
            a = draw(st.integers(0, n - 1))
            b = draw(st.integers(0, n - 2))
            b = b if b < a else b + 1
            ops.append([draw(st.sampled_from(['CXGate', 'CXGate', 'CZGate'])),
                        [a, b], []])
    if draw(st.booleans()):
        k = draw(st.integers(1, n))
        loc = sorted(draw(st.permutations(range(n)))[:k])
        ops.append(['measure', loc, list(draw(st.permutations(range(k))))])
    m = n + draw(st.sampled_from([0, 0, 1]))
    kind = draw(st.sampled_from(['line', 'line', 'star', 'tree']))
    if kind == 'line':
        graph = [[i, i + 1] for i in range(m - 1)]
    elif kind == 'star':
        graph = [[0, i] for i in range(1, m)]
    else:
        graph = draw(graphs(m)) or [[i, i + 1] for i in range(m - 1)]
    gs = draw(st.sampled_from(['cx+u3', 'cx+u3', 'cz+u3', 'cx+u1+sx']))
    return {
        'circ': {'radix': 2, 'n': n, 'ops': ops},
        'model': {'m': m, 'graph': graph, 'gates': GATESETS[gs], 'radix': 2,
                  'gs': gs},
        'level': 1, 'mss': 3, 'eps': 1e-8,
        'seed': draw(st.integers(0, 10**6)), 'nw': draw(st.integers(1, 2)),
        'sched': draw(schedules), 'policy': None, 'tier': 'quick',
    }
