"""C11 - block-wise and control-flow passes apply bodies exactly as specified.

Case (JSON):
  {"circ": {"mode": "direct", "radixes": [...], "entries": [
               {"k": "blk", "loc": [...], "ops": [op-spec (local locations)]} |
               {"k": "const"|"var", "loc": [...], "seed": S} |
               {"k": "gate", "gate": gate-spec, "loc": [...], "params": [...]}]}
           | {"mode": "part", "radixes": [...], "ops": [op-spec], "p": "quick"|"scan", "bs": B},
   "model": {"m": M, "edges": [[u, v], ...], "placement": [...], "gates": preset},
   "seed": int|null,
   "tree": [node, ...],       node = {"t": "leaf", "id", "a": action-spec}
                                   | {"t": "seq", "id", "kids"}
                                   | {"t": "if", "id", "v": [verdicts], "then", "else"}
                                   | {"t": "while"|"dowhile", "id", "v", "body"}
                                   | {"t": "dtd", "id", "cond", "body"}
                                   | {"t": "par", "id", "less", "first", "branches"}
                                   | {"t": "foreach", "id", "cf", "rf", "ceb", "body"}
   "dact": {leaf id: action-spec},     overrides for every block (plain pass-down key)
   "blk": {"<block index>": {"act": {leaf id: action-spec}, "pred": {node id: [verdicts]},
                             "sub": {"<inner block index>": {...}}}},
   "topo": {"workers": W}, "sched": [...], "policy": ..., "rseed": R}

  {"k": "pred", "circ": ... (plus "unfold": bool), "model": ...,
   "pred": {"p": "change"} | {"p": "count", "gate": "sq"|"tq"|"multi"|"many"|gate-spec}
           | {"p": "width", "w": W} | {"p": "physical"|"multi"|"single"}
           | {"p": "not", "x": P} | {"p": "and"|"or", "l": P, "r": P},
   "steps": [{"blk": i|null, "a": action-spec}, ...]}
      library predicate called once, then after each scripted edit of the
      whole circuit (blk null / not a block) or of the inside of the i-th
      top-level operation; judged in-process against the predicate docstring.

Action specs are documented in vt/simrt/scripted.py.
"""
from __future__ import annotations

import itertools as it
import logging
import math
from collections import Counter
from collections import namedtuple

import numpy as np
from hypothesis import strategies as st

from vt import core
from vt.core import Outcome
from vt.gen import specs as S
from vt.oracle import refsim
from vt.oracle import trace as T
from vt.props import simcommon as sc

ID = 'C11'
LEVEL = 'exploration'
RULE = (
    'cases: (partitioned circuit, machine model + placement, control-pass '
    'tree, per-block scripts, simulator topology/schedule). Circuits are '
    'built block by block (CircuitGate blocks of width 1-3 with sorted or '
    'unsorted locations, ConstantUnitaryGate / VariableUnitaryGate blocks, '
    'bare gates, planted inverse pairs; blocks alone in a cycle and adjacent '
    'blocks arise from the drawn locations) or by QuickPartitioner / '
    'ScanPartitioner run in-process on a drawn flat circuit; radix 2, 3 or '
    'mixed {2,3}, <= 5 qudits. Trees nest (depth <= 3) Workflow, IfThenElsePass, '
    'WhileLoopPass, DoWhileLoopPass, DoThenDecide, ParallelDo(pick_first in '
    '{F,T}) and ForEachBlockPass (also nested) over scripted leaves '
    '(identity, record, equivalent rewrite, shrink, grow, perturb(theta), '
    'fail, setmap); predicates pop scripted verdicts from the pass data; '
    'collection filters by width / gate type / first-qudit parity / all / '
    'none / default; replace filters: all 10 documented strings and 5 '
    'callables; per-block actions and verdicts are injected through the '
    'documented pass-down keys. Executed with Compiler.compile on the '
    'deterministic simulator (1-3 workers, drawn schedule). Non-trivial: an '
    'executed ForEachBlockPass selected >= 2 blocks and rejected >= 1 '
    'replacement, or >= 2 predicate/condition evaluations happened and >= 1 '
    'branch was rejected (DoThenDecide rejection, discarded ParallelDo '
    'branch, IfThenElse branch not taken), judged on the acceptable outcome '
    'the observation matched; runs that end in the scripted failure are not '
    'counted. While the finding ' + "'coupling_lookup|reversed_edge_not_found'"
    ' is listed as open, cases whose reference run reaches its trigger (a '
    'respecting filter judging a block at an unsorted location over a '
    'reversed pair) are not judged and counted as excluded. Trees with more '
    'than 64 acceptable outcomes are skipped (label). Second family '
    '(kind:pred, in-process): a library predicate (ChangePredicate, '
    'GateCountPredicate, WidthPredicate, PhysicalPredicate, '
    'MultiPhysicalPredicate, SinglePhysicalPredicate, Not/And/Or of the '
    'stateless ones) is called before and after each of 1-4 scripted edits '
    '(of the whole circuit or of the inside of one block) and must return '
    'what its docstring says; non-trivial: it returned both verdicts. '
    'Distinct = sha1 of the JSON case.'
)
ASSUMPTIONS = [
    'the scripted leaves (vt/simrt/scripted.py) use only Circuit(), append, '
    'become and iteration; Circuit.append places an operation in the first '
    'cycle after which its qudits stay free (documented in '
    'find_available_cycle; C04/C05 check it)',
    'gate equality/hash and Gate.get_unitary are correct (C18); the '
    'partitioners are only used to produce inputs (C08)',
    'CouplingGraph membership and get_subgraph are correct (C20)',
    'the runtime delivers every result (C07) - a hang is reported as such',
    'string replace filters: the docstring fixes the verdict when the primary '
    'count differs; ties on the primary count are broken by the next narrower '
    'gate class, a non-CircuitGate original is always replaced, and a '
    'replacement that does not respect the model is refused when the original '
    'does (refinements the docstring is silent about, taken from the '
    'implementation); generated only together with the CircuitGate collection '
    'filter. Cases where "respects the model" depends on whether the '
    'placement is applied are skipped (label skipped:ambiguous-respecting)',
    'ParallelDo: any minimal branch under a strict weak order is acceptable '
    '(ties unspecified); with pick_first any completed branch is acceptable; '
    'Record counts of cancelled branches are bounded above only',
    'blocks are numbered in circuit iteration order = (cycle, first qudit of '
    'the location); for unsorted locations this is implementation-defined',
    'ChangePredicate: must be True when the flattened program differs from '
    'the one at the previous call and False when the circuit is identical '
    '(same operations in the same cycles); a different layout/nesting of the '
    'same program is left open. PhysicalPredicate is judged on circuits '
    'without blocks only',
    'PauliGate (collected by the default filter but not named in the '
    'docstring) is not generated',
]
SHARDS = {'quick': 16, 'thorough': 16}
BUDGET_S = {'quick': 170, 'thorough': 2400}

# documented key names (class attributes of ForEachBlockPass)
FE_KEY = 'ForEachBlockPass_data'
PD_PREFIX = 'ForEachBlockPass_pass_down_'
PDS_PREFIX = 'ForEachBlockPass_specific_pass_down_'
PD = PD_PREFIX + 'vt'
PDS = PDS_PREFIX + 'vt'
PLANT = 'vt-plant'

TOL_ERR = 1e-6        # |data.error - predicted| and slack of the error bound
TOL_U = 1e-9          # max entry difference of unitaries that must be equal
TOL_P = 1e-12         # parameters
C_BOUND = 4.0         # data.error >= d - C_BOUND * d^2
MAX_OUTCOMES = 64     # acceptable final states of a non-deterministic tree
MAX_STEPS = 4000

STRING_FILTERS = [
    'always', 'less-than', 'less-than-multi', 'less-than-many',
    'less-than-respecting', 'less-than-respecting-multi',
    'less-than-respecting-many', 'less-than-respecting-fully',
    'less-than-respecting-fully-multi', 'less-than-respecting-fully-many',
]
CALLABLE_FILTERS = ['fn:never', 'fn:always', 'fn:not-longer', 'fn:longer',
                    'fn:even']

It = namedtuple('It', 'c loc gate params sub')


# =========================================================== abstract circuits
def _order(x) -> tuple:
    """Block numbers follow the circuit's iteration order: by cycle, then by
    the first qudit of the location (the lowest qudit for the sorted
    locations partitioners produce)."""
    return (x.c, x.loc[0])


def abstract_of(circuit, params=None) -> tuple:
    """Items of a real circuit in grid order; CircuitGates become nested
    items (their parameters are sliced in grid order)."""
    from bqskit.ir.gates.circuitgate import CircuitGate
    out = []
    i = 0
    # parameters of a CircuitGate are listed in the iteration order of its
    # circuit (cycle, first qudit of the location)
    ops = sorted(refsim.grid_ops(circuit),
                 key=lambda co: (co[0], co[1].location[0]))
    for c, op in ops:
        k = op.num_params
        if params is None:
            p = tuple(float(x) for x in op.params)
        else:
            p = tuple(float(x) for x in params[i:i + k])
            i += k
        if isinstance(op.gate, CircuitGate):
            out.append(It(c, tuple(op.location), None, (),
                          abstract_of(op.gate._circuit, p)))
        else:
            out.append(It(c, tuple(op.location), op.gate, p, None))
    return tuple(out)


def flat(items, loc_map=None):
    for x in items:
        loc = x.loc if loc_map is None else tuple(loc_map[q] for q in x.loc)
        if x.sub is not None:
            yield from flat(x.sub, {i: q for i, q in enumerate(loc)})
        else:
            yield (x.gate, loc, x.params)


def unitary(radixes, items) -> np.ndarray:
    ops = []
    for g, loc, p in flat(items):
        ops.append((np.asarray(g.get_unitary(list(p)).numpy), list(loc)))
    return refsim.unitary_of_ops(list(radixes), ops)


def asap(seq) -> tuple:
    """seq: (loc, gate, params, sub) in program order -> items placed like
    successive Circuit.append calls."""
    last: dict = {}
    out = []
    for loc, gate, params, sub in seq:
        c = max((last.get(q, -1) for q in loc), default=-1) + 1
        for q in loc:
            last[q] = c
        out.append(It(c, tuple(loc), gate, tuple(params), sub))
    out.sort(key=_order)
    return tuple(out)


def _seq(items) -> list:
    return [(x.loc, x.gate, x.params, x.sub) for x in items]


# ============================================================== abstract state
def _dc(x):
    if isinstance(x, dict):
        return {k: _dc(v) for k, v in x.items()}
    if isinstance(x, list):
        return [_dc(v) for v in x]
    if isinstance(x, State):
        return x.copy()
    return x


class State:
    FIELDS = ('n', 'radixes', 'items', 'error', 'placement', 'imap', 'fmap',
              'seed', 'model', 'target')

    def __init__(self) -> None:
        self.n = 0
        self.radixes: tuple = ()
        self.items: tuple = ()
        self.error = 0.0
        self.placement: list = []
        self.imap: list = []
        self.fmap: list = []
        self.seed = None
        self.model = None      # (m, frozenset(edges), frozenset(gates), radixes)
        self.target = None     # ndarray
        self.user: dict = {}
        # execution log bounds and statistics (never restored)
        self.glo: Counter = Counter()
        self.ghi: Counter = Counter()
        self.stats: Counter = Counter()
        self.flags: set = set()

    def copy(self) -> 'State':
        s = State()
        for f in self.FIELDS:
            v = getattr(self, f)
            setattr(s, f, list(v) if isinstance(v, list) else v)
        s.user = _dc(self.user)
        s.glo, s.ghi = Counter(self.glo), Counter(self.ghi)
        s.stats = Counter(self.stats)
        s.flags = set(self.flags)
        return s

    def restore(self, saved: 'State') -> None:
        """circuit.become(old); data.become(old_data)."""
        c = saved.copy()
        for f in self.FIELDS:
            setattr(self, f, getattr(c, f))
        self.user = c.user

    def clear_logs(self) -> None:
        self.glo, self.ghi, self.stats = Counter(), Counter(), Counter()

    def log(self, key) -> None:
        self.glo[key] += 1
        self.ghi[key] += 1

    def absorb(self, other: 'State') -> None:
        self.glo.update(other.glo)
        self.ghi.update(other.ghi)
        self.stats.update(other.stats)
        self.flags |= other.flags


class Out:
    __slots__ = ('st', 'tags')

    def __init__(self, st_, tags=None) -> None:
        self.st = st_
        self.tags = tags


def _hi_of(outs: list) -> Counter:
    """Upper bound of the execution counts over all outcomes (successful or
    failing) of one concurrently running piece of work."""
    hi: Counter = Counter()
    for o in outs:
        for k, v in o.st.ghi.items():
            hi[k] = max(hi[k], v)
    return hi


class _Fail(Exception):
    pass


class Blowup(Exception):
    pass


# ------------------------------------------------------------ filters (items)
def _is_unitary_gate(g) -> bool:
    return type(g).__name__ in ('ConstantUnitaryGate', 'VariableUnitaryGate')


CF = {
    'default': lambda x: x.sub is not None or _is_unitary_gate(x.gate),
    'circuitgate': lambda x: x.sub is not None,
    'unitary': lambda x: x.sub is None and _is_unitary_gate(x.gate),
    'wide': lambda x: len(x.loc) >= 2,
    'narrow': lambda x: len(x.loc) == 1,
    'even': lambda x: x.loc[0] % 2 == 0,
    'odd': lambda x: x.loc[0] % 2 == 1,
    'all': lambda x: True,
    'none': lambda x: False,
}


def _counts(items) -> tuple:
    n1 = sum(1 for x in items if len(x.loc) == 1)
    n2 = sum(1 for x in items if len(x.loc) == 2)
    nm = sum(1 for x in items if len(x.loc) > 2)
    return n1, n2, nm


def _respects(items, loc, model, fully, placement, directed=False) -> bool:
    """directed=True reproduces an order-sensitive edge lookup (the pair is
    (loc[a], loc[b]) for circuit qudits a < b and must be stored as such)."""
    m, edges, gates, _ = model
    for x in items:
        if len(x.loc) > 1 or fully:
            if x.sub is not None or x.gate not in gates:
                return False
    for x in items:
        for a, b in it.combinations(sorted(x.loc), 2):
            u, v = loc[a], loc[b]
            if placement is not None:
                u, v = placement[u], placement[v]
            if directed:
                if u > v or (u, v) not in edges:
                    return False
            elif (min(u, v), max(u, v)) not in edges:
                return False
    return True


def replace_verdict(name: str, new_items, blk, state: State,
                    directed=False) -> bool:
    """The verdict of replace filter ``name`` for writing ``new_items`` over
    ``blk`` (an item of ``state``'s circuit)."""
    old_n = len(blk.sub) if blk.sub is not None else 1
    if name in ('always', 'fn:always'):
        return True
    if name == 'fn:never':
        return False
    if name == 'fn:not-longer':
        return len(new_items) <= old_n
    if name == 'fn:longer':
        return len(new_items) > old_n
    if name == 'fn:even':
        return blk.loc[0] % 2 == 0
    if blk.sub is None:
        return True
    n1, n2, nm = _counts(new_items)
    o1, o2, om = _counts(blk.sub)
    if name.endswith('multi'):
        base = (n2 + nm, n1) < (o2 + om, o1)
    elif name.endswith('many'):
        base = (nm, n2, n1) < (om, o2, o1)
    else:
        base = len(new_items) < len(blk.sub)
    if 'respecting' not in name:
        return base
    fully = 'fully' in name
    verdicts = []
    for placement, dirn in ((None, False), (state.placement, False),
                            (None, True)):
        if not _respects(blk.sub, blk.loc, state.model, fully, placement,
                         dirn):
            verdicts.append(True)
        elif not _respects(new_items, blk.loc, state.model, fully, placement,
                           dirn):
            verdicts.append(False)
        else:
            verdicts.append(base)
    if verdicts[0] != verdicts[1]:
        state.flags.add('ambiguous-respecting')
    if verdicts[0] != verdicts[2]:
        state.flags.add('reversed-edge')
    if verdicts[0] != base:
        state.stats['respecting:decisive'] += 1
    return verdicts[2] if directed else verdicts[0]


DTD = {
    'accept': lambda o, n: True, 'reject': lambda o, n: False,
    'fewer': lambda o, n: len(n) < len(o),
    'not-more': lambda o, n: len(n) <= len(o),
    'more': lambda o, n: len(n) > len(o),
}
LESS = {
    'fewer': lambda a, b: len(a) < len(b),
    'more': lambda a, b: len(a) > len(b),
    'never': lambda a, b: False,
}


# ========================================================= reference interpreter
class Ref:
    def __init__(self, directed=False) -> None:
        self.steps = 0
        self.directed = directed

    # -- scripts
    @staticmethod
    def tables(user: dict, kind: str) -> list:
        keys = (PDS, PD) if 'subnumbering' in user else ('vt',)
        out = []
        for k in keys:
            d = user.get(k)
            if isinstance(d, dict) and isinstance(d.get(kind), dict):
                out.append(d[kind])
        return out

    def pred(self, ident: str, s: State) -> bool:
        s.log(('pred:' + ident, s.user.get('point')))
        s.stats['npred'] += 1
        spec_t = s.user.get(PDS) if 'subnumbering' in s.user else None
        for t in self.tables(s.user, 'pred'):
            if ident in t:
                if isinstance(spec_t, dict) and t is spec_t.get('pred'):
                    s.stats['override:pred'] += 1
                lst = t[ident]
                return bool(lst.pop(0)) if lst else False
        return False

    # -- leaves
    def action(self, node: dict, s: State) -> None:
        from vt.simrt import scripted as X
        ident = node['id']
        spec = node['a']
        if 'subnumbering' in s.user:
            for t in self.tables(s.user, 'act'):
                if ident in t:
                    spec = t[ident]
                    s.stats['override:act'] += 1
                    break
        a = spec['a']
        s.log((ident, s.user.get('point')))
        s.stats['act:' + a] += 1
        w = s.n
        rad = s.radixes
        if a == 'identity':
            return
        if a == 'record':
            s.user.setdefault('trace', []).append(ident)
            return
        if a == 'probe':
            s.user.setdefault('vt_seen', []).append({
                'items': s.items, 'model': s.model, 'seed': s.seed,
                'placement': list(s.placement), 'imap': list(s.imap),
                'fmap': list(s.fmap), 'error': s.error,
            })
            return
        if a == 'fail':
            raise _Fail(f'vt-fail:{ident}')
        if a == 'rewrite':
            q = spec['q'] % w
            k = spec['k']
            pair = [((q,), g, tuple(p), None)
                    for g, p in X.pair1(rad[q], spec['g'])]
            seq: list = []
            done = k <= 0
            if done:
                seq.extend(pair)
            seen = 0
            for x in s.items:
                seq.append((x.loc, x.gate, x.params, x.sub))
                if q in x.loc:
                    seen += 1
                    if not done and seen == k:
                        seq.extend(pair)
                        done = True
            if not done:
                seq.extend(pair)
            s.items = asap(seq)
            return
        if a == 'shrink':
            s.items = asap([
                y for y, x in zip(_seq(s.items), s.items)
                if not (x.sub is None
                        and type(x.gate).__name__ == 'TaggedGate'
                        and x.gate.tag == PLANT)
            ])
            return
        if a == 'grow':
            seq = _seq(s.items)
            for j in range(spec['k']):
                a0, a1 = j % w, (j + 1) % w
                if w >= 2 and j % 2 == 1 and rad[a0] == rad[a1]:
                    seq.extend(((a0, a1), g, tuple(p), None)
                               for g, p in X.pair2(rad[a0]))
                else:
                    seq.extend(((a0,), g, tuple(p), None)
                               for g, p in X.pair1(rad[a0], j))
            s.items = asap(seq)
            return
        if a == 'perturb':
            q = spec['q'] % w
            theta = float(spec['theta'])
            radix = rad[q]
            gate, params, dist = X.perturb_gate(radix, theta)
            seq = _seq(s.items)
            last = None
            for i, x in enumerate(s.items):
                if q in x.loc:
                    last = i
            if radix == 2 and last is not None and \
                    s.items[last].sub is None and \
                    type(s.items[last].gate).__name__ == 'RZGate':
                x = s.items[last]
                seq[last] = (x.loc, x.gate, (x.params[0] + theta,), None)
            else:
                seq.append(((q,), gate, tuple(params), None))
            s.items = asap(seq)
            s.error = 1 - (1 - s.error) * (1 - dist)
            return
        if a == 'setmap':
            k = int(spec['k'])
            for f in spec['fields']:
                if f == 'placement':
                    s.placement = X.rotate(s.placement, k)
                elif f == 'imap':
                    s.imap = X.rotate(s.imap, k)
                elif f == 'fmap':
                    s.fmap = list(reversed(s.fmap))
                elif f == 'error':
                    s.error = 1 - (1 - s.error) * (1 - float(spec['x']))
                elif f == 'seed':
                    s.seed = k
                elif f == 'user':
                    s.user['vt_user'] = list(s.user.get('vt_user', [])) + [k]
                elif f == 'target':
                    dim = int(np.prod(s.radixes))
                    s.target = X.target_matrix(dim, k)
                elif f == 'model':
                    m, _, gates, rad = s.model
                    edges = frozenset(
                        (min(u, v), max(u, v))
                        for u, v in X.graph_edges(m, k)
                    )
                    s.model = (m, edges, gates, rad)
                else:
                    raise core.HarnessError(f'unknown field {f}')
            return
        raise core.HarnessError(f'unknown action {a}')

    # -- control
    def run_body(self, nodes: list, s: State) -> list:
        outs = [Out(s)]
        for node in nodes:
            nxt = []
            for o in outs:
                if o.tags is not None:
                    nxt.append(o)
                else:
                    nxt.extend(self.run_node(node, o.st))
            outs = nxt
            if len(outs) > MAX_OUTCOMES:
                raise Blowup()
        return outs

    def run_node(self, node: dict, s: State) -> list:
        self.steps += 1
        if self.steps > MAX_STEPS:
            raise Blowup()
        t = node['t']
        if t == 'leaf':
            try:
                self.action(node, s)
            except _Fail as f:
                return [Out(s, {str(f)})]
            return [Out(s)]
        if t == 'seq':
            return self.run_body(node['kids'], s)
        if t == 'if':
            if self.pred(node['id'], s):
                if node.get('else'):
                    s.stats['nrej'] += 1
                    s.stats['if:else-skipped'] += 1
                return self.run_body(node['then'], s)
            s.stats['nrej'] += 1
            s.stats['if:then-skipped'] += 1
            if node.get('else'):
                return self.run_body(node['else'], s)
            return [Out(s)]
        if t in ('while', 'dowhile'):
            return self.run_loop(node, s, t == 'dowhile')
        if t == 'dtd':
            return self.run_dtd(node, s)
        if t == 'par':
            return self.run_par(node, s)
        if t == 'foreach':
            return self.run_foreach(node, s)
        raise core.HarnessError(f'unknown node {t}')

    def run_loop(self, node: dict, s: State, first: bool) -> list:
        done = []
        work = [(s, first)]
        while work:
            self.steps += 1
            if self.steps > MAX_STEPS or len(done) + len(work) > MAX_OUTCOMES:
                raise Blowup()
            cur, uncond = work.pop()
            if not uncond and not self.pred(node['id'], cur):
                done.append(Out(cur))
                continue
            cur.stats['loop-iterations'] += 1
            for o in self.run_body(node['body'], cur):
                if o.tags is not None:
                    done.append(o)
                else:
                    work.append((o.st, False))
        return done

    def run_dtd(self, node: dict, s: State) -> list:
        saved = s.copy()
        res = []
        for o in self.run_body(node['body'], s):
            if o.tags is None:
                cur = o.st
                cur.stats['npred'] += 1
                if DTD[node['cond']](saved.items, cur.items):
                    cur.stats['dtd:accept'] += 1
                else:
                    cur.restore(saved)
                    cur.stats['dtd:reject'] += 1
                    cur.stats['nrej'] += 1
            res.append(o)
        return res

    def sub_do_work(self, body: list, s: State) -> list:
        """basepass._sub_do_work: the documented per-block error measurement
        when data['calculate_error_bound'] is set."""
        ceb = bool(s.user.get('calculate_error_bound'))
        if ceb:
            u0 = unitary(s.radixes, s.items)
        outs = self.run_body(body, s)
        if ceb:
            for o in outs:
                if o.tags is None:
                    o.st.error = refsim.hs_distance(
                        unitary(o.st.radixes, o.st.items), u0,
                    )
        return outs

    def run_par(self, node: dict, s: State) -> list:
        per = []
        for b in node['branches']:
            c = s.copy()
            c.clear_logs()
            c.flags = set()
            per.append(self.sub_do_work(b, c))
        tags: set = set()
        oks = []
        for outs in per:
            for o in outs:
                if o.tags is not None:
                    tags |= o.tags
            oks.append([o.st for o in outs if o.tags is None])
        res = []
        nb = len(per)
        allflags: set = set()
        for outs in per:
            for o in outs:
                allflags |= o.st.flags

        def finish(chosen: State, lo_hi_others: list) -> None:
            fin = chosen.copy()
            glo, ghi, stats = Counter(s.glo), Counter(s.ghi), Counter(s.stats)
            glo.update(chosen.glo)
            ghi.update(chosen.ghi)
            stats.update(chosen.stats)
            for lo, hi in lo_hi_others:
                glo.update(lo)
                ghi.update(hi)
            fin.glo, fin.ghi, fin.stats = glo, ghi, stats
            fin.flags = set(s.flags) | chosen.flags | allflags
            fin.stats['npred'] += max(0, nb - 1)
            fin.stats['nrej'] += nb - 1
            fin.stats['par:first' if node['first'] else 'par:all'] += 1
            res.append(Out(fin))

        if node['first']:
            for bi, lst in enumerate(oks):
                others = [
                    (Counter(), _hi_of(per[j])) for j in range(nb) if j != bi
                ]
                for cand in lst:
                    finish(cand, others)
        else:
            if all(oks):
                n = 1
                for lst in oks:
                    n *= len(lst)
                if n > MAX_OUTCOMES:
                    raise Blowup()
                less = LESS[node['less']]
                for combo in it.product(*oks):
                    mins = [
                        i for i in range(nb) if not any(
                            less(combo[j].items, combo[i].items)
                            for j in range(nb) if j != i
                        )
                    ]
                    for i in mins:
                        finish(combo[i], [
                            (combo[j].glo, combo[j].ghi)
                            for j in range(nb) if j != i
                        ])
                        if len(mins) > 1:
                            res[-1].st.stats['par:tie'] += 1
        if tags:
            f = s.copy()
            for outs in per:
                f.ghi.update(_hi_of(outs))
                for o in outs:
                    f.flags |= o.st.flags
            res.append(Out(f, tags))
        if len(res) > MAX_OUTCOMES:
            raise Blowup()
        return res

    def run_foreach(self, node: dict, s: State) -> list:
        s.user.setdefault(FE_KEY, [])
        cf = CF[node['cf']]
        sel = [i for i, x in enumerate(s.items) if cf(x)]
        s.stats['fe:runs'] += 1
        if 'subnumbering' in s.user and sel:
            s.stats['fe:nested-run'] += 1
        if not sel:
            s.user[FE_KEY].append([])
            s.stats['fe:empty'] += 1
            return [Out(s)]
        # physical connectivity of the circuit qudits
        m, medges, gates, mrad = s.model
        conn = set()
        for a, b in it.combinations(range(s.n), 2):
            u, v = s.placement[a], s.placement[b]
            if (min(u, v), max(u, v)) in medges:
                conn.add((a, b))
        per = []
        for bi, idx in enumerate(sel):
            blk = s.items[idx]
            sub = State()
            w = len(blk.loc)
            sub.n = w
            sub.radixes = tuple(s.radixes[q] for q in blk.loc)
            if blk.sub is not None:
                sub.items = blk.sub
            else:
                sub.items = (It(0, tuple(range(w)), blk.gate, blk.params,
                                None),)
            num = {blk.loc[k]: k for k in range(w)}
            edges = frozenset(
                (min(num[a], num[b]), max(num[a], num[b]))
                for a, b in conn if a in num and b in num
            )
            sub.model = (w, edges, gates, sub.radixes)
            sub.placement = list(range(w))
            sub.imap = list(range(w))
            sub.fmap = list(range(w))
            sub.seed = s.seed
            sub.target = unitary(sub.radixes, sub.items)
            sub.user = {
                'subnumbering': num, 'point': (blk.c, blk.loc[0]),
                'calculate_error_bound': bool(node['ceb']),
            }
            for key, val in s.user.items():
                if key.startswith(PD_PREFIX):
                    sub.user[key] = _dc(val)
                elif key.startswith(PDS_PREFIX) and bi in val:
                    sub.user[key] = _dc(val[bi])
            per.append(self.sub_do_work(node['body'], sub))
        tags: set = set()
        oks = []
        for outs in per:
            for o in outs:
                if o.tags is not None:
                    tags |= o.tags
            oks.append([o.st for o in outs if o.tags is None])
        res = []
        if all(oks):
            n = 1
            for lst in oks:
                n *= len(lst)
            if n > MAX_OUTCOMES:
                raise Blowup()
            for combo in it.product(*oks):
                cur = s.copy() if n > 1 else s
                items = list(cur.items)
                recs = []
                err_sum = 0.0
                nrej = 0
                for bi, idx in enumerate(sel):
                    blk = items[idx]
                    sub = combo[bi].copy() if n > 1 else combo[bi]
                    if replace_verdict(node['rf'], sub.items, blk, cur,
                                       self.directed):
                        items[idx] = It(blk.c, blk.loc, None, (),
                                        tuple(sub.items))
                        sub.user['replaced'] = True
                        err_sum += sub.error
                    else:
                        sub.user['replaced'] = False
                        nrej += 1
                    cur.absorb(sub)
                    recs.append(sub)
                cur.items = tuple(items)
                cur.user[FE_KEY].append(recs)
                cur.error = 1 - (1 - cur.error) * (1 - err_sum)
                if err_sum > 1 or cur.error > 1:
                    cur.flags.add('error>1')
                cur.stats['fe:blocks'] += len(sel)
                cur.stats['fe:rejected'] += nrej
                if len(sel) >= 2:
                    cur.stats['fe:multi'] += 1
                    if nrej >= 1:
                        cur.stats['fe:multi+rejected'] += 1
                res.append(Out(cur))
        if tags:
            f = s.copy()
            for outs in per:
                f.ghi.update(_hi_of(outs))
                for o in outs:
                    f.flags |= o.st.flags
            res.append(Out(f, tags))
        return res


# ================================================================ real objects
def build_circuit(spec: dict):
    """-> partitioned real Circuit."""
    from bqskit.ir.circuit import Circuit
    import bqskit.ir.gates as G
    radixes = list(spec['radixes'])
    n = len(radixes)
    if spec['mode'] == 'part':
        from bqskit.compiler.passdata import PassData
        from bqskit.passes import QuickPartitioner
        from bqskit.passes import ScanPartitioner
        c = S.build_circuit({'radixes': radixes, 'ops': spec['ops']})
        p = (QuickPartitioner if spec['p'] == 'quick' else ScanPartitioner)(
            spec['bs'],
        )
        coro = p.run(c, PassData(c))
        try:
            coro.send(None)
        except StopIteration:
            pass
        return c
    c = Circuit(n, radixes)
    for e in spec['entries']:
        loc = list(e['loc'])
        lr = [radixes[q] for q in loc]
        if e['k'] == 'blk':
            sub = S.build_circuit({'radixes': lr, 'ops': e['ops']})
            c.append_circuit(sub, loc, as_circuit_gate=True)
        elif e['k'] == 'const':
            u = S.haar(int(np.prod(lr)), e['seed'])
            c.append_gate(G.ConstantUnitaryGate(u, lr), loc)
        elif e['k'] == 'var':
            u = S.haar(int(np.prod(lr)), e['seed'])
            g = G.VariableUnitaryGate(len(loc), lr)
            c.append_gate(
                g, loc, list(np.real(u).flatten()) + list(np.imag(u).flatten()),
            )
        else:
            c.append_gate(S.build_gate(e['gate']), loc, list(e['params']))
    return c


GATE_PRESETS = {
    2: {
        'default': None,
        'cx-h-rz': ['CXGate', 'HGate', 'RZGate', 'SGate', 'SdgGate'],
        'cz-u3': ['CZGate', 'U3Gate'],
        'rich': ['CXGate', 'CZGate', 'SwapGate', 'RZZGate', 'CPGate', 'HGate',
                 'XGate', 'SGate', 'SdgGate', 'TGate', 'RZGate', 'RYGate',
                 'U3Gate'],
    },
    3: {'default': None},
    0: {'default': None},      # mixed radixes
}


def _preset_key(radixes) -> int:
    return radixes[0] if len(set(radixes)) == 1 else 0


def build_model(mspec: dict, radixes: list):
    from bqskit.compiler.machine import MachineModel
    from bqskit.ir.circuit import Circuit  # noqa: F401 (import order)
    from bqskit.qis.graph import CouplingGraph
    import bqskit.ir.gates as G
    m = mspec['m']
    names = GATE_PRESETS[_preset_key(radixes)].get(
        mspec.get('gates', 'default'))
    gs = None if names is None else {getattr(G, x)() for x in names}
    edges = sorted({(min(u, v), max(u, v)) for u, v in mspec['edges']})
    # physical qudit placement[i] carries circuit qudit i
    mrad = [2] * m
    for i, ph in enumerate(mspec['placement']):
        mrad[ph] = radixes[i]
    return MachineModel(m, CouplingGraph(edges, m), gs, mrad)


def abstract_model(model) -> tuple:
    edges = frozenset(
        (min(u, v), max(u, v)) for u, v in model.coupling_graph
    )
    return (int(model.num_qudits), edges, frozenset(model.gate_set),
            tuple(model.radixes))


def _blk_entry(e: dict) -> dict:
    out: dict = {}
    if e.get('act'):
        out['act'] = {k: dict(v) for k, v in e['act'].items()}
    if e.get('pred'):
        out['pred'] = {k: list(v) for k, v in e['pred'].items()}
    for j, sub in (e.get('sub') or {}).items():
        out[int(j)] = _blk_entry(sub)
    return out


def walk(nodes, in_fe=False):
    for nd in nodes:
        yield nd, in_fe
        t = nd['t']
        if t == 'seq':
            yield from walk(nd['kids'], in_fe)
        elif t == 'if':
            yield from walk(nd['then'], in_fe)
            yield from walk(nd.get('else') or [], in_fe)
        elif t in ('while', 'dowhile', 'dtd'):
            yield from walk(nd['body'], in_fe)
        elif t == 'par':
            for b in nd['branches']:
                yield from walk(b, in_fe)
        elif t == 'foreach':
            yield from walk(nd['body'], True)


def initial_user(case: dict) -> dict:
    top: dict = {}
    down: dict = {}
    for nd, in_fe in walk(case['tree']):
        if nd['t'] in ('if', 'while', 'dowhile'):
            (down if in_fe else top)[nd['id']] = list(nd['v'])
    return {
        'vt': {'pred': top},
        PD: {'pred': down,
             'act': {k: dict(v) for k, v in case.get('dact', {}).items()}},
        PDS: {int(i): _blk_entry(e) for i, e in case.get('blk', {}).items()},
    }


def build_passes(nodes: list, in_fe: bool) -> list:
    from bqskit.compiler.workflow import Workflow
    from bqskit.passes.control.dothendecide import DoThenDecide
    from bqskit.passes.control.dowhileloop import DoWhileLoopPass
    from bqskit.passes.control.foreach import ForEachBlockPass
    from bqskit.passes.control.ifthenelse import IfThenElsePass
    from bqskit.passes.control.paralleldo import ParallelDo
    from bqskit.passes.control.whileloop import WhileLoopPass
    from vt.simrt import scripted as X
    out = []
    for nd in nodes:
        t = nd['t']
        if t == 'leaf':
            spec = dict(nd['a'])
            if in_fe:
                out.append(X.Scripted(nd['id'], spec))
            else:
                a = spec.pop('a')
                out.append(X.FIXED[a](nd['id'], **spec))
        elif t == 'seq':
            out.append(Workflow(build_passes(nd['kids'], in_fe)))
        elif t == 'if':
            out.append(IfThenElsePass(
                X.ScriptedPredicate(nd['id']),
                build_passes(nd['then'], in_fe),
                build_passes(nd['else'], in_fe) if nd.get('else') else None,
            ))
        elif t == 'while':
            out.append(WhileLoopPass(
                X.ScriptedPredicate(nd['id']), build_passes(nd['body'], in_fe),
            ))
        elif t == 'dowhile':
            out.append(DoWhileLoopPass(
                X.ScriptedPredicate(nd['id']), build_passes(nd['body'], in_fe),
            ))
        elif t == 'dtd':
            out.append(DoThenDecide(
                X.DTD[nd['cond']], build_passes(nd['body'], in_fe),
            ))
        elif t == 'par':
            out.append(ParallelDo(
                [build_passes(b, in_fe) for b in nd['branches']],
                X.LESS[nd['less']], bool(nd['first']),
            ))
        elif t == 'foreach':
            rf = nd['rf']
            out.append(ForEachBlockPass(
                build_passes(nd['body'], True),
                calculate_error_bound=bool(nd['ceb']),
                collection_filter=X.COLLECTION[nd['cf']],
                replace_filter=X.REPLACE_FN[rf] if rf.startswith('fn:')
                else rf,
            ))
        else:
            raise core.HarnessError(f'unknown node {t}')
    return out


# ================================================================== comparison
def _norm(x):
    if isinstance(x, dict):
        return {k: _norm(v) for k, v in x.items()}
    if isinstance(x, (list, tuple)):
        return [_norm(v) for v in x]
    if isinstance(x, (bool, str)) or x is None:
        return x
    if isinstance(x, (int, np.integer)):
        return int(x)
    if isinstance(x, (float, np.floating)):
        return float(x)
    return x


def cmp_items(real, exp, scope: str, mm: list, path='') -> None:
    if [(x.c, x.loc) for x in real] != [(x.c, x.loc) for x in exp]:
        mm.append((
            f'{scope}|circuit_positions',
            f'{path} got {[(x.c, x.loc) for x in real]} '
            f'want {[(x.c, x.loc) for x in exp]}',
        ))
        return
    for a, b in zip(real, exp):
        here = f'{path}/({a.c},{a.loc})'
        if (a.sub is None) != (b.sub is None):
            mm.append((
                f'{scope}|circuit_block_kind',
                f'{here} got {"op" if a.sub is None else "block"} want '
                f'{"op" if b.sub is None else "block"}',
            ))
        elif a.sub is None:
            if a.gate != b.gate or len(a.params) != len(b.params) or any(
                abs(x - y) > TOL_P for x, y in zip(a.params, b.params)
            ):
                mm.append((
                    f'{scope}|circuit_op_changed',
                    f'{here} got {a.gate}{list(a.params)[:4]} want '
                    f'{b.gate}{list(b.params)[:4]}',
                ))
        else:
            sub: list = []
            cmp_items(a.sub, b.sub, scope, sub, here)
            if sub:
                mm.append((f'{scope}|circuit_block_content', sub[0][1]))


def cmp_data(real, exp: State, scope: str, mm: list, path='') -> None:
    """real: PassData, exp: abstract state (data part)."""
    def bad(field, got, want):
        mm.append((f'{scope}|data.{field}', f'{path} got {got} want {want}'))

    if not abs(float(real.error) - exp.error) <= TOL_ERR * max(
            1.0, abs(exp.error)):
        bad('error', real.error, exp.error)
    if list(real.placement) != list(exp.placement):
        bad('placement', real.placement, exp.placement)
    if list(real.initial_mapping) != list(exp.imap):
        bad('initial_mapping', real.initial_mapping, exp.imap)
    if list(real.final_mapping) != list(exp.fmap):
        bad('final_mapping', real.final_mapping, exp.fmap)
    if real.seed != exp.seed:
        bad('seed', real.seed, exp.seed)
    am = abstract_model(real.model)
    if am != exp.model:
        bad('model', (am[0], sorted(am[1]), am[3]),
            (exp.model[0], sorted(exp.model[1]), exp.model[3]))
    tg = np.asarray(real.target.numpy)
    if tg.shape != exp.target.shape or \
            np.abs(tg - exp.target).max() > TOL_U:
        bad('target', f'shape {tg.shape}', f'shape {exp.target.shape}')
    rkeys, ekeys = set(real._data), set(exp.user)
    if rkeys != ekeys:
        bad('keys', sorted(rkeys - ekeys), sorted(ekeys - rkeys))
    for key in sorted(rkeys & ekeys):
        rv, ev = real._data[key], exp.user[key]
        if key == FE_KEY:
            if len(rv) != len(ev):
                bad('foreach_runs', len(rv), len(ev))
                continue
            for k, (rrun, erun) in enumerate(zip(rv, ev)):
                if len(rrun) != len(erun):
                    bad('foreach_block_count', len(rrun), len(erun))
                    continue
                for i, (rb, eb) in enumerate(zip(rrun, erun)):
                    cmp_data(rb, eb, 'block', mm, f'{path}/run{k}/block{i}')
        elif key == 'vt_seen':
            if len(rv) != len(ev):
                bad('seen_count', len(rv), len(ev))
                continue
            for k, (r, e) in enumerate(zip(rv, ev)):
                sub: list = []
                cmp_items(abstract_of(r['circuit']), e['items'], 'seen', sub)
                if sub:
                    mm.append(('seen|circuit', f'{path} probe {k}: '
                               + sub[0][1]))
                if abstract_model(r['model']) != e['model']:
                    g = abstract_model(r['model'])
                    mm.append((
                        'seen|model',
                        f'{path} probe {k}: got {(g[0], sorted(g[1]), g[3])} '
                        f'want {(e["model"][0], sorted(e["model"][1]))}',
                    ))
                for f in ('seed', 'placement', 'imap', 'fmap'):
                    if _norm(r[f]) != _norm(e[f]):
                        mm.append((f'seen|{f}', f'{path} probe {k}: got '
                                   f'{r[f]} want {e[f]}'))
                if abs(r['error'] - e['error']) > TOL_ERR:
                    mm.append(('seen|error', f'{path} probe {k}: got '
                               f'{r["error"]} want {e["error"]}'))
        else:
            if _norm(rv) != _norm(ev):
                name = key if not key.startswith('ForEachBlockPass') \
                    else 'passdown'
                bad(f'user:{name}', str(_norm(rv))[:300],
                    str(_norm(ev))[:300])


def _cmp_counts(observed: Counter, exp: State, mm: list) -> None:
    """Execution counts of every leaf / predicate (per block point) against
    the bounds of one acceptable outcome."""
    for key in sorted(set(observed) | set(exp.ghi), key=str):
        got = observed.get(key, 0)
        if got > exp.ghi.get(key, 0):
            mm.append(('exec_count|too_many',
                       f'{key} ran {got}x, at most {exp.ghi.get(key, 0)}'))
            return
        if got < exp.glo.get(key, 0):
            mm.append(('exec_count|too_few',
                       f'{key} ran {got}x, at least {exp.glo.get(key, 0)}'))
            return


def chain_text(e: BaseException) -> str:
    parts = []
    seen = 0
    while e is not None and seen < 6:
        parts.append(' '.join(str(a) for a in e.args))
        e = e.__cause__ or e.__context__
        seen += 1
    return ' || '.join(parts)


# ======================================================================= check
def _tree_labels(case, out: Outcome) -> None:
    kinds = Counter()
    for nd, in_fe in walk(case['tree']):
        kinds[nd['t']] += 1
        if nd['t'] == 'foreach':
            out.label('cf:' + nd['cf'], 'rf:' + nd['rf'])
            if in_fe:
                out.label('nested-foreach')
            if nd['ceb']:
                out.label('ceb')
    for k in kinds:
        if k != 'leaf':
            out.label('node:' + k)


SIG_REV = 'coupling_lookup|reversed_edge_not_found'


def _explained_by_directed_lookup(case, initial, err, res, observed) -> bool:
    """True when the observation deviates from the specification but is
    exactly what an order-sensitive edge lookup in the respecting filters
    produces (one root cause, one signature)."""
    if err is not None or res is None:
        return False
    rc, rd = res
    real_items = abstract_of(rc)

    def matches(directed: bool) -> bool:
        try:
            outs = Ref(directed).run_body(case['tree'], initial())
        except Blowup:
            return False
        for o in outs:
            if o.tags is None:
                mm: list = []
                cmp_items(real_items, o.st.items, 'final', mm)
                cmp_data(rd, o.st, 'final', mm)
                _cmp_counts(observed, o.st, mm)
                if not mm:
                    return True
        return False

    return not matches(False) and matches(True)


def _speed_patch() -> None:
    """seed_random_sources() calls ctypes.util.find_library('c') - an
    ``ldconfig`` subprocess, ~50 ms - before every pass of a seeded workflow.
    Memoising the lookup changes nothing but the run time of the check."""
    import functools
    import bqskit.utils.random as br
    if not hasattr(br.find_library, 'cache_info'):
        br.find_library = functools.lru_cache(None)(br.find_library)


def check_tree(case) -> Outcome:
    from vt.simrt import scripted as X
    from vt.simrt.sim import Hang, Sim, StepBound
    logging.disable(logging.CRITICAL)
    _speed_patch()
    out = Outcome()
    radixes = list(case['circ']['radixes'])
    radix = _preset_key(radixes) or 'mixed'
    circuit = build_circuit(case['circ'])
    cin = circuit.copy()
    n = cin.num_qudits
    items_in = abstract_of(cin)
    model = build_model(case['model'], radixes)
    placement = list(case['model']['placement'])
    user0 = initial_user(case)

    # ---- reference
    u_in = unitary(tuple(cin.radixes), items_in)

    def initial() -> State:
        s = State()
        s.n = n
        s.radixes = tuple(cin.radixes)
        s.items = items_in
        s.placement = list(placement)
        s.imap = list(range(n))
        s.fmap = list(range(n))
        s.seed = case.get('seed')
        s.model = abstract_model(model)
        s.target = u_in
        s.user = _dc(user0)
        return s
    out.label('circ:' + case['circ']['mode'], f'radix:{radix}',
              f'workers:{case["topo"]["workers"]}')
    if placement != list(range(n)):
        out.label('placement:non-identity')
    if any(x.sub is not None and list(x.loc) != sorted(x.loc)
           for x in items_in):
        out.label('block:unsorted-location')
    if any(x.sub is not None and len(x.loc) == 1 for x in items_in):
        out.label('block:1-qudit')
    if any(x.sub is None and _is_unitary_gate(x.gate) for x in items_in):
        out.label('block:unitary-gate')
    per_cycle = Counter(x.c for x in items_in)
    if any(x.sub is not None and per_cycle[x.c] == 1 for x in items_in):
        out.label('block:alone-in-cycle')
    _tree_labels(case, out)
    try:
        outs = Ref().run_body(case['tree'], initial())
    except Blowup:
        out.label('skipped:outcome-blowup')
        return out
    oks = [o.st for o in outs if o.tags is None]
    fail_tags: set = set()
    for o in outs:
        if o.tags is not None:
            fail_tags |= o.tags
    if any('ambiguous-respecting' in x.flags for x in oks):
        out.label('skipped:ambiguous-respecting')
        return out
    rev = any('reversed-edge' in o.st.flags for o in outs)
    if rev:
        out.label('reversed-edge')
        if case.get('x'):
            # open known finding SIG_REV: its trigger is not judged
            out.excluded = 1
            return out
    if len(oks) + bool(fail_tags) > 1:
        out.label('outcomes>1')

    # ---- run on the simulator
    data = dict(user0)
    data['model'] = model
    data['placement'] = placement
    if case.get('seed') is not None:
        data['seed'] = int(case['seed'])
    workflow = build_passes(case['tree'], False)
    del X.LOG[:]
    sim = Sim(case['topo'], case['sched'], policy=case.get('policy'),
              rseed=case.get('rseed', 0))
    err = None
    res = None
    try:
        comp = sim.compiler(0)
        try:
            res = comp.compile(circuit, workflow, request_data=True,
                               data=data)
        except Hang:
            out.fail('hang|client_blocked_at_quiescence',
                     f'trace tail {sim.trace[-8:]}')
            return out
        except StepBound:
            out.label('step-bound')
            return out
        except RuntimeError as e:
            err = e
    finally:
        sim.close()
    observed = Counter(X.LOG)

    # ---- failures
    if rev and _explained_by_directed_lookup(
            case, initial, err, res, observed):
        out.fail(SIG_REV,
                 'a respecting replace filter judged a block at an unsorted '
                 'location: (location[a], location[b]) with location[a] > '
                 'location[b] is looked up in the coupling graph as given and '
                 'never found, so a block that respects the model is treated '
                 'as if it did not (and replaced)')
        return out
    if err is not None:
        text = chain_text(err)
        if fail_tags:
            if any(tag in text for tag in fail_tags):
                out.label('fail:raised')
            else:
                out.fail('fail_wrong_error', text[-600:])
        else:
            sig, det = sc.client_error(err)
            out.fail('unexpected_' + sig, det)
        return out
    if not oks:
        out.fail('fail_swallowed',
                 f'every outcome raises one of {sorted(fail_tags)} but '
                 'compile() returned a circuit')
        return out
    rc, rd = res

    # ---- match the observed final state against the acceptable outcomes
    real_items = abstract_of(rc)
    best = None
    for cand in oks:
        mm: list = []
        cmp_items(real_items, cand.items, 'final', mm)
        cmp_data(rd, cand, 'final', mm)
        _cmp_counts(observed, cand, mm)
        if best is None or len(mm) < len(best[1]):
            best = (cand, mm)
        if not mm:
            break
    exp, mm = best
    seen_sigs = set()
    for sig, det in mm:
        if sig not in seen_sigs:
            seen_sigs.add(sig)
            out.fail(sig, det + (f' [{len(oks)} acceptable outcomes]'
                                 if len(oks) > 1 else ''))
    if mm:
        return out

    # ---- program / unitary / bookkeeping on the matched outcome
    d = T.same_program(list(flat(exp.items)), list(T.flat_ops(rc)), n)
    if d is not None:
        out.fail('final|flat_program', d)
    u_out = refsim.circuit_unitary(rc)
    u_exp = unitary(exp.radixes, exp.items)
    if np.abs(u_out - u_exp).max() > TOL_U:
        out.fail('final|unitary', f'{np.abs(u_out - u_exp).max():.3g}')
    counts = Counter(x.gate for x in rc)
    if dict(counts) != dict(rc.gate_counts):
        out.fail('final|gate_counts',
                 f'{dict(rc.gate_counts)} vs recount {dict(counts)}')
    dist = refsim.hs_distance(u_out, u_in)
    if 'error>1' in exp.flags:
        out.label('error>1(bound not judged)')
    elif not float(rd.error) + TOL_ERR >= dist - C_BOUND * dist * dist:
        out.fail('error_bound',
                 f'data.error={rd.error} < d - {C_BOUND} d^2, d={dist}')
    if dist > 1e-7:
        out.label('moved')

    # ---- classification
    stt = exp.stats
    out.nontrivial = bool(
        stt['fe:multi+rejected'] >= 1
        or (stt['npred'] >= 2 and stt['nrej'] >= 1)
    )
    out.label('judged')
    if dist > 1e-6 and 'error>1' not in exp.flags:
        out.label('bound:informative')
    for k in ('override:act', 'override:pred', 'respecting:decisive',
              'fe:nested-run', 'fe:multi',
              'fe:multi+rejected', 'fe:empty', 'dtd:accept', 'dtd:reject',
              'par:first', 'par:all', 'par:tie', 'if:then-skipped',
              'if:else-skipped', 'loop-iterations'):
        if stt[k]:
            out.label(k)
    for k in stt:
        if k.startswith('act:'):
            out.label(k)
    if stt['fe:blocks'] > stt['fe:rejected'] and stt['fe:blocks']:
        out.label('fe:replaced')
    if fail_tags:
        out.label('fail:possible-but-avoided')
    return out


# ============================================== library predicates (in-process)
def _apply_edit(step: dict, circuit, data, state: State, ref: 'Ref') -> None:
    """One scripted edit of the whole circuit or of the inside of the
    ``blk``-th top-level operation (when that is a CircuitGate), done on the
    real circuit and on the abstract state."""
    from bqskit.compiler.passdata import PassData
    from bqskit.ir.gates.circuitgate import CircuitGate
    from bqskit.ir.operation import Operation
    from vt.simrt import scripted as X
    node = {'id': 'E', 'a': step['a']}
    i = step.get('blk')
    if i is not None and 0 <= i < len(state.items) and \
            state.items[i].sub is not None:
        blk = state.items[i]
        cyc, op = list(circuit.operations_with_cycles())[i]
        if tuple(op.location) != blk.loc or cyc != blk.c:
            raise core.HarnessError('block numbering out of step')
        sub = op.gate._circuit.copy()
        sub.set_params(op.params)
        X.apply_action(step['a'], 'E', sub, PassData(sub))
        circuit.replace(
            (cyc, op.location[0]),
            Operation(CircuitGate(sub, True), op.location, sub.params),
        )
        ss = State()
        ss.n = len(blk.loc)
        ss.radixes = tuple(state.radixes[q] for q in blk.loc)
        ss.items = blk.sub
        ref.action(node, ss)
        items = list(state.items)
        items[i] = It(blk.c, blk.loc, None, (), tuple(ss.items))
        state.items = tuple(items)
    else:
        X.apply_action(step['a'], 'E', circuit, data)
        ref.action(node, state)


def _physical(state: State, directed=False):
    """PhysicalPredicate: the circuit can be executed on the model with the
    current placement (None: unspecified for circuits that contain blocks)."""
    m, edges, gates, mrad = state.model
    if any(x.sub is not None for x in state.items):
        return None
    if state.n > m:
        return False
    for x in state.items:
        if x.gate not in gates:
            return False
        for a, b in it.combinations(sorted(x.loc), 2):
            u, v = state.placement[a], state.placement[b]
            if directed:
                if u > v or (u, v) not in edges:
                    return False
            elif (min(u, v), max(u, v)) not in edges:
                return False
    for i, r in enumerate(state.radixes):
        if mrad[state.placement[i]] != r:
            return False
    return True


class RefPred:
    """Docstring semantics of the library predicates over the abstract state.
    ``eval`` returns True / False, or None where the docstring leaves the
    verdict open (then the observed verdict is adopted to stay in step)."""

    def __init__(self, spec: dict) -> None:
        self.spec = spec
        self.last_items = None
        self.last_count = None

    def _count(self, gate, state: State) -> int:
        if gate in ('sq', 'tq', 'multi', 'many'):
            ok = {
                'sq': lambda w: w == 1, 'tq': lambda w: w == 2,
                'multi': lambda w: w >= 2, 'many': lambda w: w > 2,
            }[gate]
            return sum(1 for x in state.items if ok(len(x.loc)))
        g = S.build_gate(gate)
        return sum(1 for x in state.items if x.sub is None and x.gate == g)

    def eval(self, state: State, observed: bool, spec=None):
        spec = self.spec if spec is None else spec
        p = spec['p']
        if p == 'width':
            return state.n < spec['w']
        if p == 'not':
            v = self.eval(state, not observed, spec['x'])
            return None if v is None else not v
        if p in ('and', 'or'):
            a = self.eval(state, observed, spec['l'])
            b = self.eval(state, observed, spec['r'])
            if a is None or b is None:
                return None
            return (a and b) if p == 'and' else (a or b)
        if p == 'physical':
            return _physical(state)
        if p in ('multi', 'single'):
            m, edges, gates, mrad = state.model
            for x in state.items:
                if (len(x.loc) >= 2) == (p == 'multi'):
                    if x.sub is not None or x.gate not in gates:
                        return False
            return True
        if p == 'count':
            c = self._count(spec['gate'], state)
            if self.last_count is None or self.last_count != c:
                self.last_count = c
                return True
            return False
        if p == 'change':
            if self.last_items is None:
                self.last_items = state.items
                return True
            if state.items == self.last_items:
                return False
            if T.same_program(list(flat(self.last_items)),
                              list(flat(state.items)), state.n) is not None:
                self.last_items = state.items
                return True
            # same flat program in another layout / nesting: unspecified
            if observed:
                self.last_items = state.items
            return None
        raise core.HarnessError(f'unknown predicate {p}')


def build_pred(spec: dict):
    import bqskit.passes.control.predicates as P
    from bqskit.passes.control.predicates.multi import MultiPhysicalPredicate
    from bqskit.passes.control.predicates.physical import PhysicalPredicate
    from bqskit.passes.control.predicates.single import \
        SinglePhysicalPredicate
    p = spec['p']
    if p == 'width':
        return P.WidthPredicate(spec['w'])
    if p == 'not':
        return P.NotPredicate(build_pred(spec['x']))
    if p == 'and':
        return P.AndPredicate(build_pred(spec['l']), build_pred(spec['r']))
    if p == 'or':
        return P.OrPredicate(build_pred(spec['l']), build_pred(spec['r']))
    if p == 'physical':
        return PhysicalPredicate()
    if p == 'multi':
        return MultiPhysicalPredicate()
    if p == 'single':
        return SinglePhysicalPredicate()
    if p == 'count':
        g = spec['gate']
        return P.GateCountPredicate(g if isinstance(g, str)
                                    else S.build_gate(g))
    if p == 'change':
        return P.ChangePredicate()
    raise core.HarnessError(f'unknown predicate {p}')


def _has(spec: dict, name: str) -> bool:
    return spec['p'] == name or any(
        _has(spec[k], name) for k in ('x', 'l', 'r') if k in spec
    )


def check_pred(case) -> Outcome:
    """Library predicates against their docstrings, called between scripted
    edits of a (partitioned) circuit - the way WhileLoopPass drives them."""
    from bqskit.compiler.passdata import PassData
    logging.disable(logging.CRITICAL)
    out = Outcome()
    out.label('kind:pred', 'pred:' + case['pred']['p'])
    radixes = list(case['circ']['radixes'])
    circuit = build_circuit(case['circ'])
    if case['circ'].get('unfold'):
        circuit.unfold_all()
    model = build_model(case['model'], radixes)
    data = PassData(circuit)
    data.model = model
    data.placement = list(case['model']['placement'])
    state = State()
    state.n = circuit.num_qudits
    state.radixes = tuple(circuit.radixes)
    state.items = abstract_of(circuit)
    state.placement = list(data.placement)
    state.model = abstract_model(model)
    ref = Ref()
    rp = RefPred(case['pred'])
    pred = build_pred(case['pred'])
    verdicts = []
    changed_inside = False
    for k in range(len(case['steps']) + 1):
        if k > 0:
            step = case['steps'][k - 1]
            before = state.items
            _apply_edit(step, circuit, data, state, ref)
            if abstract_of(circuit) != state.items:
                raise core.HarnessError('edit diverged from its model')
            if step.get('blk') is not None and before != state.items and \
                    [(x.c, x.loc, x.sub is None) for x in before] == \
                    [(x.c, x.loc, x.sub is None) for x in state.items]:
                changed_inside = True
        try:
            got = bool(pred(circuit, data))
        except Exception as e:
            out.fail(core.exc_sig('pred_raises|' + case['pred']['p'], e),
                     f'call {k}: {e!r}')
            return out
        want = rp.eval(state, got)
        verdicts.append(got)
        if want is None:
            out.label('pred:unspecified-call')
            continue
        if got != want:
            p = case['pred']['p']
            if _has(case['pred'], 'physical') and \
                    _physical(state) is True and \
                    _physical(state, directed=True) is False:
                out.fail(SIG_REV,
                         f'call {k}: PhysicalPredicate is False for a circuit '
                         f'whose couplings all exist under placement '
                         f'{state.placement} (a pair with placement[a] > '
                         'placement[b] is looked up as given)')
            elif p == 'change' and not got:
                out.fail('pred|change_missed',
                         f'call {k}: ChangePredicate returned False although '
                         'the program differs from the one at its previous '
                         f'call (edit {case["steps"][k - 1]})')
            else:
                out.fail(f'pred|{p}', f'call {k}: got {got} want {want}')
            return out
    out.nontrivial = len(set(verdicts)) == 2
    if changed_inside:
        out.label('pred:edit-inside-block')
    return out


def check(case) -> Outcome:
    if case.get('k') == 'pred':
        return check_pred(case)
    return check_tree(case)


replay = check


# =================================================================== generator
NPAR = {'RZGate': 1, 'RYGate': 1, 'U3Gate': 3, 'RZZGate': 1, 'CPGate': 1}
G1 = {
    2: [{'g': x} for x in ('HGate', 'XGate', 'SGate', 'TGate', 'RZGate',
                           'RZGate', 'RYGate', 'U3Gate')],
    3: [{'g': 'HGate', 'a': [3]}, {'g': 'ShiftGate', 'a': [3]},
        {'g': 'ClockGate', 'a': [3]}],
}
G2 = {
    2: [{'g': x} for x in ('CXGate', 'CXGate', 'CZGate', 'SwapGate',
                           'RZZGate', 'CPGate')],
    3: [{'g': 'CSUMGate', 'a': [3]}],
}
ANGLES = st.sampled_from([0.0, 0.25, -0.5, 1.0, math.pi / 2, -math.pi, 2.5])


@st.composite
def op_spec(draw, rad: list):
    w = len(rad)
    two = w >= 2 and draw(st.integers(0, 2)) > 0
    perm = draw(st.permutations(range(w)))
    if two and rad[perm[0]] == rad[perm[1]]:
        g = draw(st.sampled_from(G2[rad[perm[0]]]))
        loc = list(perm[:2])
    else:
        g = draw(st.sampled_from(G1[rad[perm[0]]]))
        loc = [perm[0]]
    k = NPAR.get(g['g'], 0)
    return {'gate': g, 'loc': loc,
            'params': [draw(ANGLES) for _ in range(k)]}


def plant_pair(rad: list, sel: int) -> list:
    w = len(rad)
    radix = rad[sel % w]
    if w >= 2 and sel % 3 == 2 and rad[sel % w] == rad[(sel + 1) % w]:
        loc = [sel % w, (sel + 1) % w]
        if radix == 2:
            inner = [{'g': 'CXGate'}, {'g': 'CXGate'}]
        else:
            c = {'g': 'CSUMGate', 'a': [radix]}
            inner = [c, {'g': 'Dagger', 'inner': c}]
    else:
        loc = [sel % w]
        if radix == 2:
            inner = [{'g': 'XGate'}, {'g': 'XGate'}]
        else:
            c = {'g': 'ShiftGate', 'a': [radix]}
            inner = [c, {'g': 'Dagger', 'inner': c}]
    return [
        {'gate': {'g': 'Tagged', 'inner': g, 'tag': PLANT}, 'loc': loc,
         'params': []} for g in inner
    ]


@st.composite
def op_list(draw, rad: list, lo: int, hi: int):
    ops = draw(st.lists(op_spec(rad), min_size=lo, max_size=hi))
    for _ in range(draw(st.sampled_from([0, 0, 1, 1, 2]))):
        at = draw(st.integers(0, len(ops)))
        ops[at:at] = plant_pair(rad, draw(st.integers(0, 11)))
    return ops


@st.composite
def circuits(draw):
    radix = draw(st.sampled_from([2, 2, 2, 2, 2, 2, 3, 0]))
    n = draw(st.integers(1, {2: 5, 3: 3, 0: 4}[radix]))
    if radix:
        radixes = [radix] * n
    else:
        radixes = [draw(st.sampled_from([2, 3])) for _ in range(n)]
    if n >= 2 and draw(st.integers(0, 9)) < 3:
        return {
            'mode': 'part', 'radixes': radixes,
            'ops': draw(op_list(radixes, 2, 12)),
            'p': draw(st.sampled_from(['quick', 'scan'])),
            'bs': draw(st.integers(2, 3)),
        }
    entries = []
    for _ in range(draw(st.sampled_from([1, 2, 3, 3, 4, 4, 5, 6]))):
        kind = draw(st.sampled_from(['blk'] * 6 + ['const', 'var', 'gate',
                                                  'gate']))
        wmax = min(3, n) if kind == 'blk' else min(2, n)
        w = draw(st.integers(1, wmax))
        if w > 1 and kind == 'blk' and draw(st.integers(0, 4)) == 0:
            w = 1
        perm = list(draw(st.permutations(range(n))))[:w]
        if draw(st.integers(0, 4)) > 1:
            perm = sorted(perm)
        if kind == 'blk':
            entries.append({'k': 'blk', 'loc': perm,
                            'ops': draw(op_list([radixes[q] for q in perm],
                                                0, 5))})
        elif kind in ('const', 'var'):
            entries.append({'k': kind, 'loc': perm,
                            'seed': draw(st.integers(0, 2 ** 20))})
        else:
            o = draw(op_spec(radixes))
            entries.append({'k': 'gate', 'gate': o['gate'], 'loc': o['loc'],
                            'params': o['params']})
    return {'mode': 'direct', 'radixes': radixes, 'entries': entries}


@st.composite
def models(draw, n: int, radix: int):
    """radix: 2, 3 or 0 (mixed)."""
    m = n + draw(st.sampled_from([0, 0, 0, 1, 2]))
    kind = draw(st.sampled_from(['all', 'linear', 'ring', 'random']))
    pairs = list(it.combinations(range(m), 2))
    if kind == 'all':
        edges = pairs
    elif kind == 'linear':
        edges = [(i, i + 1) for i in range(m - 1)]
    elif kind == 'ring':
        edges = [(i, i + 1) for i in range(m - 1)] + (
            [(0, m - 1)] if m > 2 else [])
    else:
        edges = [p for p in pairs if draw(st.booleans())]
    if draw(st.integers(0, 2)) == 0:
        placement = list(draw(st.permutations(range(m))))[:n]
    else:
        placement = list(range(n))
    return {
        'm': m, 'edges': [list(e) for e in edges], 'placement': placement,
        'gates': draw(st.sampled_from(
            sorted(GATE_PRESETS[radix]) + (['rich'] if radix == 2 else []))),
    }


FIELDS = ['placement', 'imap', 'fmap', 'error', 'seed', 'user', 'target',
          'model']
THETAS = [1e-4, 1e-3, 0.01, 0.05, -0.05, 0.2, 0.5]


@st.composite
def actions(draw, fail_weight=1):
    a = draw(st.sampled_from(
        (['record'] * 4 + ['identity', 'rewrite', 'rewrite', 'shrink',
                           'shrink', 'grow', 'perturb', 'perturb', 'setmap',
                           'setmap']) * 2 + ['fail'] * fail_weight,
    ))
    if a == 'rewrite':
        return {'a': a, 'q': draw(st.integers(0, 4)),
                'k': draw(st.integers(0, 4)), 'g': draw(st.integers(0, 2))}
    if a == 'grow':
        return {'a': a, 'k': draw(st.integers(1, 3))}
    if a == 'perturb':
        return {'a': a, 'theta': draw(st.sampled_from(THETAS)),
                'q': draw(st.integers(0, 4))}
    if a == 'setmap':
        return {
            'a': a,
            'fields': draw(st.lists(st.sampled_from(FIELDS), min_size=1,
                                    max_size=4, unique=True)),
            'k': draw(st.integers(0, 7)),
            'x': draw(st.sampled_from([0.01, 0.1])),
        }
    return {'a': a}


VERDICTS = st.lists(st.booleans(), min_size=0, max_size=3)


@st.composite
def bodies(draw, depth: int, fe_depth: int, lo=1, hi=3):
    return [
        draw(nodes(depth, fe_depth))
        for _ in range(draw(st.integers(lo, hi)))
    ]


@st.composite
def nodes(draw, depth: int, fe_depth: int):
    if depth <= 0:
        return {'t': 'leaf', 'a': draw(actions())}
    kinds = ['leaf'] * 5 + ['seq', 'if', 'if', 'while', 'dowhile', 'dtd',
                            'dtd', 'par', 'par']
    if fe_depth < 2:
        kinds += ['foreach'] * (5 if fe_depth == 0 else 2)
    t = draw(st.sampled_from(kinds))
    d = depth - 1
    if t == 'leaf':
        return {'t': 'leaf', 'a': draw(actions())}
    if t == 'seq':
        return {'t': 'seq', 'kids': draw(bodies(d, fe_depth, 1, 3))}
    if t == 'if':
        return {
            't': 'if', 'v': draw(VERDICTS),
            'then': draw(bodies(d, fe_depth, 1, 2)),
            'else': draw(st.one_of(st.none(), bodies(d, fe_depth, 1, 2))),
        }
    if t in ('while', 'dowhile'):
        return {'t': t, 'v': draw(VERDICTS),
                'body': draw(bodies(d, fe_depth, 1, 2))}
    if t == 'dtd':
        return {
            't': 'dtd',
            'cond': draw(st.sampled_from(
                ['accept', 'reject', 'reject', 'fewer', 'not-more', 'more'])),
            'body': draw(bodies(d, fe_depth, 1, 3)),
        }
    if t == 'par':
        return {
            't': 'par', 'less': draw(st.sampled_from(sorted(LESS))),
            'first': draw(st.sampled_from([False, False, True])),
            'branches': [
                draw(bodies(d, fe_depth, 1, 2))
                for _ in range(draw(st.integers(1, 3)))
            ],
        }
    return draw(foreach_nodes(d, fe_depth))


@st.composite
def foreach_nodes(draw, d: int, fe_depth: int):
    rf = draw(st.sampled_from(
        ['always'] * 3 + STRING_FILTERS + CALLABLE_FILTERS * 2))
    if rf in STRING_FILTERS and rf != 'always':
        cf = 'circuitgate'
    else:
        cf = draw(st.sampled_from(
            ['default'] * 3 + ['circuitgate', 'unitary', 'wide', 'narrow',
                               'even', 'odd', 'all', 'none']))
    return {
        't': 'foreach', 'cf': cf, 'rf': rf, 'ceb': draw(st.booleans()),
        'body': [{'t': 'leaf', 'a': {'a': 'probe'}}]
        + draw(bodies(d, fe_depth + 1, 1, 3)),
    }


def normalise(tree: list) -> None:
    i = 0
    for nd, _ in walk(tree):
        nd['id'] = ('L' if nd['t'] == 'leaf' else 'N') + str(i)
        i += 1


@st.composite
def overrides(draw, leaf_ids: list, pred_ids: list, nested: bool, depth=0):
    e: dict = {}
    if leaf_ids:
        ids = draw(st.lists(st.sampled_from(leaf_ids), min_size=1,
                            max_size=2, unique=True))
        if ids:
            e['act'] = {i: draw(actions(fail_weight=3)) for i in ids}
    if pred_ids:
        ids = draw(st.lists(st.sampled_from(pred_ids), max_size=2,
                            unique=True))
        if ids:
            e['pred'] = {i: draw(VERDICTS) for i in ids}
    if nested and depth == 0 and draw(st.booleans()):
        e['sub'] = {
            str(draw(st.integers(0, 2))):
            draw(overrides(leaf_ids, pred_ids, False, 1)),
        }
    return e


@st.composite
def cases(draw, quick=True, ctx=None):
    circ = draw(circuits())
    n = len(circ['radixes'])
    radix = _preset_key(circ['radixes'])
    if draw(st.integers(0, 9)) < 6:
        # a ForEachBlockPass on the partitioned circuit, bare or wrapped in
        # one control pass, with optional neighbours
        fe = draw(foreach_nodes(2, 0))
        wrap = draw(st.sampled_from(
            [None] * 4 + ['dtd', 'dtd', 'while', 'dowhile', 'if', 'par',
                          'seq']))
        if wrap == 'dtd':
            fe = {'t': 'dtd', 'cond': draw(st.sampled_from(sorted(DTD))),
                  'body': draw(bodies(0, 0, 0, 1)) + [fe]}
        elif wrap in ('while', 'dowhile'):
            fe = {'t': wrap, 'v': draw(VERDICTS), 'body': [fe]}
        elif wrap == 'if':
            fe = {'t': 'if', 'v': draw(VERDICTS), 'then': [fe],
                  'else': draw(st.one_of(st.none(), bodies(1, 0, 1, 1)))}
        elif wrap == 'par':
            fe = {'t': 'par', 'less': draw(st.sampled_from(sorted(LESS))),
                  'first': draw(st.booleans()),
                  'branches': [[fe]] + [
                      draw(bodies(1, 0, 1, 2))
                      for _ in range(draw(st.integers(0, 2)))]}
        elif wrap == 'seq':
            fe = {'t': 'seq', 'kids': [fe] + draw(bodies(1, 0, 0, 1))}
        tree = draw(bodies(1, 0, 0, 1)) + [fe] + draw(bodies(2, 0, 0, 1))
    else:
        tree = draw(bodies(3, 0, 1, 3))
    normalise(tree)
    leaf_ids, pred_ids, nested = [], [], False
    for nd, in_fe in walk(tree):
        if in_fe and nd['t'] == 'leaf' and nd['a']['a'] != 'probe':
            leaf_ids.append(nd['id'])
        if in_fe and nd['t'] in ('if', 'while', 'dowhile'):
            pred_ids.append(nd['id'])
        if in_fe and nd['t'] == 'foreach':
            nested = True
    blk = {}
    dact = {}
    if leaf_ids or pred_ids:
        for i in draw(st.lists(st.sampled_from([0, 0, 1, 1, 2, 3, 4]),
                               max_size=3, unique=True)):
            e = draw(overrides(leaf_ids, pred_ids, nested))
            if e:
                blk[str(i)] = e
    if leaf_ids and draw(st.integers(0, 3)) == 0:
        dact = {draw(st.sampled_from(leaf_ids)): draw(actions())}
    return {
        'x': int(bool(ctx is not None and ctx.is_known(SIG_REV))),
        'circ': circ, 'model': draw(models(n, radix)),
        'seed': draw(st.one_of(st.none(), st.integers(0, 1000))),
        'tree': tree, 'blk': blk, 'dact': dact,
        'topo': {'workers': draw(st.sampled_from([1, 2, 2, 3, 3]))},
        'sched': draw(sc.schedules),
        'policy': draw(st.sampled_from([None, None, 'lazy_recv',
                                        'eager_recv'])),
        'rseed': draw(st.integers(0, 50)),
    }


EDITS = ['identity', 'rewrite', 'rewrite', 'shrink', 'grow', 'perturb']


@st.composite
def stateless_specs(draw):
    p = draw(st.sampled_from(['width', 'physical', 'multi', 'single']))
    if p == 'width':
        return {'p': p, 'w': draw(st.integers(1, 6))}
    return {'p': p}


@st.composite
def pred_specs(draw, radixes: list):
    p = draw(st.sampled_from(
        ['change'] * 4 + ['count'] * 3 + ['width', 'physical', 'physical',
                                          'multi', 'single', 'not', 'and',
                                          'or']))
    if p == 'width':
        return {'p': p, 'w': draw(st.integers(1, 6))}
    if p == 'count':
        g = draw(st.sampled_from(['sq', 'tq', 'multi', 'many', 'gate']))
        if g == 'gate':
            g = draw(st.sampled_from(G1[radixes[0]] + G2[radixes[0]]))
        return {'p': p, 'gate': g}
    if p == 'not':
        return {'p': p, 'x': draw(stateless_specs())}
    if p in ('and', 'or'):
        return {'p': p, 'l': draw(stateless_specs()),
                'r': draw(stateless_specs())}
    return {'p': p}


@st.composite
def pred_cases(draw):
    circ = draw(circuits())
    n = len(circ['radixes'])
    spec = draw(pred_specs(circ['radixes']))
    if any(_has(spec, x) for x in ('physical', 'multi', 'single')) or \
            draw(st.integers(0, 4)) == 0:
        circ = dict(circ, unfold=True)
    steps = []
    for _ in range(draw(st.integers(1, 4))):
        steps.append({
            'blk': draw(st.one_of(st.none(), st.integers(0, 3))),
            'a': draw(actions(fail_weight=0).filter(
                lambda x: x['a'] in EDITS)),
        })
    return {'k': 'pred', 'circ': circ,
            'model': draw(models(n, _preset_key(circ['radixes']))),
            'pred': spec, 'steps': steps}


def run_shard(ctx: core.Ctx) -> core.ShardResult:
    res = core.ShardResult()
    core.run_hypothesis(ctx, res, cases(ctx.tier == 'quick', ctx), check,
                        ctx.n(200, 4000), sub=0)
    core.run_hypothesis(ctx, res, pred_cases(), check, ctx.n(60, 1200),
                        sub=1)
    return res
