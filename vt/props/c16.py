"""C16 - objects shipped between processes arrive equal to what was sent."""
from __future__ import annotations

import copy
import pickle

import numpy as np
from hypothesis import strategies as st

from vt import core
from vt.core import Outcome
from vt.gen import specs
from vt.oracle import refsim
from vt.props import circmachine as cm

ID = 'C16'
LEVEL = 'exploration'
RULE = (
    'cases: (circ) circuits reached through generated editing histories or '
    'built from rich specs (nested blocks, composed gates, mixed radixes) -> '
    'pickle and dill round-trip compared cell by cell through the public API, '
    'refsim unitary, ==, and the full C05 view invariant on the copy; copy() '
    'and become() (deep and shallow) equality, and independence judged by '
    'running a second generated history on one side and re-reading the other; '
    '(gate) every gate construction of the generator -> ==/hash/name/unitary '
    'after pickle, singleton preservation for cached classes; (op) Operations;'
    ' (model) MachineModels; (data) PassData with every reserved key and user '
    'keys set to non-default values -> pickle/copy/become/update; (wf) '
    'Workflows nesting every control pass with module-level callables -> '
    'pickle, structure compared and both run on a probe circuit; (task) '
    'RuntimeTask payloads. Non-trivial: circuit with >= 1 nested block or a '
    'cycle containing a gap; PassData/Workflow with >= 3 non-default fields; '
    'composed or constructor-argument gate. Distinct = sha1 of the JSON case.'
)
ASSUMPTIONS = [
    'comparison goes through the public read API (grid cells, radixes, params,'
    ' gate ==), never through __eq__ alone',
    'pickle/dill themselves are correct',
]
SHARDS = {'quick': 16, 'thorough': 16}
BUDGET_S = {'quick': 200, 'thorough': 2400}


# --------------------------------------------------------------- comparing
def grid_of(c):
    g = []
    for cy in range(c.num_cycles):
        row = []
        for q in range(c.num_qudits):
            if c.is_point_idle((cy, q)):
                row.append(None)
            else:
                op = c[cy, q]
                row.append((op.gate, tuple(op.location),
                            tuple(float(p) for p in op.params)))
        g.append(row)
    return g


def grid_diff(a, b):
    if a.num_qudits != b.num_qudits:
        return f'num_qudits {a.num_qudits} vs {b.num_qudits}'
    if tuple(a.radixes) != tuple(b.radixes):
        return f'radixes {a.radixes} vs {b.radixes}'
    if a.num_cycles != b.num_cycles:
        return f'num_cycles {a.num_cycles} vs {b.num_cycles}'
    ga, gb = grid_of(a), grid_of(b)
    for cy, (ra, rb) in enumerate(zip(ga, gb)):
        for q, (x, y) in enumerate(zip(ra, rb)):
            if (x is None) != (y is None):
                return f'cell ({cy},{q}) occupancy differs'
            if x is not None and x != y:
                return f'cell ({cy},{q}): {x[0].name}@{x[1]}{x[2][:2]} vs ' \
                    f'{y[0].name}@{y[1]}{y[2][:2]}'
    return None


def small_unitary(c):
    dim = int(np.prod(c.radixes))
    if dim > 256:
        return None
    if any(refsim.is_placeholder(op) for _, op in refsim.grid_ops(c)):
        return None
    return refsim.circuit_unitary(c)


def build_circuit(case):
    if 'hist' in case:
        itp = cm.Interp(Outcome(), want_trace=False, want_views=False,
                        want_unitary=False)
        c = itp.run(case['hist'])
        # a circuit left with an empty cycle (C05's open finding) is outside
        # the domain of this property
        return None if itp.idle_cycle else c
    return specs.build_circuit(case['circ'])


def run_history_on(c, hist_steps):
    itp = cm.Interp(Outcome(), want_trace=False, want_views=False,
                    want_unitary=False)
    itp.c = c
    try:
        for s in hist_steps:
            itp.step(s)
    except cm.Stop:
        pass
    return itp.c


# ------------------------------------------------------------------- circuits
def check_circ(case) -> Outcome:
    import dill
    from bqskit.ir.circuit import Circuit
    from bqskit.ir.gates.circuitgate import CircuitGate
    out = Outcome()
    c = build_circuit(case)
    if c is None:
        return out
    has_block = any(isinstance(op.gate, CircuitGate)
                    for _, op in refsim.grid_ops(c))
    has_gap = any(
        any(c.is_point_idle((cy, q)) for q in range(c.num_qudits))
        and any(
            not c.is_point_idle((cy2, q)) for cy2 in range(cy + 1, c.num_cycles)
            for q in range(c.num_qudits) if c.is_point_idle((cy, q))
        )
        for cy in range(c.num_cycles)
    )
    out.nontrivial = c.num_operations > 0 and (has_block or has_gap)
    if has_block:
        out.label('nested-block')
    if has_gap:
        out.label('cycle-gap')
    U = small_unitary(c)

    def judge(tag, y, need_views=True):
        d = grid_diff(c, y)
        if d is not None:
            out.fail(f'circ_{tag}_grid', d)
            return
        if U is not None:
            V = small_unitary(y)
            if V is None or np.abs(U - V).max() > 1e-12:
                out.fail(f'circ_{tag}_unitary', '')
        if not (c == y) or (c != y):
            out.fail(f'circ_{tag}_eq', 'x == y is False')
        if need_views:
            cm.check_views(
                y, lambda sig, det: out.fail(f'circ_{tag}_{sig}', det),
            )

    for tag, dumps, loads in (('pickle', pickle.dumps, pickle.loads),
                              ('dill', dill.dumps, dill.loads)):
        try:
            y = loads(dumps(c))
        except Exception as e:
            out.fail(core.exc_sig(f'circ_{tag}_raises', e), repr(e))
            continue
        judge(tag, y)

    # copy(): equal and independent in both directions
    y = c.copy()
    judge('copy', y)
    g_before = grid_of(c)
    y2 = run_history_on(y, case['edit'])
    del y2
    if grid_of(c) != g_before:
        out.fail('circ_copy_shares_state', 'editing the copy changed the '
                 'original')
    y = c.copy()
    g_copy = grid_of(y)
    # CircuitGate(circuit) without move must not alias the circuit
    if c.num_operations and int(np.prod(c.radixes)) <= 64:
        blk = CircuitGate(c)
        inner_before = grid_of(blk._circuit)
    else:
        blk = None
    c2 = run_history_on(c, case['edit'])
    if grid_of(y) != g_copy:
        out.fail('circ_copy_shares_state', 'editing the original changed the '
                 'copy')
    if blk is not None and c2 is c and grid_of(blk._circuit) != inner_before:
        out.fail('circuitgate_aliases_circuit', '')

    # become(): receiver equals source
    c = build_circuit(case)
    U = small_unitary(c)
    for deep in (True, False):
        z = Circuit(1)
        z.append_gate(specs.build_gate({'g': 'HGate'}), [0])
        z.become(c, deep)
        judge(f'become_{"deep" if deep else "shallow"}', z)
        if deep:
            gb = grid_of(c)
            run_history_on(z, case['edit'])
            if grid_of(c) != gb:
                out.fail('circ_become_deep_shares_state', '')
    return out


# ---------------------------------------------------------------------- gates
def check_gate(case) -> Outcome:
    out = Outcome()
    spec = case['gate']
    g = specs.build_gate(spec)
    out.nontrivial = spec['g'] in (
        'Dagger', 'Tagged', 'Power', 'Frozen', 'Controlled', 'Embedded',
        'CircuitGate', 'ConstantUnitaryGate',
    ) or bool(spec.get('a'))
    out.label('gate:' + spec['g'])
    try:
        y = pickle.loads(pickle.dumps(g))
    except Exception as e:
        out.fail(core.exc_sig('gate_pickle_raises', e), f'{spec}: {e!r}')
        return out
    name = type(g).__name__
    if not (g == y):
        out.fail(f'gate_eq|{name}', str(spec))
    else:
        try:
            if hash(g) != hash(y):
                out.fail(f'gate_hash|{name}', str(spec))
        except TypeError:
            pass
    if g.name != y.name or g.num_params != y.num_params or \
            tuple(g.radixes) != tuple(y.radixes):
        out.fail(f'gate_attrs|{name}', str(spec))
    if not specs.is_placeholder(spec):
        p = list(case['p'])[:g.num_params]
        p += [0.1 * i for i in range(g.num_params - len(p))]
        A = np.asarray(g.get_unitary(p).numpy)
        Bm = np.asarray(y.get_unitary(p).numpy)
        if A.shape != Bm.shape or np.abs(A - Bm).max() > 1e-14:
            out.fail(f'gate_unitary|{name}', str(spec))
    # cached singletons stay singletons
    g2 = specs.build_gate(spec)
    if g2 is g and y is not g:
        out.fail(f'gate_singleton|{name}', str(spec))
    d = copy.deepcopy(g)
    if not (d == g):
        out.fail(f'gate_deepcopy_eq|{name}', str(spec))
    # Operation round trip
    from bqskit.ir.operation import Operation
    if not specs.is_placeholder(spec):
        p = [0.25 * (i + 1) for i in range(g.num_params)]
        op = Operation(g, list(range(g.num_qudits)), p)
        o2 = pickle.loads(pickle.dumps(op))
        if not (op == o2) or hash(op) != hash(o2) or \
                list(o2.params) != list(op.params) or \
                tuple(o2.location) != tuple(op.location):
            out.fail(f'op_roundtrip|{name}', str(spec))
    return out


# --------------------------------------------------------------- models, data
def build_model(m):
    from bqskit.compiler.machine import MachineModel
    gs = [specs.build_gate(s) for s in m['gates']]
    return MachineModel(
        m['n'], [tuple(e) for e in m['edges']] if m['edges'] is not None
        else None, gs or None, m['radixes'],
    )


def model_diff(a, b):
    if a.num_qudits != b.num_qudits:
        return 'num_qudits'
    if tuple(a.radixes) != tuple(b.radixes):
        return 'radixes'
    if set(a.gate_set) != set(b.gate_set):
        return 'gate_set'
    ea = {(min(x), max(x)) for x in a.coupling_graph}
    eb = {(min(x), max(x)) for x in b.coupling_graph}
    if ea != eb or a.coupling_graph.num_qudits != b.coupling_graph.num_qudits:
        return 'coupling_graph'
    return None


def check_model(case) -> Outcome:
    out = Outcome()
    m = build_model(case['model'])
    out.nontrivial = case['model']['edges'] is not None and \
        bool(case['model']['gates'])
    y = pickle.loads(pickle.dumps(m))
    d = model_diff(m, y)
    if d:
        out.fail(f'model_pickle_{d}', str(case['model']))
    y = copy.deepcopy(m)
    d = model_diff(m, y)
    if d:
        out.fail(f'model_deepcopy_{d}', str(case['model']))
    return out


def build_data(case):
    from bqskit.compiler.passdata import PassData
    from bqskit.ir.circuit import Circuit
    from bqskit.qis.state.state import StateVector
    from bqskit.qis.state.system import StateSystem
    from bqskit.qis.unitary.unitarymatrix import UnitaryMatrix
    d = case['data']
    n = d['n']
    data = PassData(Circuit(n))
    dim = 2 ** n
    if d['target'] == 'unitary':
        data.target = UnitaryMatrix(specs.haar(dim, d['seed']))
    elif d['target'] == 'state':
        v = specs.haar(dim, d['seed'])[:, 0]
        data.target = StateVector(v)
    elif d['target'] == 'system':
        Uh = specs.haar(dim, d['seed'])
        Vh = specs.haar(dim, d['seed'] + 1)
        data.target = StateSystem({
            StateVector(Uh[:, i]): StateVector(Vh[:, i]) for i in range(2)
        })
    data.error = d['error']
    data.model = build_model(d['model'])
    data.placement = d['placement']
    data.initial_mapping = d['pi']
    data.final_mapping = d['pf']
    data.seed = d['pseed']
    for k, v in d['user'].items():
        data[k] = v
    return data


def data_diff(a, b):
    ta, tb = a._target if hasattr(a, '_target') else None, None
    del ta, tb
    x, y = a.target, b.target
    if type(x) is not type(y):
        return 'target_type'
    try:
        if hasattr(x, 'numpy'):
            if np.abs(np.asarray(x.numpy) - np.asarray(y.numpy)).max() > 0:
                return 'target_value'
        elif not (x == y):
            return 'target_value'
    except Exception:
        return 'target_compare'
    if a.error != b.error:
        return 'error'
    md = model_diff(a.model, b.model)
    if md:
        return 'model_' + md
    if list(a.placement) != list(b.placement):
        return 'placement'
    if list(a.initial_mapping) != list(b.initial_mapping):
        return 'initial_mapping'
    if list(a.final_mapping) != list(b.final_mapping):
        return 'final_mapping'
    if a.seed != b.seed:
        return 'seed'
    ka = {k for k in a if k not in a._reserved_keys}
    kb = {k for k in b if k not in b._reserved_keys}
    if ka != kb:
        return 'user_keys'
    for k in ka:
        if a[k] != b[k]:
            return 'user_value'
    return None


def check_data(case) -> Outcome:
    from bqskit.compiler.passdata import PassData
    from bqskit.ir.circuit import Circuit
    out = Outcome()
    data = build_data(case)
    d = case['data']
    nd = sum([
        d['target'] != 'default', d['error'] != 0.0,
        d['placement'] != list(range(d['n'])), d['pi'] != list(range(d['n'])),
        d['pf'] != list(range(d['n'])), d['pseed'] is not None,
        bool(d['user']), d['model']['edges'] is not None,
    ])
    out.nontrivial = nd >= 3
    out.label(f'target:{d["target"]}')
    for tag, f in (
        ('pickle', lambda x: pickle.loads(pickle.dumps(x))),
        ('copy', lambda x: x.copy()),
    ):
        try:
            y = f(data)
        except Exception as e:
            out.fail(core.exc_sig(f'data_{tag}_raises', e), repr(e))
            continue
        df = data_diff(data, y)
        if df:
            out.fail(f'data_{tag}_{df}', str(d))
    # copy independence
    y = data.copy()
    y.placement = list(reversed(y.placement))
    y['new-key'] = 1
    y.initial_mapping[0:1] = [99]
    if 'new-key' in data or data.initial_mapping[:1] == [99] or \
            list(data.placement) != list(d['placement']):
        out.fail('data_copy_shares_state', '')
    # become
    for deep in (True, False):
        z = PassData(Circuit(d['n']))
        z.become(data, deep)
        df = data_diff(data, z)
        if df:
            out.fail(f'data_become_{df}', f'deepcopy={deep} {d}')
    # update from another PassData
    z = PassData(Circuit(d['n']))
    z.update(data)
    df = data_diff(data, z)
    if df:
        out.fail(f'data_update_{df}', str(d))
    return out


# ------------------------------------------------------------------- workflows
def pred_true(circuit, data):       # noqa: module-level callables
    return True


def two_circ_true(a, b):
    return True


def two_circ_less(a, b):
    return a.num_operations < b.num_operations


def coll_filter(op):
    return op.num_qudits >= 1


def repl_filter(new, old):
    return True


def build_pass(t):
    """t: JSON tree describing a pass."""
    import bqskit.passes as P
    from bqskit.compiler.workflow import Workflow
    from bqskit.passes.control.predicates.count import GateCountPredicate
    from bqskit.passes.control.predicates.change import ChangePredicate
    from bqskit.passes.control.predicates.notpredicate import NotPredicate
    from bqskit.passes.control.predicates.width import WidthPredicate
    k = t['k']
    if k == 'noop':
        return P.NOOPPass()
    if k == 'log':
        return P.LogPass(t['msg'])
    if k == 'update':
        return P.UpdateDataPass(t['key'], t['val'])
    if k == 'unfold':
        return P.UnfoldPass()
    if k == 'quick':
        return P.QuickPartitioner(t['size'])
    if k == 'wf':
        return Workflow([build_pass(x) for x in t['body']], t['name'])
    pred = {
        'count': lambda: GateCountPredicate(specs.build_gate({'g': 'CXGate'})),
        'change': lambda: ChangePredicate(),
        'not': lambda: NotPredicate(ChangePredicate()),
        'width': lambda: WidthPredicate(t.get('w', 3)),
    }[t.get('pred', 'change')]()
    body = [build_pass(x) for x in t['body']]
    if k == 'if':
        return P.IfThenElsePass(pred, body, [build_pass(x) for x in t['else']]
                                if t.get('else') else None)
    if k == 'while':
        return P.WhileLoopPass(pred, body)
    if k == 'dowhile':
        return P.DoWhileLoopPass(pred, body)
    if k == 'dtd':
        return P.DoThenDecide(two_circ_true, body)
    if k == 'par':
        return P.ParallelDo(
            [body, [build_pass(x) for x in t['else']] if t.get('else')
             else [P.NOOPPass()]], two_circ_less, bool(t.get('first')),
        )
    if k == 'foreach':
        return P.ForEachBlockPass(
            body, bool(t.get('err')), coll_filter,
            repl_filter if t.get('rf') == 'fn' else t.get('rf', 'always'),
        )
    raise core.HarnessError(f'unknown pass kind {k}')


def pass_sig(p):
    """Structural signature of a pass tree through public attributes."""
    from bqskit.compiler.workflow import Workflow
    name = type(p).__name__
    kids = []
    for attr in ('on_true', 'on_false', 'loop_body', 'workflow',
                 'workflows', 'pass_seqs', '_passes'):
        v = getattr(p, attr, None)
        if v is None:
            continue
        if isinstance(v, Workflow):
            kids.append((attr, [pass_sig(x) for x in v]))
        elif isinstance(v, (list, tuple)):
            sub = []
            for x in v:
                if isinstance(x, Workflow):
                    sub.append([pass_sig(y) for y in x])
                elif hasattr(x, 'run'):
                    sub.append(pass_sig(x))
            kids.append((attr, sub))
    scal = {}
    for k, v in sorted(vars(p).items()):
        if isinstance(v, (int, float, str, bool, type(None))):
            scal[k] = v
        elif callable(v) and hasattr(v, '__name__'):
            scal[k] = 'fn:' + v.__name__
    return (name, tuple(sorted(scal.items())), kids)


def check_wf(case) -> Outcome:
    from bqskit.compiler.workflow import Workflow
    out = Outcome()
    wf = Workflow([build_pass(t) for t in case['wf']], case.get('name', 'w'))

    def count(t):
        return 1 + sum(count(x) for x in t.get('body', [])) + \
            sum(count(x) for x in (t.get('else') or []))
    out.nontrivial = sum(count(t) for t in case['wf']) >= 3
    for t in case['wf']:
        out.label('wf:' + t['k'])
    try:
        y = pickle.loads(pickle.dumps(wf))
    except Exception as e:
        out.fail(core.exc_sig('wf_pickle_raises', e), repr(e))
        return out
    if y.name != wf.name:
        out.fail('wf_name', f'{y.name!r} vs {wf.name!r}')
    if len(y) != len(wf):
        out.fail('wf_len', '')
    elif [pass_sig(p) for p in wf] != [pass_sig(p) for p in y]:
        out.fail('wf_structure', f'{[pass_sig(p) for p in y]}')
    y2 = Workflow(wf)
    if [pass_sig(p) for p in wf] != [pass_sig(p) for p in y2] or \
            y2.name != wf.name:
        out.fail('wf_copy_ctor', '')
    return out


def _task_fn(a, b=2):
    return a + b


def check_task(case) -> Outcome:
    from bqskit.runtime.address import RuntimeAddress
    from bqskit.runtime.task import RuntimeTask
    out = Outcome()
    c = specs.build_circuit(case['circ'])
    out.nontrivial = c.num_operations >= 2
    addr = RuntimeAddress(1, 2, 3)
    t = RuntimeTask((_task_fn, (c, 5), {'k': [1, 2]}), addr, 7, (addr,), 10, 2)
    y = pickle.loads(pickle.dumps(t))
    fn, args, kw = y.fnargs
    if fn.__name__ != '_task_fn' or kw != {'k': [1, 2]} or args[1] != 5:
        out.fail('task_fnargs', '')
    d = grid_diff(c, args[0])
    if d:
        out.fail('task_circuit_arg', d)
    if y.return_address != addr or y.comp_task_id != 7 or \
            y.breadcrumbs != (addr,) or y.logging_level != 10 or \
            y.max_logging_depth != 2 or y.task_id != t.task_id:
        out.fail('task_fields', '')
    return out


CHECKS = {'circ': check_circ, 'gate': check_gate, 'model': check_model,
          'data': check_data, 'wf': check_wf, 'task': check_task}


def check(case) -> Outcome:
    out = CHECKS[case['k']](case)
    out.label('kind:' + case['k'])
    return out


replay = check


# ------------------------------------------------------------------ strategies
EDIT_EXCL = ('clear', 'inverse', 'freeze', 'copy', 'become', 'mul', 'imul',
             'add', 'iadd', 'append_qudit', 'insert_qudit', 'extend_qudits',
             'pop_qudit', 'renumber')


@st.composite
def circ_cases(draw):
    edit = draw(st.lists(cm.steps_strategy(EDIT_EXCL), min_size=1, max_size=6))
    if draw(st.booleans()):
        hist = draw(cm.histories(max_steps=25, max_n=5,
                                 exclude=('clear', 'inverse', 'freeze')))
        return {'k': 'circ', 'hist': hist, 'edit': edit}
    circ = draw(specs.circuit_specs(max_n=5, max_dim=512, max_ops=10,
                                    placeholders=True, nested_depth=2,
                                    min_ops=1))
    return {'k': 'circ', 'circ': circ, 'edit': edit}


@st.composite
def gate_cases(draw):
    radixes = tuple(draw(specs.radix_lists(1, 3, 64)))
    kind = draw(st.integers(0, 9))
    if kind == 0:
        sub = draw(specs.circuit_specs(radixes=list(radixes), max_ops=4,
                                       wrappers=False, nested_depth=1))
        g = {'g': 'CircuitGate', 'circ': sub}
    elif kind == 1:
        g = draw(st.sampled_from([
            {'g': 'Barrier', 'radixes': list(radixes)},
            {'g': 'Measure', 'n': len(radixes)},
            {'g': 'Reset', 'radix': radixes[0]},
        ]))
    else:
        g = draw(specs.gate_for(radixes))
        if g.get('a') and 'kwmode' not in g:
            g = dict(g, kwmode=draw(st.sampled_from([0, 0, 1, 2])))
    return {'k': 'gate', 'gate': g, 'p': draw(specs.param_values(4))}


@st.composite
def model_specs(draw, n=None):
    n = n or draw(st.integers(1, 6))
    import itertools as it
    pairs = list(it.combinations(range(n), 2))
    edges = None
    if pairs and draw(st.booleans()):
        edges = [list(e) for e in draw(st.lists(
            st.sampled_from(pairs), min_size=1, max_size=len(pairs),
            unique=True))]
    radix = draw(st.sampled_from([2, 2, 3]))
    gates = []
    if draw(st.booleans()):
        if radix == 2:
            gates = draw(st.lists(st.sampled_from([
                {'g': 'CXGate'}, {'g': 'CZGate'}, {'g': 'U3Gate'},
                {'g': 'RZGate'}, {'g': 'SXGate'}, {'g': 'ISwapGate'},
                {'g': 'CCXGate'},
            ]), min_size=1, max_size=4, unique_by=lambda s: s['g']))
        else:
            gates = [{'g': 'CSUMGate', 'a': [3]},
                     {'g': 'VariableUnitaryGate', 'a': [1, [3]]}]
    return {'n': n, 'edges': edges, 'gates': gates, 'radixes': [radix] * n}


@st.composite
def data_cases(draw):
    n = draw(st.integers(1, 3))
    m = draw(model_specs())
    mn = m['n']
    ints = st.integers(0, max(mn, n) + 2)
    return {'k': 'data', 'data': {
        'n': n,
        'target': draw(st.sampled_from(['default', 'unitary', 'state',
                                        'system'] if n >= 1 else ['default'])),
        'seed': draw(st.integers(0, 2**31)),
        'error': draw(st.sampled_from([0.0, 1e-9, 0.25])),
        'model': m,
        'placement': draw(st.lists(ints, min_size=n, max_size=n)),
        'pi': draw(st.lists(ints, min_size=n, max_size=n)),
        'pf': draw(st.lists(ints, min_size=n, max_size=n)),
        'pseed': draw(st.one_of(st.none(), st.integers(0, 1000))),
        'user': draw(st.dictionaries(
            st.sampled_from(['a', 'b', 'ForEachBlockPass_data', 'x']),
            st.one_of(st.integers(), st.lists(st.integers(), max_size=3),
                      st.text(max_size=3)), max_size=3)),
    }}


def pass_trees(depth=2):
    leaf = st.one_of(
        st.just({'k': 'noop'}),
        st.builds(lambda m: {'k': 'log', 'msg': m}, st.text(max_size=4)),
        st.builds(lambda v: {'k': 'update', 'key': 'kk', 'val': v},
                  st.integers()),
        st.just({'k': 'unfold'}),
        st.builds(lambda s: {'k': 'quick', 'size': s}, st.integers(2, 4)),
    )
    if depth == 0:
        return leaf
    sub = st.lists(pass_trees(depth - 1), min_size=1, max_size=2)
    ctrl = st.builds(
        lambda k, pred, body, els, first, err, rf, name: {
            'k': k, 'pred': pred, 'body': body, 'else': els, 'first': first,
            'err': err, 'rf': rf, 'name': name,
        },
        st.sampled_from(['if', 'while', 'dowhile', 'dtd', 'par', 'foreach',
                         'wf']),
        st.sampled_from(['count', 'change', 'not', 'width']),
        sub, st.one_of(st.none(), sub), st.booleans(), st.booleans(),
        st.sampled_from(['always', 'less-than', 'fn']),
        st.sampled_from(['', 'inner']),
    )
    return st.one_of(leaf, ctrl, ctrl)


wf_cases = st.builds(
    lambda body, name: {'k': 'wf', 'wf': body, 'name': name},
    st.lists(pass_trees(2), min_size=1, max_size=3),
    st.sampled_from(['', 'my workflow']),
)

task_cases = st.builds(
    lambda c: {'k': 'task', 'circ': c},
    specs.circuit_specs(max_n=3, max_ops=4, nested_depth=1),
)


def run_shard(ctx: core.Ctx) -> core.ShardResult:
    res = core.ShardResult()
    plan = [
        (circ_cases(), 60, 1500), (gate_cases(), 120, 2500),
        (st.builds(lambda m: {'k': 'model', 'model': m}, model_specs()),
         30, 300),
        (data_cases(), 40, 600), (wf_cases, 40, 600), (task_cases, 10, 100),
    ]
    for i, (strat, q, t) in enumerate(plan):
        core.run_hypothesis(ctx, res, strat, check, ctx.n(q, t), sub=i)
    return res
