"""C09 - placement, layout and routing preserve the program and respect the
coupling.

Cases (JSON):
  {"k":"sabre",
   "circ": circuit-spec (vt.gen.specs; one radix everywhere),
   "part": null | block size for QuickPartitioner applied BEFORE mapping,
   "graph": {"kind":..,"m":M,"edges":[[u,v],..]}   connected, M >= width,
   "place": "greedy"|"trivial"|"static",
   "xr": bool   insert Extract/RestoreModelConnectivityPass before placement,
   "layout": null | {"passes":1-3, <sabre params>},
   "route": {<sabre params>}}
  {"k":"pam", "circ":.., "graph":.., "place":.., "layout":{..}, "route":{..},
   "bs": block size (2|3), "seed": S}            thorough tier, real runtime

  <sabre params> = {"dd":decay_delta, "dri":decay_reset_interval,
                    "drg":decay_reset_on_gate, "ess":extended_set_size,
                    "esw":extended_set_weight}  (+ "gcw" for PAM)

Workflow under test:
  [SetModelPass(model), <Placement>, <Layout>, <Routing>, ApplyPlacement]
SABRE passes never await, so every stage is driven in-process and judged
separately; the PAM arm runs the same sequence (after the partitioning and
EmbedAllPermutationsPass steps it needs) on a real Compiler.
"""
from __future__ import annotations

import itertools as it

import numpy as np
from hypothesis import strategies as st

from vt import core
from vt.core import Outcome
from vt.gen import specs as S
from vt.oracle import embed as E
from vt.oracle import graphref as G
from vt.oracle import refsim
from vt.oracle import trace as T

ID = 'C09'
LEVEL = 'exploration'
RULE = (
    'cases: Hypothesis-generated circuits of 2-8 qubits (2-4 qutrits) with '
    '1-3-qudit gates from the shared catalogue (wrappers, constant '
    'unitaries), barriers, nested CircuitGates, single-qudit-only blocks, '
    'optionally partitioned by QuickPartitioner(2-4) first; connected '
    'coupling graphs (line, ring, star, grid, random tree, tree+extra edges, '
    'randomly relabelled) on width..10 vertices (qutrits: ..6); placement '
    'greedy/trivial/static; layout with 1-3 passes (or none); routing; all '
    'SABRE knobs drawn (decay_delta, decay_reset_interval, '
    'decay_reset_on_gate, extended_set_size in {0,1,20}, '
    'extended_set_weight). Thorough tier adds PAM layout/routing on <=4 '
    'qubits with <=3-qubit blocks through a real Compiler. Non-trivial: >= 1 '
    'swap inserted or a non-identity initial/final mapping. Distinct = sha1 '
    'of the JSON case.'
)
ASSUMPTIONS = [
    'vt/oracle/refsim.py tensor simulation and numpy are correct; gate '
    'matrices come from each gate\'s own get_unitary (C18)',
    'vt/oracle/embed.py conventions: logical qudit i enters at '
    'initial_mapping[i], leaves at final_mapping[i], idle physical qudits '
    'start in |0>, qudit 0 most significant',
    'vt/oracle/graphref.py BFS connectivity is correct',
    'QuickPartitioner / UnfoldPass are only used to prepare inputs: the '
    'reference unitary is taken from the circuit actually handed to the '
    'mapping passes',
    'SABRE passes use no randomness (verified by reading; nothing to seed); '
    'StaticPlacementPass is given an unreachable timeout so the clock never '
    'decides; PAM synthesis is seeded through the compile task seed',
    'PAM arm: tolerance is a synthesis budget, not exactness',
]
SHARDS = {'quick': 16, 'thorough': 16}
BUDGET_S = {'quick': 200, 'thorough': 2400}

TOL = 1e-7            # SABRE: exact up to rounding
PAM_EPS = 1e-8        # LEAP success threshold (HS cost) per block
MAX_SWAPS_PER_OP = 400   # runaway guard (deterministic, no clock)


class _Runaway(Exception):
    """Raised by the instrumentation when a pass applies an absurd number of
    swaps (treated as non-termination)."""


# ------------------------------------------------------------------ helpers
def _imports():
    from bqskit.ir.circuit import Circuit  # noqa: F401  (import order)
    from bqskit.qis.graph import CouplingGraph
    from bqskit.compiler.machine import MachineModel
    from bqskit.compiler.passdata import PassData
    return CouplingGraph, MachineModel, PassData


def _drive(p, circuit, data) -> None:
    """Run a pass that must not await the runtime, in-process."""
    coro = p.run(circuit, data)
    try:
        coro.send(None)
    except StopIteration:
        return
    coro.close()
    raise core.HarnessError(f'{type(p).__name__} awaited the runtime')


def _gkey(gate):
    """Hashable identity of a gate; CircuitGates by their full contents (the
    repo's CircuitGate.__eq__ only compares a zip of the two op lists)."""
    if type(gate).__name__ == 'CircuitGate':
        c = gate._circuit
        return (
            'CircuitGate', tuple(c.radixes), tuple(
                (_gkey(op.gate), tuple(op.location))
                for _, op in refsim.grid_ops(c)
            ),
        )
    return gate


def _top_ops(circuit, loc_map=None) -> list:
    """Top-level (gate key, location, params) in an order compatible with
    every qudit's timeline."""
    out = []
    for _, op in refsim.grid_ops(circuit):
        loc = tuple(op.location) if loc_map is None else tuple(
            loc_map[q] for q in op.location
        )
        out.append((_gkey(op.gate), loc, tuple(float(p) for p in op.params)))
    return out


def _is_swap(gate) -> bool:
    return type(gate).__name__ == 'SwapGate'


def _is_barrier(gate) -> bool:
    return type(gate).__name__ == 'BarrierPlaceholder'


def _needs_connectivity(op) -> bool:
    """Does this top-level operation couple several qudits physically?
    Barriers do not; a block does iff it contains a multi-qudit gate that is
    not a barrier."""
    if op.num_qudits < 2 or _is_barrier(op.gate):
        return False
    if type(op.gate).__name__ == 'CircuitGate':
        return any(
            len(k[1]) >= 2 and not _is_barrier(k[0])
            for k in T.flat_ops(op.gate._circuit)
        )
    return True


def _connectivity_violations(circuit, n_vertices, edges, loc_map=None) -> list:
    bad = []
    for c, op in refsim.grid_ops(circuit):
        if not _needs_connectivity(op):
            continue
        loc = [q if loc_map is None else loc_map[q] for q in op.location]
        if not G.connected(n_vertices, edges, loc):
            bad.append((c, getattr(op.gate, 'name', '?'), loc))
    return bad


def _sabre_kwargs(d: dict) -> dict:
    return dict(
        decay_delta=float(d['dd']), decay_reset_interval=int(d['dri']),
        decay_reset_on_gate=bool(d['drg']), extended_set_size=int(d['ess']),
        extended_set_weight=float(d['esw']),
    )


def _instrument(p, limit: int, notes: dict, tag: str) -> None:
    """Harness-side counters on the pass INSTANCE (labels and the runaway
    guard only; nothing here feeds the oracle)."""
    orig_swap = p._apply_swap
    orig_up = p._uphill_swaps
    orig_bw = p.backward_pass
    count = [0]

    def apply_swap(swap, pi, decay):
        count[0] += 1
        if count[0] > limit:
            raise _Runaway(f'{tag}: more than {limit} swaps applied')
        return orig_swap(swap, pi, decay)

    def uphill(*a, **k):
        notes['uphill'] = True
        return orig_up(*a, **k)

    def backward(circuit, pi, cg):
        before = list(pi)
        orig_bw(circuit, pi, cg)
        if list(pi) != before:
            notes['backward_changed'] = True

    p._apply_swap = apply_swap
    p._uphill_swaps = uphill
    p.backward_pass = backward


def _replay_routed(routed, n: int, radix: int):
    """Walk the routed circuit (on n positions), treating every SwapGate as a
    routing swap.  Returns (pulled-back top-level ops on LOGICAL qudits,
    final logical->position map, number of swaps)."""
    at = list(range(n))        # position -> logical qudit sitting there
    ops = []
    swaps = 0
    for _, op in refsim.grid_ops(routed):
        if _is_swap(op.gate):
            a, b = op.location
            at[a], at[b] = at[b], at[a]
            swaps += 1
            continue
        ops.append((
            _gkey(op.gate), tuple(at[p] for p in op.location),
            tuple(float(x) for x in op.params),
        ))
    where = [0] * n
    for pos, lq in enumerate(at):
        where[lq] = pos
    return ops, where, swaps


def _graph_objects(case):
    CouplingGraph, MachineModel, PassData = _imports()
    g = case['graph']
    m = int(g['m'])
    edges = G.norm_edges((int(u), int(v)) for u, v in g['edges'])
    return m, edges


def _placement_pass(kind: str):
    from bqskit.passes.mapping.placement.greedy import GreedyPlacementPass
    from bqskit.passes.mapping.placement.trivial import TrivialPlacementPass
    from bqskit.passes.mapping.placement.static import StaticPlacementPass
    if kind == 'greedy':
        return GreedyPlacementPass()
    if kind == 'trivial':
        return TrivialPlacementPass()
    return StaticPlacementPass(timeout_sec=1e9)


def _logical_edges(circuit) -> set:
    e = set()
    for _, op in refsim.grid_ops(circuit):
        for a, b in it.combinations(sorted(op.location), 2):
            e.add((a, b))
    return e


def _common_labels(out, case, n, m, cin) -> None:
    out.label('kind:' + case['k'], 'graph:' + case['graph']['kind'],
              'place:' + case['place'])
    out.label('machine>circuit' if m > n else 'machine=circuit')
    names = set()
    arity = 0
    for _, op in refsim.grid_ops(cin):
        names.add(type(op.gate).__name__)
        if not _is_barrier(op.gate):
            arity = max(arity, op.num_qudits)
        if type(op.gate).__name__ == 'CircuitGate' and op.num_qudits >= 2 \
                and not _needs_connectivity(op):
            out.label('sq-only-block')
    if 'BarrierPlaceholder' in names:
        out.label('barrier')
    if 'CircuitGate' in names:
        out.label('blocks')
    if arity >= 3:
        out.label('op-arity>=3')
    if cin.radixes and cin.radixes[0] != 2:
        out.label('radix:%d' % cin.radixes[0])


# -------------------------------------------------------------- SABRE check
def check_sabre(case) -> Outcome:
    CouplingGraph, MachineModel, PassData = _imports()
    from bqskit.passes.mapping.apply import ApplyPlacement
    from bqskit.passes.mapping.layout.sabre import GeneralizedSabreLayoutPass
    from bqskit.passes.mapping.routing.sabre import \
        GeneralizedSabreRoutingPass
    from bqskit.passes.mapping.setmodel import ExtractModelConnectivityPass
    from bqskit.passes.mapping.setmodel import RestoreModelConnectivityPass
    from bqskit.passes.mapping.setmodel import SetModelPass

    out = Outcome()
    spec = case['circ']
    radixes = list(spec['radixes'])
    n = len(radixes)
    radix = radixes[0]
    m, edges = _graph_objects(case)
    if len(set(radixes)) != 1 or m < n or not G.connected(m, edges):
        raise core.HarnessError('generator broke a documented precondition')

    circuit = S.build_circuit(spec)
    if case.get('part'):
        from bqskit.passes.partitioning.quick import QuickPartitioner
        try:
            _drive(QuickPartitioner(int(case['part'])), circuit,
                   PassData(circuit))
        except RuntimeError as e:
            # input preparation failed inside the partitioner (not a mapping
            # pass): nothing to judge here
            out.label('prep:QuickPartitioner-raised(excluded)')
            out.excluded = 1
            del e
            return out
        out.label('partitioned')
    cin = circuit.copy()
    U_in = refsim.circuit_unitary(cin)
    in_ops = _top_ops(cin)
    input_has_swap = any(_is_swap(op.gate) for _, op in refsim.grid_ops(cin))
    n_in_swaps = sum(_is_swap(op.gate) for _, op in refsim.grid_ops(cin))
    _common_labels(out, case, n, m, cin)
    if input_has_swap:
        out.label('input-has-swap')

    model = MachineModel(m, CouplingGraph(sorted(edges), m), None, [radix] * m)
    data = PassData(circuit)
    ident = list(range(n))

    # ---- stage 1: model
    try:
        _drive(SetModelPass(model), circuit, data)
        if case.get('xr'):
            _drive(ExtractModelConnectivityPass(), circuit, data)
            full = G.norm_edges(data.model.coupling_graph)
            if full != set(it.combinations(range(m), 2)):
                out.fail('extract_not_all_to_all', f'{sorted(full)}')
            _drive(RestoreModelConnectivityPass(), circuit, data)
            out.label('extract/restore')
    except Exception as e:
        out.fail(core.exc_sig('setmodel', e), repr(e))
        return out
    if G.norm_edges(data.model.coupling_graph) != edges or \
            data.model.num_qudits != m:
        out.fail('model_graph_changed',
                 f'{sorted(G.norm_edges(data.model.coupling_graph))}')
        return out
    if list(data.placement) != ident:
        out.fail('setmodel_placement', f'{data.placement}')

    # ---- stage 2: placement
    place = case['place']
    triv_ok = G.connected(m, edges, range(n))
    try:
        _drive(_placement_pass(place), circuit, data)
    except RuntimeError as e:
        if place == 'trivial' and not triv_ok:
            out.label('expected:trivial-placement-disconnected')
            return out
        out.fail(core.exc_sig('placement_' + place, e), repr(e))
        return out
    except Exception as e:
        out.fail(core.exc_sig('placement_' + place, e), repr(e))
        return out
    if place == 'trivial' and not triv_ok:
        out.fail('trivial_no_error_on_disconnected',
                 f'placement {data.placement} edges {sorted(edges)}')
        return out
    p0 = list(data.placement)
    bad = E.check_mapping(p0, n, m)
    if bad is not None:
        out.fail('placement_invalid|' + place, bad)
        return out
    if not G.connected(m, edges, p0):
        ledges = _logical_edges(cin)
        if place == 'static' and not G.connected(n, ledges):
            # a monomorphic image of a disconnected interaction graph (or
            # the untouched default when none exists) need not be connected;
            # layout/routing document that they refuse such a placement
            out.label('static:disconnected-placement(stop)')
            return out
        if place == 'static' and p0 == ident:
            out.label('static:none-found,default-disconnected(stop)')
            return out
        out.fail('placement_disconnected|' + place,
                 f'placement {p0} edges {sorted(edges)}')
        return out
    if place == 'static':
        ledges = _logical_edges(cin)
        mono = all(
            (min(p0[a], p0[b]), max(p0[a], p0[b])) in edges for a, b in ledges
        )
        out.label('static:monomorphic' if mono else 'static:default-kept')
    if _top_ops(circuit) != in_ops:
        out.fail('placement_modified_circuit', place)
        return out

    notes: dict = {}
    limit = MAX_SWAPS_PER_OP * (len(in_ops) + 5)

    # ---- stage 3: layout
    if case.get('layout'):
        lay = case['layout']
        lp = GeneralizedSabreLayoutPass(int(lay['passes']), **_sabre_kwargs(lay))
        _instrument(lp, limit, notes, 'layout')
        try:
            _drive(lp, circuit, data)
        except _Runaway as e:
            out.fail('layout_runaway', str(e))
            return out
        except Exception as e:
            out.fail(core.exc_sig('layout', e), repr(e))
            return out
        p1 = list(data.placement)
        if sorted(p1) != sorted(p0) or E.check_mapping(p1, n, m) is not None:
            out.fail('layout_changed_placement_set', f'{p0} -> {p1}')
            return out
        if _top_ops(circuit) != in_ops:
            out.fail('layout_modified_circuit', '')
            return out
        if list(data.initial_mapping) != ident or \
                list(data.final_mapping) != ident:
            out.fail('layout_wrote_mappings',
                     f'{data.initial_mapping} {data.final_mapping}')
        if p1 != p0:
            out.label('layout-changed-placement')
        if notes.pop('backward_changed', False):
            out.label('backward-pass-changed-layout')
        if notes.pop('uphill', False):
            out.label('uphill-escape(layout)')
        out.label('layout-passes:%d' % int(lay['passes']))
    else:
        p1 = p0
        out.label('no-layout')

    # ---- stage 4: routing (circuit lives on n positions; position i is
    # physical qudit p1[i])
    rp = GeneralizedSabreRoutingPass(**_sabre_kwargs(case['route']))
    _instrument(rp, limit, notes, 'routing')
    try:
        _drive(rp, circuit, data)
    except _Runaway as e:
        out.fail('routing_runaway', str(e))
        return out
    except Exception as e:
        out.fail(core.exc_sig('routing', e), repr(e))
        return out
    if notes.pop('uphill', False):
        out.label('uphill-escape(routing)')
    routed = circuit.copy()
    fm = list(data.final_mapping)
    if list(data.placement) != p1:
        out.fail('routing_changed_placement', f'{p1} -> {data.placement}')
        return out
    if list(data.initial_mapping) != ident:
        out.fail('routing_wrote_initial_mapping', f'{data.initial_mapping}')
        return out
    bad = E.check_mapping(fm, n, n)
    if bad is not None:
        out.fail('routed_final_mapping_invalid', bad)
        return out
    if routed.num_qudits != n or list(routed.radixes) != radixes:
        out.fail('routed_shape', f'{routed.num_qudits} {routed.radixes}')
        return out
    pos_edges = {
        (a, b) for a, b in it.combinations(range(n), 2)
        if (min(p1[a], p1[b]), max(p1[a], p1[b])) in edges
    }
    cv = _connectivity_violations(routed, n, pos_edges)
    if cv:
        out.fail('routed_op_not_connected',
                 f'{cv[:3]} placement {p1} edges {sorted(edges)}')
    n_out_swaps = sum(
        _is_swap(op.gate) for _, op in refsim.grid_ops(routed)
    )
    inserted = n_out_swaps - n_in_swaps
    if inserted < 0:
        out.fail('routing_lost_swaps', f'{n_in_swaps} -> {n_out_swaps}')
    if not input_has_swap:
        # only swaps were added: erasing the swaps and pulling every other op
        # back through them must give the input program exactly, and the
        # permutation the swaps compose to must be the recorded mapping
        back, where, _ = _replay_routed(routed, n, radix)
        diff = T.same_program(in_ops, back, n)
        if diff is not None:
            out.fail('routed_not_input_plus_swaps', diff)
        elif where != fm:
            out.fail('routed_final_mapping_not_swap_product',
                     f'swaps compose to {where}, recorded {fm}')
    dev, leak = E.deviation(U_in, routed, ident, fm, radixes)
    if not (dev <= TOL and leak <= TOL):
        out.fail('embed_routed', f'dev={dev:.3e} leak={leak:.3e} fm={fm}')

    # ---- stage 5: apply placement
    try:
        _drive(ApplyPlacement(), circuit, data)
    except Exception as e:
        out.fail(core.exc_sig('apply', e), repr(e))
        return out
    pi, pf = list(data.initial_mapping), list(data.final_mapping)
    for name, mp in (('initial', pi), ('final', pf)):
        bad = E.check_mapping(mp, n, m)
        if bad is not None:
            out.fail(f'{name}_mapping_invalid', bad)
            return out
    if circuit.num_qudits != m or list(circuit.radixes) != [radix] * m:
        out.fail('applied_shape', f'{circuit.num_qudits} {circuit.radixes}')
        return out
    want_pi = [p1[i] for i in range(n)]
    want_pf = [p1[x] for x in fm]
    if pi != want_pi or pf != want_pf:
        out.fail('apply_mapping_bookkeeping',
                 f'placement {p1} routed fm {fm}: got pi={pi} pf={pf} '
                 f'want pi={want_pi} pf={want_pf}')
    if _top_ops(circuit) != _top_ops(routed, {i: p1[i] for i in range(n)}):
        diff = T.same_program(
            _top_ops(routed, {i: p1[i] for i in range(n)}),
            _top_ops(circuit), m,
        )
        if diff is not None:
            out.fail('apply_not_relocation', diff)
    cv = _connectivity_violations(circuit, m, edges)
    if cv:
        out.fail('final_op_not_connected', f'{cv[:3]} edges {sorted(edges)}')
    dev, leak = E.deviation(U_in, circuit, pi, pf, radixes)
    if not (dev <= TOL and leak <= TOL):
        out.fail('embed_final',
                 f'dev={dev:.3e} leak={leak:.3e} pi={pi} pf={pf} '
                 f'placement={p1}')

    out.nontrivial = inserted > 0 or pi != ident or pf != ident
    out.label('swaps:0' if inserted <= 0 else
              'swaps:1-3' if inserted <= 3 else
              'swaps:4-15' if inserted <= 15 else 'swaps:16+')
    if pi != ident:
        out.label('initial-mapping!=id')
    if pf != pi:
        out.label('final!=initial')
    return out


# ---------------------------------------------------------------- PAM check
_COMPILER = None     # owned by run_shard (thorough tier); a replay makes its own


class _PortCompiler:
    """A real bqskit Compiler with an attached 2-worker runtime whose server
    listens on a private port (Compiler(num_workers=k) always starts its
    server on the one default port, so two shards could not own one each)."""

    def __init__(self, num_workers: int = 2) -> None:
        import os
        import socket
        import sys
        from subprocess import Popen
        from bqskit.compiler.compiler import Compiler

        def is_free(p: int) -> bool:
            s = socket.socket()
            try:
                s.bind(('localhost', p))
                return True
            except OSError:
                return False
            finally:
                s.close()

        # a pid-derived pair, so that concurrently starting shards do not
        # race for the same "free" port
        port = 20000 + 2 * (os.getpid() % 14000)
        while not (is_free(port) and is_free(port + 1)):
            port += 2
        wport = port + 1

        class C(Compiler):
            def _start_server(self, num_workers, runtime_log_level,
                              worker_port, num_blas_threads):
                launch = (
                    'import warnings; warnings.filterwarnings("ignore"); '
                    'from bqskit.runtime.attached import '
                    'start_attached_server; start_attached_server('
                    f'{num_workers}, port={port}, worker_port={worker_port}, '
                    f'log_level={runtime_log_level}, '
                    f'num_blas_threads={num_blas_threads})'
                )
                self.p = Popen([sys.executable, '-c', launch])

        self._make = lambda: C(None, port, num_workers, worker_port=wport)
        self.compiler = self._make()

    def compile(self, circuit, workflow, seed: int):
        """(circuit, data); raises RuntimeError carrying the remote traceback
        when a pass fails.  The bqskit client closes itself after any error,
        so a fresh runtime is started for the next call."""
        if self.compiler.conn is None:
            self.compiler.close()
            self.compiler = self._make()
        try:
            return self.compiler.compile(
                circuit, workflow, request_data=True, data={'seed': int(seed)},
            )
        except RuntimeError as e:
            if e.__cause__ is not None and \
                    isinstance(e.__cause__, RuntimeError):
                raise e.__cause__ from None
            raise

    def close(self) -> None:
        self.compiler.close()


def _pam_workflow(case, model):
    from bqskit.compiler.workflow import Workflow
    from bqskit.passes.control.foreach import ForEachBlockPass
    from bqskit.passes.mapping.apply import ApplyPlacement
    from bqskit.passes.mapping.embed import EmbedAllPermutationsPass
    from bqskit.passes.mapping.layout.pam import PAMLayoutPass
    from bqskit.passes.mapping.routing.pam import PAMRoutingPass
    from bqskit.passes.mapping.setmodel import SetModelPass
    from bqskit.passes.mapping.topology import SubtopologySelectionPass
    from bqskit.passes.synthesis.leap import LEAPSynthesisPass
    lay, rt = case['layout'], case['route']
    leap = LEAPSynthesisPass(success_threshold=PAM_EPS, min_prefix_size=9)
    return Workflow([
        SetModelPass(model),
        _placement_pass(case['place']),
        SubtopologySelectionPass(max(2, int(case['bs']))),
        ForEachBlockPass(EmbedAllPermutationsPass(
            inner_synthesis=leap, input_perm=False, output_perm=True,
            vary_topology=True,
        )),
        PAMLayoutPass(int(lay['passes']), float(lay['gcw']),
                      **_sabre_kwargs(lay)),
        PAMRoutingPass(float(rt['gcw']), **_sabre_kwargs(rt)),
        ApplyPlacement(),
    ])


def _remote_sig(clause: str, msg: str) -> str:
    """Signature of an error raised inside the runtime (the client only gets
    the formatted traceback): exception type + innermost bqskit frame."""
    import re
    frames = re.findall(r'File "([^"]*/bqskit/[^"]*)", line \d+, in (\S+)',
                        msg)
    frame = 'outside'
    if frames:
        frame = frames[-1][0].rsplit('/', 1)[-1] + ':' + frames[-1][1]
    etype = 'Error'
    for line in reversed(msg.strip().splitlines()):
        mm = re.match(r'^([A-Za-z_][\w\.]*(Error|Exception))\b', line.strip())
        if mm:
            etype = mm.group(1).rsplit('.', 1)[-1]
            break
    return f'{clause}|{etype}|{frame}'


def _phase_fro(A: np.ndarray, B: np.ndarray) -> float:
    """min over phi of ||A - e^{i phi} B||_F (bounds the operator norm)."""
    n = A.shape[0]
    return float(np.sqrt(max(0.0, 2.0 * n - 2.0 * abs(np.vdot(B, A)))))


def _block_synthesis_error(U: np.ndarray, k: int, perm_data) -> float:
    """How far the worst pre-synthesised candidate of a block is from being
    SOME qudit-permuted version (input and output side) of the block's own
    unitary U.  Independent of how the candidates are keyed."""
    Ut = U.reshape([2] * (2 * k))
    variants = []
    for p in it.permutations(range(k)):
        for q in it.permutations(range(k)):
            variants.append(
                np.transpose(Ut, list(p) + [k + x for x in q])
                .reshape(2 ** k, 2 ** k),
            )
    worst = 0.0
    for graph_data in perm_data.values():
        for cand in graph_data.values():
            if cand.num_qudits != k:
                return float('inf')
            V = refsim.circuit_unitary(cand)
            worst = max(worst, min(_phase_fro(V, W) for W in variants))
    return worst


def _block_key(circ, params) -> tuple:
    return (
        tuple(
            (_gkey(o.gate), tuple(o.location))
            for _, o in refsim.grid_ops(circ)
        ),
        tuple(float(x) for x in params),
    )


def _pam_history(cin, res, pi, pf, cands_of, cap: int = 200000):
    """None if a consistent history exists, 'capped' if the search was cut
    off, else (kind of the deepest obstacle, description)."""
    n = cin.num_qudits
    in_ops = []
    for c, op in refsim.grid_ops(cin):
        in_ops.append((c, op))
    proj = [[] for _ in range(n)]
    for j, (_, op) in enumerate(in_ops):
        for q in op.location:
            proj[q].append(j)
    out_ops = [op for _, op in refsim.grid_ops(res)]
    best = [-1, ('final', 'no operation could be explained')]
    nodes = [0]

    class Capped(Exception):
        pass

    def note(i, kind, msg):
        if i > best[0]:
            best[0] = i
            best[1] = (kind, f'output op {i}: {msg}')

    def go(i, cur, ptr) -> bool:
        nodes[0] += 1
        if nodes[0] > cap:
            raise Capped()
        while i < len(out_ops) and _is_swap(out_ops[i].gate):
            a, b = out_ops[i].location
            cur = [b if x == a else a if x == b else x for x in cur]
            i += 1
        if i == len(out_ops):
            if any(ptr[q] != len(proj[q]) for q in range(n)):
                note(i, 'final', 'input operations missing from the output')
                return False
            if cur != list(pf):
                note(i, 'final', f'logical qudits end at {cur}, recorded '
                     f'final_mapping {list(pf)}')
                return False
            return True
        op = out_ops[i]
        P = set(op.location)
        L = [q for q in range(n) if cur[q] in P]
        kind = 'barrier' if _is_barrier(op.gate) else 'block'
        pend = {proj[q][ptr[q]] if ptr[q] < len(proj[q]) else None for q in L}
        if len(L) != len(P) or len(pend) != 1 or None in pend:
            note(i, kind, f'{kind} at physical {sorted(P)} covers logical '
                 f'{L} (now at {[cur[q] for q in L]}) whose next input '
                 f'operations are {sorted(map(str, pend))}')
            return False
        j = pend.pop()
        c_in, iop = in_ops[j]
        if set(iop.location) != set(L) or \
                _is_barrier(iop.gate) != (kind == 'barrier'):
            note(i, kind, f'{kind} at physical {sorted(P)} holds logical {L} '
                 f'but the next input operation there is '
                 f'{type(iop.gate).__name__}@{tuple(iop.location)}')
            return False
        nptr = list(ptr)
        for q in L:
            nptr[q] += 1
        if kind == 'barrier':
            return go(i + 1, cur, nptr)
        key = _block_key(op.gate._circuit, op.params)
        if key not in cands_of.get((c_in, min(iop.location)), ()):
            note(i, kind, f'block at {sorted(P)} is not a pre-synthesised '
                 f'version of input block {tuple(iop.location)}')
            return False
        here = [cur[q] for q in L]
        for perm in it.permutations(here):
            ncur = list(cur)
            for q, ph in zip(L, perm):
                ncur[q] = ph
            if go(i + 1, ncur, nptr):
                return True
        return False

    try:
        ok = go(0, list(pi), [0] * n)
    except Capped:
        return 'capped'
    return None if ok else best[1]


def check_pam(case) -> Outcome:
    CouplingGraph, MachineModel, PassData = _imports()
    from bqskit.passes.control.foreach import ForEachBlockPass
    from bqskit.passes.partitioning.quick import QuickPartitioner

    out = Outcome()
    spec = case['circ']
    radixes = list(spec['radixes'])
    n = len(radixes)
    m, edges = _graph_objects(case)
    bs = int(case['bs'])
    if set(radixes) != {2} or m < n or not G.connected(m, edges) or \
            (case['place'] == 'trivial' and not G.connected(m, edges, range(n))):
        raise core.HarnessError('generator broke a documented precondition')

    circuit = S.build_circuit(spec)
    # partition in-process (QuickPartitioner never awaits) so that the blocks
    # handed to the PAM passes are known here
    _drive(QuickPartitioner(bs), circuit, PassData(circuit))
    cin = circuit.copy()
    U_in = refsim.circuit_unitary(cin)
    _common_labels(out, case, n, m, cin)
    out.label('pam-bs:%d' % bs)
    in_blocks = [(c, op) for c, op in refsim.grid_ops(cin)
                 if not _is_barrier(op.gate)]
    if any(type(op.gate).__name__ != 'CircuitGate' for _, op in in_blocks):
        raise core.HarnessError('partitioner left a bare gate')
    if any(op.num_qudits < 2 for _, op in in_blocks):
        # EmbedAllPermutationsPass hands 1-qubit blocks to LEAP, which can
        # raise "Cannot expand a single-qudit circuit" - a synthesis matter
        # outside this property; the generator avoids such blocks
        out.label('pam:1q-block(skipped)')
        return out
    ident = list(range(n))

    model = MachineModel(m, CouplingGraph(sorted(edges), m))
    own = None
    comp = _COMPILER
    try:
        if comp is None:
            own = comp = _PortCompiler(2)
        try:
            res, data = comp.compile(
                circuit, _pam_workflow(case, model), case['seed'],
            )
        except RuntimeError as e:
            if 'Traceback' not in str(e):
                # the runtime itself went away (not a pass raising): nothing
                # about mapping can be concluded from this case
                out.label('pam:runtime-lost(inconclusive)')
                return out
            out.fail(_remote_sig('pam_workflow', str(e)), str(e)[-1500:])
            return out
    finally:
        if own is not None:
            own.close()

    pi, pf = list(data.initial_mapping), list(data.final_mapping)
    for name, mp in (('initial', pi), ('final', pf)):
        bad = E.check_mapping(mp, n, m)
        if bad is not None:
            out.fail(f'pam_{name}_mapping_invalid', bad)
            return out
    if res.num_qudits != m or list(res.radixes) != [2] * m:
        out.fail('pam_applied_shape', f'{res.num_qudits} {res.radixes}')
        return out

    # what was pre-synthesised for each block, and how well
    block_datas = list(data[ForEachBlockPass.key][-1])
    if len(block_datas) != len(in_blocks):
        out.fail('pam_block_data_count',
                 f'{len(block_datas)} for {len(in_blocks)} blocks')
        return out
    cand_keys = set()
    cands_of = {}          # (cycle, lowest qudit) of an input block -> keys
    budget = 0.0
    for bd in block_datas:
        pt = bd['point']
        op = cin[pt.cycle, pt.qudit]
        Ub = refsim.op_matrix(op)
        pd = bd['permutation_data']
        budget += _block_synthesis_error(Ub, op.num_qudits, pd)
        mine = cands_of.setdefault((pt.cycle, min(op.location)), set())
        for graph_data in pd.values():
            for cand in graph_data.values():
                mine.add(_block_key(cand, cand.params))
        cand_keys |= mine
    if not budget <= 1e-2:
        out.label('pam:synthesis-missed-threshold')
        return out
    tol = TOL + 1.01 * budget

    # only swaps and pre-synthesised versions of the input's blocks
    n_swaps = 0
    n_blocks = 0
    for c, op in refsim.grid_ops(res):
        if _is_swap(op.gate):
            n_swaps += 1
            continue
        if _is_barrier(op.gate):
            continue
        if type(op.gate).__name__ != 'CircuitGate':
            out.fail('pam_foreign_op', f'{op.gate} at {op.location}')
            continue
        n_blocks += 1
        if _block_key(op.gate._circuit, op.params) not in cand_keys:
            out.fail('pam_block_not_a_candidate', f'{op.gate} at {op.location}')
    if n_blocks != len(in_blocks):
        out.fail('pam_block_count', f'{n_blocks} out for {len(in_blocks)} in')
    if not out.violations:
        # the output must be explainable as: the input's blocks and barriers
        # in a dependency-respecting order, each sitting on the physical
        # qudits that hold its logical qudits at that moment, with swaps and
        # per-block qudit permutations moving the logical qudits in between,
        # starting from initial_mapping and ending at final_mapping
        why = _pam_history(cin, res, pi, pf, cands_of)
        if why == 'capped':
            out.label('pam:history-search-capped')
        elif why is not None:
            out.fail('pam_history|' + why[0], why[1])

    cv = _connectivity_violations(res, m, edges)
    if cv:
        out.fail('pam_final_op_not_connected',
                 f'{cv[:3]} edges {sorted(edges)}')
    inner = []
    for g, loc, _ in T.flat_ops(res):
        if len(loc) >= 2 and not _is_barrier(g) and \
                not G.connected(m, edges, loc):
            inner.append((getattr(g, 'name', '?'), loc))
    if inner:
        out.label('pam:inner-gate-off-coupling')
    dev, leak = E.deviation(U_in, res, pi, pf, radixes)
    if not (dev <= tol and leak <= tol):
        out.fail('pam_embed_final',
                 f'dev={dev:.3e} leak={leak:.3e} tol={tol:.2e} pi={pi} '
                 f'pf={pf}')
    out.nontrivial = n_swaps > 0 or pi != ident or pf != ident
    out.label('swaps:0' if n_swaps == 0 else 'swaps:1-3' if n_swaps <= 3
              else 'swaps:4-15' if n_swaps <= 15 else 'swaps:16+')
    if pi != ident:
        out.label('initial-mapping!=id')
    if pf != pi:
        out.label('final!=initial')
    return out


# ------------------------------------------------------------------ dispatch
def check(case) -> Outcome:
    if case['k'] == 'sabre':
        return check_sabre(case)
    return check_pam(case)


replay = check


# --------------------------------------------------------------- generators
GRIDS = [(2, 2), (2, 3), (2, 4), (3, 3), (2, 5)]


@st.composite
def graph_specs(draw, n: int, max_m: int,
                kinds=('line', 'ring', 'star', 'grid', 'tree', 'tree+')):
    kind = draw(st.sampled_from(list(kinds)))
    if kind == 'grid':
        dims = [d for d in GRIDS if n <= d[0] * d[1] <= max(max_m, 4)]
        if not dims:
            kind = 'line'
    if kind == 'grid':
        a, b = draw(st.sampled_from(dims))
        m = a * b
        edges = []
        for r in range(a):
            for c in range(b):
                v = r * b + c
                if c + 1 < b:
                    edges.append((v, v + 1))
                if r + 1 < a:
                    edges.append((v, v + b))
    else:
        m = n if draw(st.booleans()) or n >= max_m else \
            draw(st.integers(n + 1, max_m))
        if kind == 'line':
            edges = [(i, i + 1) for i in range(m - 1)]
        elif kind == 'ring':
            edges = [(i, (i + 1) % m) for i in range(m)] if m >= 3 \
                else [(0, 1)]
        elif kind == 'star':
            edges = [(0, i) for i in range(1, m)]
        else:
            edges = [(draw(st.integers(0, i - 1)), i) for i in range(1, m)]
            if kind == 'tree+':
                pairs = list(it.combinations(range(m), 2))
                edges += draw(st.lists(
                    st.sampled_from(pairs), min_size=1, max_size=3,
                ))
    if draw(st.booleans()):
        perm = list(draw(st.permutations(range(m))))
        edges = [(perm[u], perm[v]) for u, v in edges]
    edges = sorted(G.norm_edges(edges))
    return {'kind': kind, 'm': m, 'edges': [list(e) for e in edges]}


def sabre_params():
    return st.fixed_dictionaries({
        'dd': st.sampled_from([0.0, 0.001, 0.001, 0.05, 1.0]),
        'dri': st.sampled_from([1, 2, 5, 5, 9]),
        'drg': st.booleans(),
        'ess': st.sampled_from([0, 1, 20, 20, 20]),
        # weights > 1 let the look-ahead dominate, which is what drives the
        # search into the 5n-fruitless-swaps escape path
        'esw': st.sampled_from([0.0, 0.5, 0.5, 1.0, 3.0, 3.0, 10.0]),
    })


@st.composite
def mapping_circuits(draw, n: int, radix: int, max_ops: int,
                     max_k: int = 3, rich: bool = True, blocks: bool = True):
    radixes = [radix] * n
    allow_swap = draw(st.integers(0, 7)) == 0
    n_ops = draw(st.integers(2, max_ops))
    ops = []
    for _ in range(n_ops):
        kind = draw(st.sampled_from(
            ['g'] * 12 + (['barrier', 'sqblock'] if blocks else [])
            + (['swap', 'swap'] if allow_swap else []),
        ))
        if kind == 'swap':
            ops.append({
                'gate': {'g': 'SwapGate', 'a': [radix]},
                'loc': list(draw(st.permutations(range(n)))[:2]),
                'params': [],
            })
            continue
        if kind == 'barrier':
            loc = draw(S.locations(n, max_k=n))
            ops.append({'gate': {'g': 'Barrier', 'radixes': [radix] * len(loc)},
                        'loc': loc, 'params': []})
            continue
        if kind == 'sqblock' and n >= 2:
            loc = draw(S.locations(n, max_k=min(3, n)))
            if len(loc) >= 2:
                sub = draw(S.circuit_specs(
                    radixes=[radix] * len(loc), max_ops=4, max_k=1,
                    wrappers=False, nested_depth=0, min_ops=1,
                ))
                ops.append({
                    'gate': {'g': 'CircuitGate', 'circ': sub}, 'loc': loc,
                    'params': [p for o in sub['ops'] for p in o['params']],
                })
                continue
        op = draw(S.op_specs(
            radixes, max_k=min(max_k, n), rich=rich, wrappers=rich,
            placeholders=False, nested_depth=1 if blocks else 0,
        ))
        if op['gate']['g'] == 'SwapGate' and not allow_swap:
            op = dict(op, gate={'g': 'CXGate'} if radix == 2
                      else {'g': 'CSUMGate', 'a': [radix]})
        ops.append(op)
    return {'radixes': radixes, 'ops': ops}


@st.composite
def sabre_cases(draw, big: bool = False):
    place = draw(st.sampled_from(
        ['greedy', 'greedy', 'greedy', 'trivial', 'trivial', 'static'],
    ))
    radix = draw(st.sampled_from([2, 2, 2, 2, 2, 3]))
    if radix == 2:
        nmax, mmax = (6, 8) if place == 'static' else (8, 10)
    else:
        nmax, mmax = 4, 6
    n = draw(st.integers(2, nmax))
    graph = draw(graph_specs(n, mmax))
    circ = draw(mapping_circuits(n, radix, 30 if big else 16))
    arity = max(
        [len(o['loc']) for o in circ['ops'] if o['gate']['g'] != 'Barrier']
        or [1],
    )
    part = None
    if draw(st.integers(0, 3)) == 0:
        part = draw(st.sampled_from([k for k in (2, 3, 4) if k >= arity]))
    layout = None
    if draw(st.integers(0, 9)) != 0:
        layout = dict(draw(sabre_params()), passes=draw(st.integers(1, 3)))
    return {
        'k': 'sabre', 'circ': circ, 'part': part, 'graph': graph,
        'place': place, 'xr': draw(st.integers(0, 5)) == 0,
        'layout': layout, 'route': draw(sabre_params()),
    }


PAM_GATES_1Q = ['HGate', 'TGate', 'SXGate', 'U3Gate', 'RZGate', 'RYGate']
PAM_GATES_2Q = ['CXGate', 'CZGate', 'CXGate', 'CZGate', 'ISwapGate',
                'CRYGate', 'RZZGate']


@st.composite
def pam_cases(draw):
    """Small qubit circuits from plain gates (so that LEAP reaches its
    threshold in seconds), <= 4 qubits, blocks of <= 3 qubits."""
    n = draw(st.sampled_from([2, 3, 3, 4, 4, 4]))
    # sparse machines, so that permutations or swaps are actually needed
    graph = draw(graph_specs(
        n, n + 1, kinds=('line', 'line', 'star', 'tree', 'ring'),
    ))
    m = graph['m']
    edges = G.norm_edges(tuple(e) for e in graph['edges'])
    bs = 2 if n == 2 else draw(st.sampled_from([2, 2, 2, 2, 3]))
    ops = []
    for _ in range(draw(st.integers(3, 12 if bs == 2 else 6))):
        if n >= 3 and draw(st.integers(0, 7)) == 0:
            k = draw(st.integers(1, n))
            loc = list(draw(st.permutations(range(n)))[:k])
            ops.append({'gate': {'g': 'Barrier', 'radixes': [2] * k},
                        'loc': loc, 'params': []})
            continue
        k = draw(st.sampled_from([1, 2, 2]))
        loc = list(draw(st.permutations(range(n)))[:k])
        g = {'g': draw(st.sampled_from(PAM_GATES_1Q if k == 1
                                       else PAM_GATES_2Q))}
        ops.append({'gate': g, 'loc': loc,
                    'params': draw(S.param_values(S.gate_num_params(g)))})
    coupled = {q for o in ops if len(o['loc']) == 2
               and o['gate']['g'] != 'Barrier' for q in o['loc']}
    ops = [o for o in ops if o['gate']['g'] == 'Barrier'
           or all(q in coupled for q in o['loc'])]
    if all(o['gate']['g'] == 'Barrier' for o in ops):
        ops = []
    if not ops:
        ops = [{'gate': {'g': 'CXGate'}, 'loc': [0, 1], 'params': []}]
    place = draw(st.sampled_from(['greedy', 'greedy', 'trivial']))
    if place == 'trivial' and not G.connected(m, edges, range(n)):
        place = 'greedy'
    gcw = st.sampled_from([0.0, 0.1, 0.3, 1.0])
    return {
        'k': 'pam', 'circ': {'radixes': [2] * n, 'ops': ops}, 'graph': graph,
        'place': place, 'bs': bs, 'seed': draw(st.integers(0, 2**31 - 1)),
        'layout': dict(draw(sabre_params()), passes=draw(st.integers(1, 3)),
                       gcw=draw(gcw)),
        'route': dict(draw(sabre_params()), gcw=draw(gcw)),
    }


def run_shard(ctx: core.Ctx) -> core.ShardResult:
    global _COMPILER
    res = core.ShardResult()
    core.run_hypothesis(ctx, res, sabre_cases(), check, ctx.n(500, 4000), sub=0)
    core.run_hypothesis(
        ctx, res, sabre_cases(big=True), check, ctx.n(70, 1000), sub=1,
    )
    if ctx.tier == 'thorough':
        # PAM needs synthesis and therefore the real runtime: one private
        # 2-worker Compiler per shard, closed before the shard returns
        pc = _PortCompiler(2)
        _COMPILER = pc
        try:
            core.run_hypothesis(
                ctx, res, pam_cases(), check, ctx.n(1, 19), sub=2,
                shrink=False,   # every evaluation costs seconds of synthesis
            )
        finally:
            _COMPILER = None
            pc.close()
    return res
