"""C13 - task failures reach their client; no client request takes the server
down."""
from __future__ import annotations

import logging
import uuid

from hypothesis import strategies as st

from vt import core
from vt.core import Outcome
from vt.props import simcommon as sc
from vt.simrt import programs as P

ID = 'C13'
LEVEL = 'exploration'
RULE = (
    'cases: histories of client API calls (submit / status / result / cancel '
    '/ close / "let the runtime make k steps") by 1-3 real Compiler objects '
    'attached to one simulated detached server (flat or with managers), over '
    'task ids in every state: running, done-unfetched, fetched, cancelled, '
    'unknown uuid, another client\'s id. Submitted programs may contain a '
    'raising node at any depth and nodes that log at WARNING level (LOG '
    'messages in flight). Oracle: a per-task reference state machine held by '
    'the harness, a server-liveness probe after every call, and value checks '
    'for every task that was not cancelled. Non-trivial: the history contains '
    '>= 1 request for an id that is not in RUNNING state, or >= 2 clients '
    'with overlapping lifetimes, or a raising program. Distinct = sha1 of '
    'the JSON case.'
)
ASSUMPTIONS = [
    'channel model: reliable FIFO per direction; message handlers atomic',
    'a client that was sent an ERROR is considered gone afterwards (the real '
    'client closes its connection when it raises)',
]
SHARDS = {'quick': 16, 'thorough': 16}
BUDGET_S = {'quick': 200, 'thorough': 2400}


class TaskRef:
    def __init__(self, tid, owner, spec, rd=True):
        self.tid, self.owner, self.spec = tid, owner, spec
        self.rd = rd              # request_data: result carries the pass data
        self.state = 'LIVE'       # LIVE / FETCHED / CANCELLED
        self.raises = P.first_error(spec)
        self.was_done = False


def result_mismatch(ref, v):
    """None if ``v`` is a right result of ``ref``'s compilation."""
    if ref.rd:
        return P.value_matches(P.expected(ref.spec), v[1]['res'])
    # without request_data the result is the output circuit alone; the
    # program pass leaves the 1-qudit input circuit unchanged (no operations)
    from bqskit.ir.circuit import Circuit
    if not isinstance(v, Circuit) or v.num_qudits != 1 or \
            v.num_operations != 0:
        return f'circuit-only result is {str(v)[:80]}'
    return None


def chain_text(e: BaseException) -> str:
    parts = []
    seen = 0
    while e is not None and seen < 6:
        parts.append(' '.join(str(a) for a in e.args))
        e = e.__cause__ or e.__context__
        seen += 1
    return ' || '.join(parts)


def check(case) -> Outcome:
    from vt.simrt.sim import Hang, Sim, StepBound, make_root_task
    from bqskit.compiler.status import CompilationStatus as CS
    from bqskit.runtime.message import RuntimeMessage as M
    out = Outcome()
    P.reset()
    logging.disable(logging.NOTSET)
    lg = logging.getLogger('vtprog')
    lg.propagate = False
    lg.setLevel(logging.WARNING)
    if not lg.handlers:
        lg.addHandler(logging.NullHandler())
    root_level = logging.getLogger().level
    nclients = case['nclients']
    sim = Sim(case['topo'], case['sched'], policy=case.get('policy'),
              nclients=nclients)
    tasks: list = []
    alive = [True] * nclients
    comps = [sim.compiler(i) for i in range(nclients)]
    nontrivial = [nclients >= 2]
    poisoned = [False] * nclients     # owner of a raising task: any call may raise

    syserr: list = []
    orig_syserr = sim.server.handle_system_error

    def rec_syserr(error_str):
        syserr.append(error_str)
        return orig_syserr(error_str)
    sim.server.handle_system_error = rec_syserr
    reported = [False]

    def report_server_down(when):
        if reported[0]:
            return
        reported[0] = True
        text = syserr[0] if syserr else ''
        out.fail('server_down|' + sc.classify_error(text),
                 f'{when}: {text[-600:]}')

    def mark_dead(c):
        alive[c] = False
        for t in tasks:
            if t.owner == c and t.state == 'LIVE':
                t.state = 'CANCELLED'

    def expected_boom(c, text):
        return any(
            f'boom-{tag}' in text for t in tasks if t.owner == c
            for tag in t.raises
        )

    def client_call(c, what, fn, allow_unknown_task_error=False):
        """Run a client call; returns (ok, value).  Classifies exceptions."""
        try:
            return True, fn()
        except Hang:
            out.fail(f'hang|{what}', f'client {c} blocked at quiescence')
            mark_dead(c)
            return False, None
        except StepBound:
            out.label('step-bound')
            raise
        except RuntimeError as e:
            text = chain_text(e)
            mark_dead(c)
            if expected_boom(c, text):
                out.label('error-delivered')
                return False, 'boom'
            if allow_unknown_task_error and (
                'Unknown task' in text
                or isinstance(e.__cause__, (EOFError, ConnectionResetError))
            ):
                # the server answers a request for a result it cannot give
                # with ERROR 'Unknown task.' and drops that one client
                out.label('unknown-task-error')
                return False, 'unknown'
            if not sim.server.running:
                report_server_down(f'{what} by client {c}')
                return False, None
            sig, det = sc.client_error(e)
            out.fail(f'unexpected_{sig}', f'during {what}: {det}')
            return False, None

    try:
        try:
            for step in case['steps']:
                op = step['op']
                if op == 'run':
                    sim.run_n(step['n'])
                    continue
                c = step['c'] % nclients
                if not alive[c]:
                    continue
                comp = comps[c]
                if op == 'submit':
                    spec = sc.normalise(step['prog'], [len(tasks) * 100])
                    rd = bool(step.get('rd', True))
                    task = make_root_task(spec, request_data=rd)
                    if P.has_kind(spec, ('log',)):
                        task.logging_level = logging.WARNING
                    ok, _ = client_call(
                        c, 'submit', lambda: comp._send(M.SUBMIT, task))
                    if ok:
                        tasks.append(TaskRef(task.task_id, c, spec, rd))
                        if not rd:
                            out.label('submit:circuit-only-result')
                        if tasks[-1].raises:
                            nontrivial[0] = True
                    continue
                if op == 'close':
                    client_call(c, 'close', comp.close)
                    mark_dead(c)
                    continue
                # pick a task id
                sel = step['t']
                if sel % 7 == 6 or not tasks:
                    tid = uuid.UUID(int=step['t'] + 12345)
                    ref = None
                    kind = 'unknown'
                else:
                    ref = tasks[sel % len(tasks)]
                    tid = ref.tid
                    kind = 'own' if ref.owner == c else 'foreign'
                live_own = ref is not None and kind == 'own' and \
                    ref.state == 'LIVE'
                if not live_own:
                    nontrivial[0] = True
                out.label(f'{op}:{kind}:{ref.state if ref else "-"}')
                if op == 'status':
                    quiet = sim.quiescent()
                    ok, v = client_call(c, 'status', lambda: comp.status(tid))
                    if ok:
                        if live_own and quiet and not ref.raises and \
                                v != CS.DONE:
                            # nothing is running or in flight any more: the
                            # result is at the server
                            out.fail('status_not_done_at_quiescence', f'{v}')
                        if live_own:
                            if v not in (CS.RUNNING, CS.DONE):
                                out.fail('status_live_task', f'{v}')
                            if v == CS.RUNNING and ref.was_done:
                                out.fail('status_went_back_to_running', '')
                            if v == CS.DONE:
                                ref.was_done = True
                        elif v != CS.UNKNOWN:
                            out.fail(
                                f'status_not_unknown|{kind}|'
                                f'{ref.state if ref else "-"}', f'{v}')
                elif op == 'result':
                    ok, v = client_call(
                        c, 'result', lambda: comp.result(tid),
                        allow_unknown_task_error=not live_own)
                    if ok:
                        if not live_own:
                            out.fail(
                                f'result_for_non_live_id|{kind}|'
                                f'{ref.state if ref else "-"}',
                                f'returned {str(v)[:100]}')
                        elif ref.raises:
                            out.fail('raising_task_returned_value',
                                     str(v)[:200])
                        else:
                            d = result_mismatch(ref, v)
                            if d is not None:
                                out.fail('wrong_value', d)
                            ref.state = 'FETCHED'
                elif op == 'cancel':
                    ok, v = client_call(c, 'cancel', lambda: comp.cancel(tid))
                    if ok and live_own:
                        if v is not True:
                            out.fail('cancel_return', repr(v))
                        ref.state = 'CANCELLED'
                # liveness probe: the server must still be serving
                if not sim.server.running:
                    report_server_down(
                        f'{op} of a {kind} id in state '
                        f'{ref.state if ref else "-"}')
                    return out
            # ---- epilogue: every live task of every live client completes
            if case.get('probe'):
                sim.drain()
            for t in tasks:
                if not alive[t.owner] or t.state != 'LIVE':
                    continue
                comp = comps[t.owner]
                if case.get('probe') and not t.raises:
                    ok, v = client_call(t.owner, 'final_status',
                                        lambda: comp.status(t.tid))
                    if ok and v != CS.DONE:
                        out.fail('status_not_done_at_quiescence',
                                 f'{v} (epilogue)')
                    if not alive[t.owner]:
                        continue
                ok, v = client_call(t.owner, 'final_result',
                                    lambda: comp.result(t.tid))
                if ok:
                    if t.raises:
                        out.fail('raising_task_returned_value', str(v)[:200])
                    else:
                        d = result_mismatch(t, v)
                        if d is not None:
                            out.fail('wrong_value', d)
                    t.state = 'FETCHED'
                elif v == 'boom':
                    pass
            if not sim.server.running:
                report_server_down('end of history')
        except StepBound:
            return out
        for e in P.PROTO_ERRORS:
            out.fail('protocol|' + e[0], str(e))
        out.nontrivial = nontrivial[0] and len(tasks) >= 1
        out.label(f'clients:{nclients}')
        if any(t.raises for t in tasks):
            out.label('has-raise')
        if any(P.has_kind(t.spec, ('log',)) for t in tasks):
            out.label('has-log')
        return out
    finally:
        sim.close()
        logging.getLogger().setLevel(root_level)
        logging.disable(logging.CRITICAL)
        del poisoned


replay = check


@st.composite
def cases(draw, quick=True):
    nclients = draw(st.integers(1, 3))
    prog = sc.programs(3, 3, leaf_kinds=('leaf', 'leaf', 'leaf', 'log',
                                         'raise'))
    prog_ok = sc.programs(3, 3, leaf_kinds=('leaf', 'leaf', 'log'))
    step = st.one_of(
        st.builds(lambda c, p: {'op': 'submit', 'c': c, 'prog': p},
                  st.integers(0, 2), st.one_of(prog_ok, prog_ok, prog)),
        st.builds(lambda c, p, rd: {'op': 'submit', 'c': c, 'prog': p,
                                    'rd': rd},
                  st.integers(0, 2), prog_ok, st.booleans()),
        st.builds(lambda c, t: {'op': 'status', 'c': c, 't': t},
                  st.integers(0, 2), st.integers(0, 20)),
        st.builds(lambda c, t: {'op': 'result', 'c': c, 't': t},
                  st.integers(0, 2), st.integers(0, 20)),
        st.builds(lambda c, t: {'op': 'cancel', 'c': c, 't': t},
                  st.integers(0, 2), st.integers(0, 20)),
        st.builds(lambda n: {'op': 'run', 'n': n}, st.integers(1, 40)),
        st.builds(lambda n: {'op': 'run', 'n': n}, st.integers(1, 40)),
        st.builds(lambda c: {'op': 'close', 'c': c}, st.integers(0, 2)),
    )
    return {
        'nclients': nclients,
        'topo': draw(sc.topologies),
        'sched': draw(sc.schedules),
        'policy': draw(st.sampled_from([None, None, 'lazy_recv',
                                        'eager_recv'])),
        'steps': draw(st.lists(step, min_size=2,
                               max_size=14 if quick else 25)),
        'probe': draw(st.booleans()),
    }


def run_shard(ctx: core.Ctx) -> core.ShardResult:
    res = core.ShardResult()
    core.run_hypothesis(ctx, res, cases(ctx.tier == 'quick'), check,
                        ctx.n(150, 5000))
    return res
