"""Evidence writer: counters -> evidence/<id>.json, validated before exit."""
from __future__ import annotations

import json
import os

from vt import core

SCHEMA = '/root/.vp/EVIDENCE.schema.json'


def write(mod, prop, tier, seed, merged, wall, violations, known_seen,
          replayed, nshards) -> None:
    level = getattr(mod, 'LEVEL', 'exploration')
    cov = {
        'evaluations': int(merged.evaluations),
        'distinct_nontrivial': len(merged.nontrivial),
        'rule': mod.RULE,
        'samples': merged.samples[:8],
        'generated_cases': int(merged.cases),
        'labels': dict(sorted(merged.labels.items())),
        'shards': nshards,
        'replays_run': replayed,
        'known_findings_seen': known_seen,
        'excluded_by_construction': int(merged.excluded),
        'budget_exhausted': bool(merged.budget_exhausted),
    }
    for k, v in merged.extra.items():
        cov.setdefault(k, v)
    doc = {
        'property_id': prop,
        'tier': tier,
        'seed': int(seed),
        'level': level,
        'coverage': cov,
        'assumptions': list(getattr(mod, 'ASSUMPTIONS', [])),
        'wall_s': round(float(wall), 2),
        'violations': int(violations),
    }
    text = json.dumps(doc, indent=1, default=str)
    doc2 = json.loads(text)
    if os.path.exists(SCHEMA):
        import jsonschema
        with open(SCHEMA) as f:
            jsonschema.validate(doc2, json.load(f))
    else:  # minimal local validation
        assert cov['evaluations'] >= 1 and cov['distinct_nontrivial'] >= 2
        assert cov['samples']
    edir = os.path.join(core.VERIF_ROOT, 'evidence')
    os.makedirs(edir, exist_ok=True)
    tmp = os.path.join(edir, f'.{prop}.json.tmp')
    with open(tmp, 'w') as f:
        f.write(text + '\n')
    os.replace(tmp, os.path.join(edir, f'{prop}.json'))
