"""Development tool: confirm a seeded change produced by a sub-agent and keep
it under /verif/seeded/<name>/.

usage: python -m vt.sens.ingest /tmp/wt/C17_out/1 [name]

Confirms, in a scratch worktree of /repo's HEAD outside /repo and /verif, that
(1) the demo passes on the unchanged tree, (2) the patch applies, (3) the demo
fails with the patch.  Records what was run in meta.json.
"""
from __future__ import annotations

import json
import os
import shutil
import subprocess
import sys
import tempfile

ROOT = os.path.dirname(os.path.dirname(os.path.dirname(os.path.abspath(__file__))))


def run(cmd, **kw):
    return subprocess.run(cmd, capture_output=True, text=True, **kw)


def main(argv):
    src = argv[0].rstrip('/')
    meta = json.load(open(os.path.join(src, 'meta.json')))
    prop = meta['property']
    name = argv[1] if len(argv) > 1 else \
        f'{prop}-{os.path.basename(src)}'
    wt = tempfile.mkdtemp(prefix='vt-ingest-')
    os.rmdir(wt)
    ok = False
    log = {}
    try:
        r = run(['git', '-C', '/repo', 'worktree', 'add', '-q', '--detach',
                 wt, 'HEAD'])
        assert r.returncode == 0, r.stderr
        env = dict(os.environ, PYTHONPATH=wt, OMP_NUM_THREADS='1')
        demo = os.path.join(src, 'demo.py')
        r1 = run(['/venv/bin/python', demo], env=env, cwd=src, timeout=900)
        log['demo_on_clean_tree'] = {'exit': r1.returncode,
                                     'tail': (r1.stdout + r1.stderr)[-300:]}
        r2 = run(['git', '-C', wt, 'apply', os.path.join(src, 'patch.diff')])
        log['patch_applies'] = r2.returncode == 0
        if r2.returncode != 0:
            log['apply_error'] = r2.stderr[-300:]
        else:
            r3 = run(['/venv/bin/python', demo], env=env, cwd=src, timeout=900)
            log['demo_with_patch'] = {'exit': r3.returncode,
                                      'tail': (r3.stdout + r3.stderr)[-300:]}
            ok = r1.returncode == 0 and r3.returncode != 0
    finally:
        run(['git', '-C', '/repo', 'worktree', 'remove', '--force', wt])
        shutil.rmtree(wt, ignore_errors=True)
    print(name, 'CONFIRMED' if ok else 'NOT CONFIRMED', json.dumps(log)[:600])
    if ok:
        dst = os.path.join(ROOT, 'seeded', name)
        os.makedirs(dst, exist_ok=True)
        for f in ('patch.diff', 'demo.py'):
            shutil.copy(os.path.join(src, f), os.path.join(dst, f))
        meta['confirmed_by_main'] = {
            'against': run(['git', '-C', '/repo', 'rev-parse', '--short',
                            'HEAD']).stdout.strip(),
            'ran': 'demo.py on a scratch worktree of /repo HEAD with '
                   'PYTHONPATH=<worktree>: exit 0 unchanged, non-zero with '
                   'patch.diff applied (git apply)',
            'log': log,
        }
        json.dump(meta, open(os.path.join(dst, 'meta.json'), 'w'), indent=1)
    return 0 if ok else 1


if __name__ == '__main__':
    sys.exit(main(sys.argv[1:]))
