"""Development tool (not a registered check): run the quick checks against the
seeded changes kept under /verif/seeded/<name>/ (patch.diff + meta.json).

For each change a scratch git worktree of /repo is created OUTSIDE /repo and
/verif, the patch is applied there, the property's check is run with
VT_REPO/PYTHONPATH pointing at the worktree (a directory on PYTHONPATH shadows
the editable install), and the worktree is removed again.  Results are written
to seeded/RESULTS.md.

usage: /venv/bin/python -m vt.sens.run_seeded [name ...] [--seeds 1,2] [--props C04,C05]
"""
from __future__ import annotations

import json
import os
import shutil
import subprocess
import sys
import tempfile
import time

ROOT = os.path.dirname(os.path.dirname(os.path.dirname(os.path.abspath(__file__))))
REPO = '/repo'


def run(cmd, **kw):
    return subprocess.run(cmd, capture_output=True, text=True, **kw)


def main(argv):
    seeds = [1]
    names = []
    extra_props = None
    scale = os.environ.get('VT_SCALE', '1')
    it = iter(argv)
    for a in it:
        if a == '--seeds':
            seeds = [int(x) for x in next(it).split(',')]
        elif a == '--props':
            extra_props = next(it).split(',')
        else:
            names.append(a)
    sdir = os.path.join(ROOT, 'seeded')
    if not names:
        names = sorted(
            d for d in os.listdir(sdir)
            if os.path.exists(os.path.join(sdir, d, 'patch.diff'))
        )
    rows = []
    for name in names:
        d = os.path.join(sdir, name)
        meta = json.load(open(os.path.join(d, 'meta.json')))
        props = extra_props or meta.get('checks') or [meta['property']]
        wt = tempfile.mkdtemp(prefix='vt-seeded-')
        os.rmdir(wt)
        try:
            r = run(['git', '-C', REPO, 'worktree', 'add', '-q', '--detach',
                     wt, 'HEAD'])
            if r.returncode != 0:
                rows.append((name, '-', '-', 'worktree failed: ' + r.stderr))
                continue
            r = run(['git', '-C', wt, 'apply', os.path.join(d, 'patch.diff')])
            if r.returncode != 0:
                rows.append((name, '-', '-', 'patch does not apply: '
                             + r.stderr.strip()[:200]))
                continue
            for prop in props:
                for seed in seeds:
                    env = dict(
                        os.environ, VT_REPO=wt,
                        PYTHONPATH=wt + os.pathsep + ROOT,
                        VERIF_SEED=str(seed), VT_SCALE=scale,
                    )
                    t0 = time.time()
                    r = run([os.path.join(ROOT, 'check'), prop, '--tier',
                             'quick', '--no-evidence'], env=env, cwd=ROOT)
                    dt = time.time() - t0
                    viol = [ln for ln in r.stdout.splitlines()
                            if ln.startswith('violation:')]
                    verdict = {0: 'MISSED', 1: 'CAUGHT'}.get(
                        r.returncode, f'ERROR({r.returncode})')
                    sig = viol[0][:160] if viol else ''
                    rows.append((name, prop, seed,
                                 f'{verdict} in {dt:.0f}s {sig}'))
                    print(rows[-1], flush=True)
                    if r.returncode not in (0, 1):
                        print(r.stdout[-1500:], r.stderr[-1500:])
        finally:
            run(['git', '-C', REPO, 'worktree', 'remove', '--force', wt])
            shutil.rmtree(wt, ignore_errors=True)
    out = os.path.join(sdir, 'RESULTS.md')
    prev = open(out).read() if os.path.exists(out) else \
        '# Seeded changes vs quick checks\n\n| change | check | seed | result |\n|---|---|---|---|\n'
    with open(out, 'w') as f:
        f.write(prev)
        for row in rows:
            f.write('| ' + ' | '.join(str(x) for x in row) + ' |\n')


if __name__ == '__main__':
    main(sys.argv[1:])
