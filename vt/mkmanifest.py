"""Regenerates MANIFEST.json from the table below (run by hand after edits)."""
from __future__ import annotations

import json
import os

ROOT = os.path.dirname(os.path.dirname(os.path.abspath(__file__)))

SIMNOTE = 'Trusted base of the simulator (DESIGN.md §3.5): reliable FIFO channels of pickled messages, the ~25-line registration shim mirroring spawn_workers/connect_to_managers, fail-stop crashes, and that workers share no state except through messages. Real OS sockets, process spawning and the OS thread scheduler are replaced, not tested.'

COMPNOTE = 'The public bqskit.compile is executed with a real Compiler object whose runtime is the deterministic simulator (DESIGN.md §3.5); real worker processes are not started because the attached runtime binds a fixed port (one instance per machine). Distance budget (R+1)*4*sqrt(2*eps)+1e-7 with R read from the pass data of the same call. A compile() exceeding 75 s (quick) / 900 s (thorough) is abandoned and counted as inconclusive, never as a violation.'

CHECKS = {
    'C01': dict(
        category='exploration',
        text='Generated (circuit, machine model, optimization level, max_synthesis_size, synthesis_epsilon, seed, workers, schedule) cases: circuits of 2-5 (thorough 7) qudits over 1/2/3-qudit gates with special and generic angles, Haar unitary gates, barriers, pre-blocked CircuitGates and terminal measurements, qutrit circuits; models with every graph shape, machine wider than the circuit and ten native gate sets. compile(..., with_mapping=True) output is judged by the mapping-aware embedding oracle (all embedded basis states simulated independently; equality up to one global phase within the synthesis budget; no leakage outside the final mapping), mappings must be injective into the machine, and measurement placeholders must sit last on the physical qudits holding the measured logical qudits. A documented-valid input that compile() fails on is a violation keyed by the failing frame.',
        design_ref='DESIGN.md §4 C01, §3.3',
        note=COMPNOTE,
        technique='property-based testing with Hypothesis: end-to-end compile() against an independent mapping-aware simulation oracle',
    ),
    'C02': dict(
        category='exploration',
        text='(a) compile() outputs for circuit, unitary, state and state-system inputs over generated models are judged by an independent predicate for the three conditions of the property (model width/radixes, only native gates apart from placeholders, every multi-qudit location pairwise coupled), and MachineModel.is_compatible must agree with that predicate. (b) Thousands of synthetic circuits built to satisfy a generated model and then mutated to break exactly one condition (foreign 1- or 2-qudit gate, uncoupled pair, wrong radix, too wide, narrower, or none) exercise the agreement clause in both directions.',
        design_ref='DESIGN.md §4 C02',
        note=COMPNOTE + ' Placeholders are set aside as the property states. Three open findings are reported as KNOWN-FINDING.',
        technique='property-based testing with Hypothesis: independent validity predicate + mutation-generated negatives for the is_compatible agreement',
    ),
    'C03': dict(
        category='exploration',
        text='Generated targets (Haar / permutation / diagonal / identity / Clifford / near-identity unitaries, Haar / basis / GHZ / W states, state systems of 1..dim pairs; qubits and qutrits; 1-2 qudits quick, up to 3 thorough; single inputs and lists of 2-4 pairwise-distinguishable inputs) x models x levels: the circuit returned by compile() is simulated independently under the returned mappings and must reach the unitary (distance), the state (infidelity) or every listed pair of the system within the budget; list results must come back one per input in order.',
        design_ref='DESIGN.md §4 C03',
        note=COMPNOTE + ' Open findings about one-qudit state/system targets are reported as KNOWN-FINDING.',
        technique='property-based testing with Hypothesis: synthesis results judged by an independent simulator against the requested target',
    ),
    'C04': dict(
        category='exploration',
        text='Model-based testing of histories of public Circuit editing calls (37-call alphabet, selectors resolved against the live state so every argument value incl. negative/out-of-range indices occurs): after every call the flattened per-qudit operation sequences of the real circuit are compared with those a list-of-cycles reference semantics predicts from the pre-call grid and the documented effect of the call; documented positional facts and return values, unitary invariance of structure-only calls, inverse-composes-to-identity and atomicity of rejected calls are checked as well. Failing histories are shrunk by Hypothesis.',
        design_ref='DESIGN.md §4 C04, §3.2, §3.4',
        note='Trusted: the grid read API (validated by C05), Gate.get_unitary (C18), vt/oracle/trace.py. Exploration only: thousands of histories per run, no exhaustiveness.',
        technique='model-based (stateful) property testing with Hypothesis: generated call histories vs list-of-cycles trace model',
    ),
    'C05': dict(
        category='exploration',
        text='The same generated editing histories as C04 plus an exhaustive enumeration of all histories of length <=3 (quick) / <=4 (thorough) over a 31-call reduced alphabet on 2-3 qubits; after EVERY step all derived views (next/prev/front/rear/first_on/last_on, counters, coupling graph, depth, params, forward/reverse/with-cycles iteration) are recomputed from the grid through the public read API and compared, and any exception other than a documented rejection is a violation keyed by its innermost bqskit frame.',
        design_ref='DESIGN.md §4 C05',
        note='Trusted: the grid (operation at cycle,qudit) as primary view. The exhaustive part is complete only for the stated alphabet/length; the rest is exploration.',
        technique='invariant checking over generated and exhaustively enumerated call histories (Hypothesis + itertools.product)',
    ),
    'C06': dict(
        category='exploration',
        text='Generated circuits (mixed radixes 2-4, width 1-6, permuted and non-adjacent locations, nested blocks, composed and frozen gates; also circuits reached by editing histories) with generated parameter vectors and seeded input states: get_unitary / get_statevector / get_unitary_and_grad / get_grad are compared with an independent numpy tensor contraction in grid order (parameters sliced in iteration order) and with central finite differences; params/get_param/set_param/get_param_location/freeze_param are checked to address the same scalars; qudit- and region-restricted iteration (both exclude modes, both directions) is compared with the set of operations the grid says lie inside the area.',
        design_ref='DESIGN.md §4 C06, §3.1',
        note='Trusted: numpy tensordot, per-gate matrices/gradients (C18), grid read API (C05). Tolerances 1e-9 (values), 2e-5*scale (finite differences, step 1e-6).',
        technique='differential testing against an independent reference simulator over Hypothesis-generated circuits; finite-difference oracle for gradients',
    ),
    'C07': dict(
        category='exploration',
        text='The real Worker, DetachedServer, Manager and Compiler code is run in a deterministic single-threaded simulation whose every scheduling decision (which channel delivers next, which worker steps, where a worker main step is pre-empted at source-line granularity to let the incoming-message handler run) comes from the generated case. Generated task trees (submit/await in any order, map, map+next) x topologies x schedules x up to 3 pre-emptions are judged against a reference evaluator: client value, every body exactly once, no error shipped to the client, no hang, nothing parked at quiescence. A second family enumerates every single pre-emption point (worker step x line x k pending messages) of a fixed sequential-awaits program under six base schedules, and a third every point of a RESULT handler at which the main thread takes a step (interleavings the single-threaded simulator cannot continue are counted as inconclusive).',
        design_ref='DESIGN.md §4 C07, §3.5',
        note=SIMNOTE + ' Line-level interleavings are explored with at most 3 pre-emptions, the pre-empting thread running whole handlers.',
        technique='schedule-exploring property-based testing on a deterministic runtime simulator (Hypothesis-generated programs/schedules/pre-emptions + exhaustive single-pre-emption enumeration)',
    ),
    'C08': dict(
        category='exploration',
        text='Generated circuits (width 2-20, up to 300 operations, 1/2/3-qudit gates, barriers/measurements/resets, already-blocked input, qutrits and mixed radixes) x block sizes 2-6 x every partitioner (Quick, Scan, Clustering, Greedy, GroupSingleQuditGate, Quick+ExtendBlockSize, GTQCP, TDAG), driven in-process. Oracle, read through the grid only: block width bound, multiset of operations with bit-identical parameters, per-qudit operation sequences of the unfolded output equal to the input\'s (exact at any width, no simulation), no placeholder inside a block and placeholder order unchanged; unitary/state comparison as a redundant check for small dimensions.',
        design_ref='DESIGN.md §4 C08, §3.2',
        note='Trusted: vt/oracle/trace.py, refsim. Documented domain restrictions (no gate wider than the block for Scan/Clustering/GTQCP/TDAG) are respected by construction. Open findings (Greedy, placeholders in five partitioners, Quick with multi-qudit barriers) are reported as KNOWN-FINDING and their triggers excluded from generation after counting, with one dedicated case each.',
        technique='property-based testing with Hypothesis against a trace-equivalence (per-qudit projection) oracle',
    ),
    'C09': dict(
        category='exploration',
        text='Generated circuits (2-8 qudits, 3-qudit gates, barriers, partitioned blocks) x connected coupling graphs (line/ring/star/grid/tree/tree+edges, machine >= circuit) x workflows [SetModel, Greedy/Trivial/Static placement, GeneralizedSabre layout (1-3 passes), routing, ApplyPlacement] with generated algorithm parameters, driven in-process and judged stage by stage: placement connected and injective, layout touches neither circuit nor mappings, routed circuit = input + swaps only with the swap product equal to the recorded final mapping, every multi-qudit operation on physically connected qudits, and the mapping-aware embedding oracle (state-vector simulation of all embedded basis states, one global phase, no leakage) under initial/final mapping. The thorough tier adds permutation-aware (PAM) layout/routing on a real runtime with pre-synthesised permutations.',
        design_ref='DESIGN.md §4 C09, §3.3',
        note='Trusted: vt/oracle/embed.py + refsim, trace equivalence. SABRE passes are driven in-process (they never await). PAM arm needs a real runtime per shard (private ports) and a synthesis tolerance derived from measured per-block errors.',
        technique='property-based testing with Hypothesis against an independent mapping-aware simulation oracle and structural postconditions',
    ),
    'C10': dict(
        category='exploration',
        text='A catalogue of 38 rows covering 44 rewriting passes (rule-based rewrites, single- and two-qudit retargeting, gate-removal passes, QSD / Block-ZXZ / MGD / Walsh / diagonal extraction, QFAST / QPredict / LEAP / QSearch / PAS, conversion and utility passes, read-only passes): each row has an option strategy, a domain generator rich in the gate it rewrites, an exactness class and a postcondition. The output unitary is compared with the input\'s by the independent simulator (1e-7 exact, 1e-6 analytic, (R+1)*4*sqrt(2 eps) numerical) and the advertised postcondition is checked (source gate gone, only requested gates introduced, gate count not increased, filters honoured, width/radixes unchanged). Exported passes without a row are reported as labels.',
        design_ref='DESIGN.md §4 C10',
        note='Passes that use the runtime run on a per-shard attached server started on private ports; a 75 s wall-clock guard labels hangs as inconclusive. Open findings are reported as KNOWN-FINDING and their triggers excluded from generation after counting.',
        technique='catalogue-driven property-based testing with Hypothesis: refsim distance oracle + per-pass postconditions',
    ),
    'C11': dict(
        category='exploration',
        text='Generated partitioned circuits x collection filters x every replace filter (ten string methods and callables) x scripted body passes (identity, equivalent rewrite, shrink, grow, perturb by a known distance, fail, record, re-map) selected per block through the documented pass-down keys, inside generated nestings (depth <= 3) of IfThenElse / While / DoWhile / DoThenDecide / ParallelDo / Workflow / ForEachBlockPass with scripted predicates, executed through Compiler.compile on the deterministic simulator (1-3 workers, drawn schedule). A reference interpreter of the control tree predicts the acceptable outcomes: record sequences, which blocks the body ran on and what sub-circuit/sub-model each saw, the output circuit (trace + unitary), every PassData field after rejected or unselected branches, ForEach bookkeeping and the error bound data.error >= d - 4 d^2. A second family judges the shipped predicates against their docstrings.',
        design_ref='DESIGN.md §4 C11',
        note=SIMNOTE + ' Where a replace-filter docstring is silent the oracle follows the implementation (stated in the module ASSUMPTIONS).',
        technique='model-based property testing with Hypothesis: reference interpreter of control-flow pass trees on a deterministic runtime simulator',
    ),
    'C12': dict(
        category='exploration',
        text='Generated task trees containing cancellation nodes (map + b x next() + cancel, submit + cancel, submit + cancel + await) and client-side cancel/disconnect of one of two compilations at a drawn moment, run on the deterministic simulator over generated topologies and delivery orders. Oracle: reference values (cancelled work never appears in any value; awaiting a cancelled future fails the compilation with the documented RuntimeError), execution log (non-cancelled bodies exactly once, cancelled at most once, none started on a worker after it handled the CANCEL), once a worker has handled every CANCEL sent for a future no body of that future starts on it, table hygiene at quiescence on every worker and on the server, and the other compilation completing correctly. Cases carry up to 3 line-level pre-emptions in either direction; every single pre-emption point of four fixed cancel programs is enumerated.',
        design_ref='DESIGN.md §4 C12, §3.5',
        note=SIMNOTE,
        technique='schedule-exploring property-based testing on a deterministic runtime simulator with a reference evaluator and quiescence invariants',
    ),
    'C13': dict(
        category='exploration',
        text='Histories of client API calls (submit/status/result/cancel/close interleaved with runtime progress) by 1-3 real Compiler objects against one simulated detached server, over task ids in every state (running, done, fetched, cancelled, unknown, another client\'s), with raising and logging task programs. Oracle: a per-task reference state machine, a server-liveness check after every call, delivery of the original error text to the owning client only, status DONE for every finished live task once the system is quiescent, and correct values for every undisturbed task (with and without request_data).',
        design_ref='DESIGN.md §4 C13, §3.5',
        note=SIMNOTE,
        technique='stateful (history-based) property testing of the client/server protocol on a deterministic runtime simulator against a reference state machine',
    ),
    'C14': dict(
        category='fault_enumeration',
        text='For each generated base run (program, topology, schedule, attached/detached, failure mode of sends to a dead peer) the fault-free execution is measured and then re-executed once per (node, crash point): every worker and manager crashed after every action (all points for short runs, 40/200 evenly spaced + drawn ones otherwise), optionally followed by a second crash, with the client blocked in result(). Each faulted execution must end in an exception or the complete correct value, never hang or exceed the step bound, and leave no server, manager or worker running.',
        design_ref='DESIGN.md §4 C14, §3.5',
        note=SIMNOTE + ' Bounded time is measured in simulator actions (6T+400).',
        technique='systematic fault injection (crash-point enumeration) over Hypothesis-generated schedules on a deterministic runtime simulator',
    ),
    'C15': dict(
        category='exploration',
        text='Generated programs with wide maps (fan-out below/equal/above the idle-worker count), bursts of submits and optional cancellation, over flat and hierarchical topologies and generated delivery orders with the scheduler\'s own randomness seeded from the case. After EVERY simulator action all per-employee and per-node counters are checked against their bounds; from the log of messages put on channels every created task must be forwarded exactly once per level and reach exactly one worker; at quiescence a server managing workers directly must believe all of them idle with zero tasks. Right after a boss handles WAITING from a directly managed worker its idle belief is compared with ground truth kept by the simulator (how many task messages the worker had taken in when it sent WAITING). WAITING/SUBMIT_BATCH crossings are measured (labels); every point of a SUBMIT/SUBMIT_BATCH handler at which the worker main thread takes a step is enumerated for three fixed programs.',
        design_ref='DESIGN.md §4 C15, §3.5',
        note=SIMNOTE + ' One open known finding (task count drift after cancellation) is reported as KNOWN-FINDING.',
        technique='invariant checking after every step of schedule-exploring property-based tests on a deterministic runtime simulator',
    ),
    'C16': dict(
        category='exploration',
        text='Round-trip and aliasing oracles over generated objects: circuits reached through editing histories or rich specs (pickle, dill, copy, become deep/shallow: same grid cell by cell, same unitary, ==, full C05 view invariant on the copy; independence by running a second generated edit history on one side and re-reading the other), every gate construction of the generator and Operations (==, hash, name, unitary, singleton preservation), MachineModels, PassData with every reserved and user key set (pickle/copy/become/update, field-wise), Workflows nesting every control pass with module-level callables (structure after pickle), RuntimeTask payloads.',
        design_ref='DESIGN.md §4 C16',
        note='Trusted: pickle/dill; comparison through the public read API. Exploration only.',
        technique='round-trip and metamorphic (mutate-one-side) property tests over Hypothesis-generated objects and edit histories',
    ),
    'C17': dict(
        category='exploration',
        text='(A) Round-trip: generated qubit circuits over every gate with a QASM spelling (enumerated from bqskit.ir.gates at run time), controlled/frozen/CircuitGate blocks (nested), placeholders; decode(encode(c)) must have the same flattened per-qubit operation sequence (matrices to 1e-9), parameters to 1e-12 relative, same placeholder targets and the same unitary (1e-7). (B) Differential: a grammar-based generator of OpenQASM 2 programs (several registers, qelib1 gates, U/CX, nested user gates with formal parameters in expressions, + - * / ^, unary minus, parentheses, scientific notation, pi, sin/cos/tan/exp/ln/sqrt, barrier/measure/reset) decoded by BQSKit and by Qiskit qasm2.loads; unitaries must agree up to bit order and global phase and placeholder targets must match; one-sided rejection is a violation named after the construct. (T) Qiskit translators in both directions (cirq/pytket in the thorough tier).',
        design_ref='DESIGN.md §4 C17',
        note='Trusted: Qiskit 2.5.2 qasm2 loader and Operator as the outside implementation; refsim. Gate broadcast over whole registers is outside the property\'s subset and is not generated. Open findings are reported as KNOWN-FINDING and their constructs excluded from generation (counted) with one dedicated case each.',
        technique='round-trip property testing + grammar-based differential testing against Qiskit over Hypothesis-generated programs',
    ),
    'C18': dict(
        category='exploration',
        text='Every concrete gate class exported by bqskit.ir.gates (found by reflection; an unregistered class is a harness error) with generated constructor arguments (radix 2-5, controls/levels, powers, frozen subsets, embeddings, tags, locations, sizes) and parameter vectors from a special-value set: unitarity and advertised shape, get_grad vs central finite differences and vs the expression backend, get_unitary_and_grad consistency, inverse gate x gate = identity, calc_params/optimize of general and locally optimisable gates (one-directional optimum test against 200 seeded candidates), composed gates vs the algebra done independently in numpy, equal-implies-equal-hash over rebuilt and pickled pairs, and a hand-reviewed table of 46 names compared with Qiskit\'s matrices.',
        design_ref='DESIGN.md §4 C18',
        note='Trusted: numpy, Qiskit gate library (bit order reversed), finite differences with step 1e-6 / tolerance 1e-5 scaled. Open findings reported as KNOWN-FINDING.',
        technique='reflection-driven property-based testing with Hypothesis: finite-difference, algebraic and Qiskit-differential oracles per gate class',
    ),
    'C19': dict(
        category='exploration',
        text='Generated circuits over native, Python-path (user-defined gates without expression backend) and composed gates, mixed radixes, widths 1-4, with generated parameter vectors and unitary / state / state-system targets: Hilbert-Schmidt cost and residual functions are compared with numpy reference formulas built on the independent simulator, gradients and Jacobians with central finite differences of the reference, exact-zero at phase-equivalent targets; instantiate() with both instantiaters, all minimisers and 1-8 seeded starts must return the same object, leave structure untouched, and keep a candidate whose reference cost is the minimum over the candidates it produced (observed through a harness subclass).',
        design_ref='DESIGN.md §4 C19',
        note='Trusted: refsim, numpy. The native engine is exercised only through the Python API. Convergence is never judged. Open findings (native CRY gradient, QFactor limitations) are reported as KNOWN-FINDING and excluded from generation after counting.',
        technique='differential testing of native vs reference numpy cost/gradient over Hypothesis-generated circuits; metamorphic structure-invariance checks for instantiate',
    ),
    'C20': dict(
        category='exploration',
        text='Exhaustive enumeration of all labelled graphs on <=5 (quick) / <=6 (thorough) vertices and all qudit permutations of <=4/<=5 qudits, plus Hypothesis-generated graphs to 15 vertices, weighted/remote edges, sub-graph renumberings, embedding pairs, Kronecker/power/apply sequences; each judged against textbook reference algorithms and explicit index arithmetic written independently of the code under test.',
        design_ref='DESIGN.md §4 C20',
        note='Trusted: vt/oracle/graphref.py (BFS, Dijkstra, brute force), numpy. Shortest paths judged by validity+optimality. Absence of violations only on the explored cases; the exhaustive part is complete for the stated sizes.',
        technique='exhaustive small-scope enumeration + Hypothesis generation against textbook reference algorithms',
    ),
}

NA_REASON = 'check not built yet (work in progress; see DESIGN.md §9 build order) - not claimed'
ALL = [f'C{i:02d}' for i in range(1, 21)]


def main() -> None:
    checks = []
    for pid in ALL:
        c = CHECKS.get(pid)
        if not c:
            continue
        checks.append({
            'property_id': pid,
            'quick_cmd': f'./check {pid} --tier quick',
            'thorough_cmd': f'./check {pid} --tier thorough',
            'evidence_file': f'evidence/{pid}.json',
            'replay_cmd_template': f'./check {pid} --replay {{path}}',
            'engine': 'vt',
            'level_claimed': {
                'category': c['category'], 'text': c['text'],
                'design_ref': c['design_ref'],
            },
            'level_note': c['note'],
            'technique': c['technique'],
        })
    doc = {
        'version': 1,
        'setup_cmd': '/venv/bin/python -m vt.setup',
        'hooks': {
            'guard': 'BQSKIT_VERIF',
            'enable': 'no source hooks exist: all instrumentation is done from the harness side (instance/module patching inside the check process); ./check exports BQSKIT_VERIF=1 for uniformity',
            'baseline_off_cmd': 'cd /repo && /venv/bin/python -m pytest -ra -q -p no:cacheprovider --timeout=900 --continue-on-collection-errors',
            'source_commits': [],
            'add_only': True,
        },
        'engines': [{
            'name': 'vt', 'path': 'vt/',
            'serves_properties': [c['property_id'] for c in checks],
            'kind_free_text': 'Hypothesis-driven property-based testing framework with collect-then-shrink bucketing, exhaustive small-scope enumerators, independent numpy/graph/trace oracles and a deterministic in-process runtime simulator',
        }],
        'checks': checks,
        'not_applicable': [
            {'property_id': pid, 'reason': NA_REASON}
            for pid in ALL if pid not in CHECKS
        ],
        'notes': 'Run from /verif. Every check: exit 0 = held on everything explored (KNOWN-FINDING lines for open entries of known_findings.json), exit 1 + VIOLATION line = unlisted violation (replay file under out/violations/<id>/), exit 2 = harness error. VERIF_SEED selects the seed; VT_SCALE scales example counts.',
    }
    with open(os.path.join(ROOT, 'MANIFEST.json'), 'w') as f:
        json.dump(doc, f, indent=1)
        f.write('\n')
    import jsonschema
    jsonschema.validate(doc, json.load(open('/root/.vp/MANIFEST.schema.json')))
    print('MANIFEST.json written:', len(checks), 'checks')


if __name__ == '__main__':
    main()
