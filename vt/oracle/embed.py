"""Mapping-aware equivalence ("embedding") oracle.

A mapped circuit ``C_out`` on m physical qudits implements the logical circuit
``C_in`` on n <= m qudits under the mappings ``pi`` (initial) and ``pf``
(final) iff, with every physical qudit outside ``pi`` prepared in |0>,

    C_out . E_pi  =  e^{i phi} . E_pf . U(C_in)

where ``E_p`` is the isometry that puts logical qudit i on physical qudit
``p[i]`` and |0> on the others.  Conventions (confirmed on ``compile(...,
with_mapping=True)`` results): logical qudit i ENTERS at ``pi[i]`` and LEAVES
at ``pf[i]``; qudit 0 is the most significant tensor factor.

The check simulates the d^n embedded basis states through the output circuit
with ``vt.oracle.refsim`` as one (d^m x d^n) block - never a d^m x d^m matrix -
in column chunks so that memory stays bounded for wide machines.

Two numbers are returned:

``leak``  the largest 2-norm, over basis inputs, of the output amplitude that
          lies outside the subspace "all non-``pf`` qudits are |0>";
``dev``   max |V - e^{i phi} U_in| with ONE phase for the whole matrix, where
          column b of V is the output read back on the ``pf`` qudits.

Placeholders (barriers, measurements, resets) are skipped.
"""
from __future__ import annotations

import numpy as np

from vt.oracle import refsim

MAX_BLOCK = 1 << 22   # complex entries simulated at once


def check_mapping(mapping, n: int, m: int):
    """None if ``mapping`` is an injective list of n ints into range(m), else
    a description of what is wrong."""
    try:
        lst = list(mapping)
    except TypeError:
        return f'not a sequence: {mapping!r}'
    if len(lst) != n:
        return f'length {len(lst)} != {n}: {lst}'
    for x in lst:
        if isinstance(x, bool) or not isinstance(x, (int, np.integer)):
            return f'non-integer entry {x!r} in {lst}'
        if not 0 <= int(x) < m:
            return f'entry {x} outside range({m}) in {lst}'
    if len(set(int(x) for x in lst)) != n:
        return f'not injective: {lst}'
    return None


def circuit_ops(circuit) -> list:
    """[(matrix, location)] of a Circuit in grid order, placeholders skipped."""
    ops = []
    for _, op in refsim.grid_ops(circuit):
        if refsim.is_placeholder(op):
            continue
        ops.append((refsim.op_matrix(op), list(op.location)))
    return ops


def embedded_basis(radixes_phys, pi, radixes_logical, cols) -> np.ndarray:
    """Tensor of shape radixes_phys + [len(cols)]: column j is logical basis
    state ``cols[j]`` (qudit 0 most significant) placed at ``pi`` with |0>
    elsewhere."""
    radixes_phys = list(radixes_phys)
    n = len(radixes_logical)
    t = np.zeros(radixes_phys + [len(cols)], dtype=np.complex128)
    for j, b in enumerate(cols):
        digits = []
        x = int(b)
        for r in reversed(radixes_logical):
            digits.append(x % r)
            x //= r
        digits.reverse()
        idx = [0] * len(radixes_phys)
        for i in range(n):
            idx[pi[i]] = digits[i]
        t[tuple(idx) + (j,)] = 1.0
    return t


def readback(radixes_phys, ops, pi, pf, radixes_logical):
    """Simulate every embedded basis state; return (V, leak) with V the
    D x D matrix read on the ``pf`` qudits (rest projected on |0>)."""
    radixes_phys = [int(r) for r in radixes_phys]
    radixes_logical = [int(r) for r in radixes_logical]
    pi = [int(x) for x in pi]
    pf = [int(x) for x in pf]
    n, m = len(radixes_logical), len(radixes_phys)
    for name, mp in (('pi', pi), ('pf', pf)):
        bad = check_mapping(mp, n, m)
        if bad is not None:
            raise ValueError(f'{name}: {bad}')
        for i in range(n):
            if radixes_phys[mp[i]] != radixes_logical[i]:
                raise ValueError(
                    f'{name}[{i}]={mp[i]} has radix {radixes_phys[mp[i]]}, '
                    f'logical qudit has {radixes_logical[i]}',
                )
    D = int(np.prod(radixes_logical)) if n else 1
    P = int(np.prod(radixes_phys)) if m else 1
    rest = [q for q in range(m) if q not in pf]
    R = int(np.prod([radixes_phys[q] for q in rest])) if rest else 1
    chunk = max(1, min(D, MAX_BLOCK // max(P, 1)))
    V = np.zeros((D, D), dtype=np.complex128)
    leak = 0.0
    for start in range(0, D, chunk):
        cols = list(range(start, min(D, start + chunk)))
        t = embedded_basis(radixes_phys, pi, radixes_logical, cols)
        for M, loc in ops:
            t = refsim.apply_matrix(t, radixes_phys, M, loc)
        # axes: pf (logical order), then the rest, then the column axis
        t = np.transpose(t, pf + rest + [m]).reshape(D, R, len(cols))
        V[:, cols] = t[:, 0, :]
        if R > 1:
            out = t[:, 1:, :].reshape(-1, len(cols))
            leak = max(leak, float(np.sqrt((np.abs(out) ** 2).sum(0)).max()))
    return V, leak


def deviation_ops(U_in, radixes_phys, ops, pi, pf, radixes_logical):
    """(dev, leak) for an output given as [(matrix, location)]."""
    U_in = np.asarray(U_in, dtype=np.complex128)
    V, leak = readback(radixes_phys, ops, pi, pf, radixes_logical)
    if U_in.shape != V.shape:
        raise ValueError(f'U_in has shape {U_in.shape}, expected {V.shape}')
    return refsim.phase_max_diff(V, U_in), leak


def deviation(U_in, out_circuit, pi, pf, radixes_logical):
    """(dev, leak): how far ``out_circuit`` (on m physical qudits) is from
    implementing the n-qudit unitary ``U_in`` when logical qudit i enters at
    ``pi[i]`` and leaves at ``pf[i]``.  ``U_in`` may also be a Circuit."""
    if hasattr(U_in, 'num_cycles'):
        U_in = refsim.circuit_unitary(U_in)
    return deviation_ops(
        U_in, list(out_circuit.radixes), circuit_ops(out_circuit), pi, pf,
        radixes_logical,
    )
