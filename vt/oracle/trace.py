"""Program identity without simulation: per-qudit operation sequences.

Two circuits denote the same *program* iff every qudit sees the same sequence
of (gate, location, params) - projections determine the Mazurkiewicz trace
when dependence means "shares a qudit".
"""
from __future__ import annotations

from vt.oracle.refsim import grid_ops


def op_key(op, loc_map=None, exact_params=True) -> tuple:
    loc = tuple(op.location) if loc_map is None else tuple(
        loc_map[q] for q in op.location
    )
    ps = tuple(float(p) for p in op.params)
    if not exact_params:
        ps = tuple(round(p, 9) for p in ps)
    return (op.gate, loc, ps)


def flat_ops(circuit, loc_map=None, prefix=None):
    """Yield (gate, global location, params) of the fully unfolded circuit in
    an order compatible with every qudit's timeline (grid order, recursing
    into CircuitGates in place)."""
    from bqskit.ir.gates.circuitgate import CircuitGate
    for _, op in grid_ops(circuit):
        loc = tuple(op.location) if loc_map is None else tuple(
            loc_map[q] for q in op.location
        )
        g = op.gate
        if isinstance(g, CircuitGate):
            sub = g._circuit.copy()
            sub.set_params(op.params)
            yield from flat_ops(sub, {i: q for i, q in enumerate(loc)})
        else:
            yield (g, loc, tuple(float(p) for p in op.params))


def projections(flat, n: int) -> list:
    """Per-qudit sequences of op keys from a flat op list."""
    proj = [[] for _ in range(n)]
    for key in flat:
        for q in key[1]:
            proj[q].append(key)
    return proj


def same_program(a_flat, b_flat, n: int):
    """None if equal, else a description of the first difference."""
    pa, pb = projections(a_flat, n), projections(b_flat, n)
    for q in range(n):
        if pa[q] != pb[q]:
            for i, (x, y) in enumerate(zip(pa[q], pb[q])):
                if x != y:
                    return f'qudit {q} position {i}: {_s(x)} vs {_s(y)}'
            return (
                f'qudit {q}: lengths {len(pa[q])} vs {len(pb[q])}'
            )
    return None


def _s(k) -> str:
    return f'{getattr(k[0], "name", k[0])}@{k[1]}{list(k[2])[:3]}'


def multiset(flat) -> dict:
    d: dict = {}
    for k in flat:
        d[k] = d.get(k, 0) + 1
    return d
