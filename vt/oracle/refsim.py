"""Independent numpy tensor simulator.

Qudit 0 is the most significant tensor factor.  Applying a k-qudit matrix M at
``location`` contracts M's input indices with the state axes named by
``location`` in the order given.  Gate matrices are taken from the gate's own
``get_unitary`` (gate definitions are C18's business); composition, ordering,
location handling and parameter slicing are done here.
"""
from __future__ import annotations

import numpy as np


def apply_matrix(t: np.ndarray, radixes, M: np.ndarray, loc) -> np.ndarray:
    """t has shape radixes + (rest...); returns (M on loc) applied from the
    left."""
    loc = list(loc)
    k = len(loc)
    lr = [radixes[q] for q in loc]
    Mt = np.asarray(M, dtype=np.complex128).reshape(lr + lr)
    # contract M's input axes (k..2k-1) with t's axes loc
    r = np.tensordot(Mt, t, axes=(list(range(k, 2 * k)), loc))
    # result axes: M outputs (k) then the remaining axes of t in order
    return np.moveaxis(r, list(range(k)), loc)


def is_placeholder(op) -> bool:
    n = type(op.gate).__name__
    return n in ('BarrierPlaceholder', 'MeasurementPlaceholder', 'Reset')


def grid_ops(circuit):
    """Operations in grid order (cycle-major, then lowest qudit), each once,
    using only ``num_cycles``, ``num_qudits``, ``is_point_idle`` and
    ``__getitem__``."""
    out = []
    for c in range(circuit.num_cycles):
        seen = set()
        for q in range(circuit.num_qudits):
            if circuit.is_point_idle((c, q)):
                continue
            op = circuit[c, q]
            if id(op) in seen:
                continue
            if min(op.location) != q:
                continue
            seen.add(id(op))
            out.append((c, op))
    return out


def op_matrix(op, params=None) -> np.ndarray:
    p = list(op.params) if params is None else list(params)
    return np.asarray(op.gate.get_unitary(p).numpy, dtype=np.complex128)


def unitary_of_ops(radixes, ops) -> np.ndarray:
    """ops: iterable of (matrix, location)."""
    radixes = list(radixes)
    dim = int(np.prod(radixes)) if radixes else 1
    t = np.eye(dim, dtype=np.complex128).reshape(radixes + [dim])
    for M, loc in ops:
        t = apply_matrix(t, radixes, M, loc)
    return t.reshape(dim, dim)


def circuit_unitary(circuit, params=None) -> np.ndarray:
    """Unitary of ``circuit`` from its grid; ``params`` (flat, iteration
    order = grid order) overrides stored parameters."""
    ops = []
    i = 0
    for _, op in grid_ops(circuit):
        if is_placeholder(op):
            continue
        if params is None:
            M = op_matrix(op)
        else:
            n = op.num_params
            M = op_matrix(op, params[i:i + n])
            i += n
        ops.append((M, list(op.location)))
    return unitary_of_ops(circuit.radixes, ops)


def spec_unitary(spec: dict) -> np.ndarray:
    """Unitary of a circuit *spec* (vt.gen.specs) without building a Circuit:
    the ops are applied in list order."""
    from vt.gen.specs import build_gate, is_placeholder as ph
    ops = []
    for o in spec['ops']:
        if ph(o['gate']):
            continue
        g = build_gate(o['gate'])
        M = np.asarray(g.get_unitary(list(o['params'])).numpy)
        ops.append((M, o['loc']))
    return unitary_of_ops(spec['radixes'], ops)


def statevector(radixes, ops, state: np.ndarray) -> np.ndarray:
    radixes = list(radixes)
    t = np.asarray(state, dtype=np.complex128).reshape(radixes)
    for M, loc in ops:
        t = apply_matrix(t, radixes, M, loc)
    return t.reshape(-1)


def hs_distance(U: np.ndarray, V: np.ndarray) -> float:
    """sqrt(1 - |tr(U^dagger V)|^2 / N^2): the repo's documented metric."""
    n = U.shape[0]
    x = abs(np.vdot(U, V)) / n
    return float(np.sqrt(max(0.0, 1.0 - min(1.0, x) ** 2))) if x <= 1 + 1e-9 \
        else float('inf')


def phase_max_diff(U: np.ndarray, V: np.ndarray) -> float:
    """max |U - e^{i phi} V| with the best global phase (stricter than the HS
    distance for large matrices)."""
    ov = np.vdot(V, U)
    if abs(ov) < 1e-300:
        return float(np.abs(U - V).max())
    ph = ov / abs(ov)
    return float(np.abs(U - ph * V).max())
