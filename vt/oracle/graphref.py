"""Textbook graph algorithms used as the reference for CouplingGraph.

Everything works on (n, set of frozenset edges) and plain Python containers.
"""
from __future__ import annotations

import heapq
import itertools as it
from collections import deque


def norm_edges(edges) -> set:
    return {(min(a, b), max(a, b)) for a, b in edges}


def adj(n: int, edges) -> list:
    a = [set() for _ in range(n)]
    for u, v in edges:
        a[u].add(v)
        a[v].add(u)
    return a


def bfs_dist(n: int, edges, src: int, removed=()) -> list:
    a = adj(n, edges)
    d = [None] * n
    if src in removed:
        return d
    d[src] = 0
    dq = deque([src])
    while dq:
        u = dq.popleft()
        for v in a[u]:
            if v in removed or d[v] is not None:
                continue
            d[v] = d[u] + 1
            dq.append(v)
    return d


def connected(n: int, edges, verts=None) -> bool:
    verts = list(range(n)) if verts is None else list(verts)
    if not verts:
        return True
    vs = set(verts)
    sub = [(u, v) for u, v in edges if u in vs and v in vs]
    d = bfs_dist(n, sub, verts[0])
    return all(d[v] is not None for v in verts)


def dijkstra(n: int, weights: dict, src: int) -> list:
    """weights: {(u,v) sorted: w}."""
    a = [[] for _ in range(n)]
    for (u, v), w in weights.items():
        a[u].append((v, w))
        a[v].append((u, w))
    dist = [float('inf')] * n
    dist[src] = 0.0
    pq = [(0.0, src)]
    while pq:
        d, u = heapq.heappop(pq)
        if d > dist[u]:
            continue
        for v, w in a[u]:
            nd = d + w
            if nd < dist[v]:
                dist[v] = nd
                heapq.heappush(pq, (nd, v))
    return dist


def connected_subsets(n: int, edges, k: int) -> set:
    return {
        frozenset(c) for c in it.combinations(range(n), k)
        if connected(n, edges, c)
    }


def monomorphic(n1: int, e1, n2: int, e2) -> bool:
    """Is graph 1 (n1 vertices incl. isolated ones) isomorphic to a (not
    necessarily induced) subgraph of graph 2?"""
    if n1 > n2:
        return False
    e2 = norm_edges(e2)
    e1 = sorted(norm_edges(e1))
    for perm in it.permutations(range(n2), n1):
        ok = True
        for u, v in e1:
            a, b = perm[u], perm[v]
            if (min(a, b), max(a, b)) not in e2:
                ok = False
                break
        if ok:
            return True
    return False
