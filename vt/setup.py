"""Offline setup: make sure hypothesis (and optionally atheris) are importable
by /venv/bin/python; verifies that bqskit is imported from the repo tree."""
from __future__ import annotations

import importlib
import os
import subprocess
import sys

WHEELS = '/opt/veriftools/wheels'
ROOT = os.path.dirname(os.path.dirname(os.path.abspath(__file__)))


def have(mod: str) -> bool:
    try:
        importlib.import_module(mod)
        return True
    except Exception:
        return False


def main() -> int:
    env = dict(os.environ, PIP_NO_INDEX='1')
    if not have('hypothesis'):
        subprocess.check_call(
            [sys.executable, '-m', 'pip', 'install', '--no-index',
             '--find-links', WHEELS, 'hypothesis'], env=env,
        )
    if not have('jsonschema'):
        subprocess.call(
            [sys.executable, '-m', 'pip', 'install', '--no-index',
             '--find-links', WHEELS, 'jsonschema'], env=env,
        )
    deps = os.path.join(ROOT, '.deps')
    sys.path.insert(0, deps)
    if not have('atheris'):
        os.makedirs(deps, exist_ok=True)
        rc = subprocess.call(
            [sys.executable, '-m', 'pip', 'install', '--no-index',
             '--find-links', WHEELS, '--target', deps, 'atheris'], env=env,
        )
        if rc != 0:
            print('note: atheris not installable; fuzz supplements disabled')
    import warnings
    warnings.filterwarnings('ignore')
    import bqskit
    import hypothesis
    print('bqskit from', bqskit.__file__)
    print('hypothesis', hypothesis.__version__)
    os.makedirs(os.path.join(ROOT, 'evidence'), exist_ok=True)
    return 0


if __name__ == '__main__':
    sys.exit(main())
