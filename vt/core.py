"""Core of the verification framework: contexts, outcomes, the
collect-then-shrink Hypothesis driver and case hashing.

A *case* is always a JSON-serialisable value produced by a Hypothesis strategy
(or by an enumerator).  A property module turns a case into real objects and
judges it, returning an ``Outcome``.  Nothing here calls an RNG or depends on
iteration order; the clock is read only to stop generating (inconclusive).
"""
from __future__ import annotations

import hashlib
import json
import os
import time
import traceback
from collections import Counter
from dataclasses import dataclass
from dataclasses import field
from typing import Any
from typing import Callable
from typing import Iterable

VERIF_ROOT = os.path.dirname(os.path.dirname(os.path.abspath(__file__)))


def repo_root() -> str:
    return os.path.abspath(os.environ.get('VT_REPO', '/repo'))


class HarnessError(Exception):
    """Raised when the harness (not the code under test) is broken."""


def canon(case: Any) -> str:
    return json.dumps(case, sort_keys=True, separators=(',', ':'), default=str)


def case_hash(case: Any) -> str:
    return hashlib.sha1(canon(case).encode()).hexdigest()[:16]


@dataclass
class Violation:
    sig: str            # stable signature: clause|frame-or-feature|...
    detail: str         # human readable, may vary
    case: Any = None    # JSON case (filled by the driver)

    def to_json(self) -> dict:
        return {'sig': self.sig, 'detail': self.detail, 'case': self.case}


@dataclass
class Outcome:
    nontrivial: bool = False
    labels: list = field(default_factory=list)
    violations: list = field(default_factory=list)   # list[Violation]
    excluded: int = 0     # case avoided a known-finding trigger by construction
    evals: int = 1        # number of executions this case stands for
    nt_keys: list = field(default_factory=list)  # extra distinct non-trivial keys

    def fail(self, sig: str, detail: str = '') -> None:
        self.violations.append(Violation(sig, detail[:2000]))

    def label(self, *names: str) -> None:
        self.labels.extend(names)


@dataclass
class Ctx:
    prop: str
    tier: str
    seed: int
    shard: int
    nshards: int
    deadline: float          # time.monotonic() value after which generation stops
    scale: float = 1.0       # multiplies example counts (VT_SCALE)
    known_sigs: tuple = ()   # signatures listed as open known findings

    @property
    def hseed(self) -> int:
        return (self.seed * 1000 + self.shard) & 0x7FFFFFFF

    def expired(self) -> bool:
        return time.monotonic() > self.deadline

    def n(self, quick: int, thorough: int) -> int:
        """Per-shard example count for the tier."""
        base = quick if self.tier == 'quick' else thorough
        return max(1, int(base * self.scale))

    def is_known(self, sig: str) -> bool:
        return any(sig_matches(k, sig) for k in self.known_sigs)


def sig_matches(pattern: str, sig: str) -> bool:
    """Known-finding patterns match a whole signature; a trailing '*' allows
    a prefix match (used when the last component is an input feature)."""
    if pattern.endswith('*'):
        return sig.startswith(pattern[:-1])
    return pattern == sig


class ShardResult:
    MAX_SAMPLES = 4

    def __init__(self) -> None:
        self.evaluations = 0
        self.cases = 0
        self.nontrivial: set = set()
        self.labels: Counter = Counter()
        self.samples: list = []
        self.buckets: dict = {}      # sig -> {'count', 'detail', 'case'}
        self.excluded = 0
        self.budget_exhausted = False
        self.extra: dict = {}

    def record(self, case: Any, out: Outcome) -> None:
        self.cases += 1
        self.evaluations += out.evals
        self.excluded += out.excluded
        for lab in out.labels:
            self.labels[lab] += 1
        if out.nontrivial:
            h = case_hash(case)
            if h not in self.nontrivial:
                self.nontrivial.add(h)
                if len(self.samples) < self.MAX_SAMPLES:
                    self.samples.append(case)
        for k in out.nt_keys:
            self.nontrivial.add(k)
        for v in out.violations:
            b = self.buckets.get(v.sig)
            size = len(canon(case))
            if b is None:
                self.buckets[v.sig] = {
                    'count': 1, 'detail': v.detail, 'case': case, 'size': size,
                }
            else:
                b['count'] += 1
                if size < b['size']:
                    b.update(detail=v.detail, case=case, size=size)

    def to_json(self) -> dict:
        return {
            'evaluations': self.evaluations,
            'cases': self.cases,
            'nontrivial': sorted(self.nontrivial),
            'labels': dict(self.labels),
            'samples': self.samples,
            'buckets': self.buckets,
            'excluded': self.excluded,
            'budget_exhausted': self.budget_exhausted,
            'extra': self.extra,
        }


def innermost_repo_frame(exc: BaseException) -> str:
    """'file.py:function' of the innermost traceback frame inside bqskit."""
    root = os.path.join(repo_root(), 'bqskit')
    best = 'outside'
    for fs in traceback.extract_tb(exc.__traceback__):
        fn = os.path.abspath(fs.filename)
        if fn.startswith(root) or '/bqskit/' in fn:
            best = f'{os.path.basename(fn)}:{fs.name}'
    return best


def exc_sig(clause: str, exc: BaseException) -> str:
    return f'{clause}|{type(exc).__name__}|{innermost_repo_frame(exc)}'


class _Found(Exception):
    pass


def _make_pad(nlocals: int = 4200):
    """CPython >= 3.11 keeps interpreter frames in 16 KiB data-stack chunks
    that are mmap'd/munmap'd whenever a call straddles a chunk boundary; under
    Hypothesis' deep stack a hot call often does, and munmap costs ~200 us in
    this VM (60 % of run time was spent there).  Calling the check through a
    function whose own frame is larger than a chunk starts it on a fresh
    64 KiB chunk, so nested calls stay inside it.  Purely a speed measure."""
    src = 'def pad(f, a):\n' + ''.join(
        f'    v{i} = None\n' for i in range(nlocals)
    ) + '    return f(a)\n'
    ns: dict = {}
    exec(src, ns)
    return ns['pad']


_pad = _make_pad()


def padded(check: Callable[[Any], Any]) -> Callable[[Any], Any]:
    def run(case: Any) -> Any:
        return _pad(check, case)
    return run


def run_hypothesis(
    ctx: Ctx,
    res: ShardResult,
    strategy: Any,
    check: Callable[[Any], Outcome],
    max_examples: int,
    shrink: bool = True,
    sub: int = 0,
    max_shrink_sigs: int = 3,
    min_cases: int = 25,
) -> None:
    """Collect-then-shrink driver.

    Pass 1 runs ``check`` on ``max_examples`` generated cases and never raises
    for a violation; failing cases are bucketed by signature.  Pass 2, for each
    bucket that is not a known finding, re-runs the same seeded generation with
    a property that fails only for that signature, so Hypothesis shrinks it;
    the minimal case replaces the recorded one.
    """
    import hypothesis
    from hypothesis import HealthCheck, Phase, given, settings

    hs = (ctx.hseed * 31 + sub) & 0x7FFFFFFF
    check = padded(check)
    common = dict(
        database=None, deadline=None, derandomize=False,
        report_multiple_bugs=False,
        suppress_health_check=list(HealthCheck),
        verbosity=hypothesis.Verbosity.quiet,
    )

    ran = [0]

    @hypothesis.seed(hs)
    @settings(max_examples=max_examples, phases=[Phase.generate], **common)
    @given(strategy)
    def collect(case: Any) -> None:
        # the wall-clock ceiling only applies after a minimum number of cases
        # of this family ran, so that a slow machine yields thin evidence
        # rather than none
        if ctx.expired() and ran[0] >= min_cases:
            res.budget_exhausted = True
            return
        ran[0] += 1
        res.record(case, check(case))

    before = set(res.buckets)
    collect()
    if not shrink:
        return
    new = [s for s in res.buckets if s not in before and not ctx.is_known(s)]
    shrink_deadline = [0.0]
    for sig in new[:max_shrink_sigs]:
        last: list = []

        @hypothesis.seed(hs)
        @settings(
            max_examples=max_examples,
            phases=[Phase.generate, Phase.shrink], **common,
        )
        @given(strategy)
        def hunt(case: Any) -> None:
            if time.monotonic() > shrink_deadline[0]:
                return      # stop shrinking: every further attempt "passes"
            out = check(case)
            for v in out.violations:
                if v.sig == sig:
                    last[:] = [(case, v.detail)]
                    raise _Found()

        shrink_deadline[0] = time.monotonic() + (
            45 if ctx.tier == 'quick' else 240
        )
        if ctx.expired():
            continue      # out of budget: keep the unshrunk case
        try:
            hunt()
        except _Found:
            pass
        except Exception:  # flaky / health: keep the unshrunk case
            pass
        if last:
            case, detail = last[0]
            b = res.buckets[sig]
            size = len(canon(case))
            if size <= b['size']:
                b.update(case=case, detail=detail, size=size, shrunk=True)


def run_enumeration(
    ctx: Ctx,
    res: ShardResult,
    cases: Iterable[Any],
    check: Callable[[Any], Outcome],
) -> bool:
    """Run ``check`` on every case of this shard's slice of a finite space.
    Returns True if the slice was completed."""
    check = padded(check)
    for i, case in enumerate(cases):
        if i % ctx.nshards != ctx.shard:
            continue
        if ctx.expired():
            res.budget_exhausted = True
            return False
        res.record(case, check(case))
    return True
