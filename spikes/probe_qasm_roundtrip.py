import warnings; warnings.filterwarnings('ignore')
import numpy as np, inspect, collections
from bqskit.ir.circuit import Circuit
import bqskit.ir.gates as G
from bqskit.ir.gate import Gate
from bqskit.ir.lang.qasm2 import OPENQASM2Language
rng = np.random.default_rng(0)
for name in G.__all__:
    cls = getattr(G, name)
    if not inspect.isclass(cls) or not issubclass(cls, Gate): continue
    try: g = cls()
    except Exception: continue
    try:
        if not g.is_qubit_only(): continue
        qn = g.qasm_name
    except Exception as e:
        continue
    n = g.num_qudits
    c = Circuit(n+1)
    loc = list(rng.permutation(n+1)[:n])
    p = rng.uniform(-3,3,g.num_params)
    c.append_gate(g, [int(x) for x in loc], p)
    try:
        s = c.to('qasm')
        c2 = OPENQASM2Language().decode(s)
        d = c2.get_unitary().get_distance_from(c.get_unitary())
        if d > 1e-6: print(name, qn, 'DIST', d)
    except Exception as e:
        print(name, qn, 'EXC', type(e).__name__, str(e)[:100])
