import warnings; warnings.filterwarnings('ignore')
import random, sys, time, collections, threading
from bqskit.ir.circuit import Circuit
from simrt import *
from bqskit.compiler.task import CompilationTask
from bqskit.compiler.basepass import BasePass
from bqskit.runtime import get_runtime

class SimLock:
    def __init__(self, il): self.held=False; self.il=il
    def acquire(self):
        while self.held:
            if not self.il.yield_other(): raise RuntimeError('deadlock')
        self.held=True
    def release(self): self.held=False

class Interleaver:
    """Run two callables in two threads, interleaved at source-line granularity
    inside bqskit/runtime/worker.py according to `bits`."""
    def __init__(self): self.active=False
    def run(self, fa, fb, bits):
        self.bits = list(bits); self.sem=[threading.Semaphore(0), threading.Semaphore(0)]
        self.done=[False, False]; self.exc=[None,None]; self.main=threading.Semaphore(0)
        self.cur = None; self.points=0; self.active=True
        fs=[fa,fb]
        def body(i):
            self.sem[i].acquire()
            sys.settrace(self.tracer)
            try: fs[i]()
            except BaseException as e: self.exc[i]=e
            finally:
                sys.settrace(None)
                self.done[i]=True
                o=1-i
                if not self.done[o]: self.cur=o; self.sem[o].release()
                else: self.main.release()
        ts=[threading.Thread(target=body,args=(i,)) for i in (0,1)]
        for t in ts: t.start()
        first = self.bits.pop(0) if self.bits else 0
        self.cur=first; self.sem[first].release()
        self.main.acquire()
        for t in ts: t.join()
        self.active=False
        return self.exc
    def tracer(self, frame, event, arg):
        if event=='call':
            if frame.f_code.co_filename.endswith('runtime/worker.py'): return self.ltrace
            return None
    def ltrace(self, frame, event, arg):
        if event=='line':
            self.points+=1
            b = self.bits.pop(0) if self.bits else 0
            if b: self.yield_other()
        return self.ltrace
    def yield_other(self):
        me=self.cur; o=1-me
        if self.done[o]: return False
        self.cur=o; self.sem[o].release(); self.sem[me].acquire()
        return True

def leaf(x): return ('leaf', x)
class P(BasePass):
    async def run(self, circuit, data):
        rt = get_runtime()
        f = rt.submit(leaf, 7)
        data['res'] = await f

if __name__ == '__main__':
    stats = collections.Counter(); t0=time.time()
    for seed in range(400):
        rng = random.Random(seed)
        sim = Sim(2, rng)
        il = Interleaver()
        task = CompilationTask(Circuit(1), [P()]); task.request_data = True
        sim.cclient.send((M.SUBMIT, task)); sim.cclient.send((M.REQUEST, task.task_id))
        out=None; err=None
        try:
            for step in range(10000):
                if sim.cclient.inn.q: out = pickle.loads(sim.cclient.inn.q.popleft()); break
                acts = sim.actions()
                if not acts: break
                # find overlappable pair on same worker
                pairs = [(a,b) for a in acts for b in acts if a[0]=='w_step' and b[0]=='w_recv' and a[1]==b[1]]
                if pairs and rng.random()<0.7:
                    a,b = rng.choice(pairs); w = sim.workers[a[1]]
                    w.read_receipt_mutex = SimLock(il)
                    bits=[rng.random()<0.3 for _ in range(400)]
                    ex = il.run(lambda: sim.do(a), lambda: sim.do(b), bits)
                    for e in ex:
                        if e is not None: raise e
                else:
                    sim.do(rng.choice(acts))
        except BaseException as e:
            err = e
        if err is not None: stats['EXC %s %s'%(type(err).__name__, str(err)[:80])]+=1
        elif out is None: stats['HANG']+=1
        elif out[0]!=M.RESULT: stats['ERR '+str(out[1]).strip().splitlines()[-1][:100]]+=1
        elif out[1][1]['res']!=('leaf',7): stats['WRONG']+=1
        else: stats['ok']+=1
    print(time.time()-t0)
    for k,v in stats.items(): print(v,k)
