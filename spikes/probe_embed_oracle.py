import time, warnings
warnings.filterwarnings('ignore')
from bqskit.ir.circuit import Circuit
from bqskit.ir.gates import *
from bqskit import compile, MachineModel
from bqskit.compiler import Compiler
from bqskit.qis.graph import CouplingGraph
import numpy as np, random

def apply_op(state, U, loc, radixes):
    """state: tensor with one axis per qudit (qudit 0 most significant)."""
    k = len(loc); n = len(radixes)
    Ut = np.asarray(U).reshape([radixes[q] for q in loc]*2)
    st = np.tensordot(Ut, state, axes=(list(range(k, 2*k)), list(loc)))
    # result axes: loc axes first then the rest in order
    rest = [q for q in range(n) if q not in loc]
    order = list(loc) + rest
    inv = np.argsort(order)
    return np.transpose(st, inv)

def simulate(circ, vec):
    rad = circ.radixes
    st = np.asarray(vec, dtype=complex).reshape(rad)
    for op in circ:
        if type(op.gate).__name__ in ('BarrierPlaceholder','MeasurementPlaceholder'): continue
        st = apply_op(st, op.get_unitary().numpy, list(op.location), rad)
    return st.reshape(-1)

def embed(psi, n_log, mapping, n_phys, radix=2):
    """place logical qudit i at physical mapping[i], others |0>."""
    t = np.asarray(psi).reshape([radix]*n_log)
    full = np.zeros([radix]*n_phys, dtype=complex)
    idx = [0]*n_phys
    # build via outer: easier: iterate basis
    for b in np.ndindex(*([radix]*n_log)):
        i = [0]*n_phys
        for l, v in enumerate(b): i[mapping[l]] = v
        full[tuple(i)] = t[b]
    return full.reshape(-1)

if __name__ == '__main__':
    rng = random.Random(5); nrng = np.random.default_rng(5)
    comp = Compiler(num_workers=4)
    worst = 0
    for trial in range(12):
        n = rng.randint(2,4); depth = rng.randint(3,10)
        c = Circuit(n)
        for _ in range(depth):
            k = rng.choice([1,2,2])
            loc = rng.sample(range(n), k)
            if k==1: c.append_gate(U3Gate(), loc, [rng.random()*6 for _ in range(3)])
            else: c.append_gate(rng.choice([CNOTGate(), CZGate()]), loc)
        m = n + rng.randint(0,2)
        model = MachineModel(m, CouplingGraph.linear(m) if rng.random()<0.5 else CouplingGraph.star(m))
        lvl = rng.choice([1,1,2,3])
        out, pi, pf = compile(c, model, optimization_level=lvl, compiler=comp, with_mapping=True, seed=trial)
        psi = nrng.normal(size=2**n) + 1j*nrng.normal(size=2**n); psi /= np.linalg.norm(psi)
        lhs = simulate(out, embed(psi, n, pi, m))
        rhs = embed(simulate(c, psi), n, pf, m)
        fid = abs(np.vdot(lhs, rhs))
        worst = max(worst, 1-fid)
        print(trial, n, m, lvl, pi, pf, 'infid %.2e' % (1-fid), model.is_compatible(out))
    comp.close()
