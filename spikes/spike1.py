import warnings; warnings.filterwarnings('ignore')
import random, sys, time
from bqskit.ir.circuit import Circuit
from simrt import *
from bqskit.compiler.task import CompilationTask
from bqskit.compiler.basepass import BasePass
from bqskit.runtime import get_runtime

def leaf(x): return ('leaf', x)
async def mid(x):
    r = await get_runtime().map(leaf, [x*10+i for i in range(3)])
    f = get_runtime().submit(leaf, x*100)
    r2 = await f
    return ('mid', x, r, r2)

class P(BasePass):
    async def run(self, circuit, data):
        fut = get_runtime().map(mid, [1,2,3,4])
        res = await fut
        data['res'] = res

if __name__ == '__main__':
    t0=time.time(); n=0
    for seed in range(300):
        rng = random.Random(seed)
        sim = Sim(rng.randint(1,4), rng)
        task = CompilationTask(Circuit(1), [P()]); task.request_data = True
        sim.cclient.send((M.SUBMIT, task))
        sim.cclient.send((M.REQUEST, task.task_id))
        out = sim.run_until_client_msg()
        if out is None: print(seed, 'HANG', sim.log[-10:]); break
        msg, payload = out
        if msg != M.RESULT: print(seed, msg, str(payload)[:2000]); break
        exp = [('mid', x, [('leaf', x*10+i) for i in range(3)], ('leaf', x*100)) for x in [1,2,3,4]]
        assert payload[1]['res'] == exp, payload[1]['res']
        n += len(sim.log)
        # drain to quiescence and check tables
        while True:
            acts = sim.actions()
            if not acts: break
            sim.do(rng.choice(acts))
        s = sim.server
        bad = [(e.id, e.num_tasks, e.num_idle_workers) for e in s.employees if e.num_tasks != 0 or e.num_idle_workers != 1]
        if bad or s.num_idle_workers != s.total_workers: print(seed, 'BOOKKEEPING', bad, s.num_idle_workers)
        for w in sim.workers:
            if w._tasks or w._mailboxes or w._delayed_tasks: print(seed, 'LEFTOVER', w._id, w._tasks, w._mailboxes)
    print('ok', time.time()-t0, 'actions', n)
