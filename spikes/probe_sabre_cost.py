"""Probes: (C) SABRE workflow in-process + embed oracle; (B) native cost vs numpy incl. user-defined gate."""
import warnings; warnings.filterwarnings('ignore')
import random, numpy as np, collections
from bqskit.ir.circuit import Circuit
from bqskit.ir.gates import *
from bqskit.ir.gate import Gate
from bqskit.compiler.passdata import PassData
from bqskit.compiler.machine import MachineModel
from bqskit.qis.graph import CouplingGraph
from bqskit.passes import *
from probe_embed_oracle import simulate, embed

def run_pass(p, c, d):
    co = p.run(c, d)
    try: co.send(None)
    except StopIteration: return
    raise RuntimeError('awaited')

rng = random.Random(0); nrng = np.random.default_rng(0); st = collections.Counter()
for t in range(300):
    n = rng.randint(2,6); m = n + rng.randint(0,3)
    edges = [(i, rng.randrange(i)) for i in range(1, m)] + [tuple(rng.sample(range(m),2)) for _ in range(rng.randint(0,2))]
    g = CouplingGraph(edges, m)
    c = Circuit(n)
    for _ in range(rng.randint(1,25)):
        k = rng.choice([1,2,2,3]) if n>=3 else rng.choice([1,2])
        loc = rng.sample(range(n), k)
        if k==1: c.append_gate(U3Gate(), loc, [rng.random()*6 for _ in range(3)])
        elif k==2: c.append_gate(rng.choice([CNOTGate(), CZGate(), ISwapGate()]), loc)
        else: c.append_gate(ToffoliGate(), loc)
    cin = c.copy(); d = PassData(c)
    try:
        for p in [SetModelPass(MachineModel(m, g)), GreedyPlacementPass(), GeneralizedSabreLayoutPass(rng.randint(1,3)), GeneralizedSabreRoutingPass(extended_set_size=rng.choice([0,1,20])), ApplyPlacement()]:
            run_pass(p, c, d)
    except Exception as e:
        st['EXC '+type(e).__name__+' '+str(e)[:60]] += 1; continue
    pi, pf = d.initial_mapping, d.final_mapping
    psi = nrng.normal(size=2**n)+1j*nrng.normal(size=2**n); psi/=np.linalg.norm(psi)
    lhs = simulate(c, embed(psi, n, pi, m)); rhs = embed(simulate(cin, psi), n, pf, m)
    ok = abs(abs(np.vdot(lhs, rhs))-1) < 1e-9
    conn = all(g.get_subgraph(list(op.location)).is_fully_connected() for op in c if op.num_qudits>1)
    swaps = c.count(SwapGate())
    st['ok' if ok and conn else 'BAD sem=%s conn=%s'%(ok,conn)] += 1
    st['with_swaps'] += swaps>0
print(dict(st))

# (B) cost differential incl. python-defined gate
from bqskit.ir.opt.cost.functions import HilbertSchmidtCostGenerator, HilbertSchmidtResidualsGenerator
from bqskit.qis.unitary.unitarymatrix import UnitaryMatrix
from bqskit.ir.gates.quditgate import QuditGate as QubitGate
class MyRY(QubitGate):
    _num_qudits = 1; _num_params = 1; _qasm_name='myry'; _radix = 2; _name='MyRY'
    def is_differentiable(self): return True
    def get_unitary(self, params=[]):
        c, s = np.cos(params[0]/2), np.sin(params[0]/2)
        return UnitaryMatrix([[c,-s],[s,c]])
    def get_grad(self, params=[]):
        c, s = np.cos(params[0]/2)/2, np.sin(params[0]/2)/2
        return np.array([[[-s,-c],[c,-s]]], dtype=np.complex128)
bad = 0
for t in range(200):
    n = rng.randint(1,3); c = Circuit(n)
    for _ in range(rng.randint(1,8)):
        k = rng.choice([1,2]) if n>1 else 1; loc = rng.sample(range(n), k)
        if k==1: c.append_gate(rng.choice([U3Gate(), MyRY(), RZGate()]), loc)
        else: c.append_gate(rng.choice([CNOTGate(), RZZGate(), CRYGate()]), loc)
    p = nrng.uniform(-4,4,c.num_params); T = UnitaryMatrix.random(n)
    U = c.get_unitary(p); ref = 1-abs(np.trace(T.conj().T @ U))/2**n
    cost = HilbertSchmidtCostGenerator().gen_cost(c, T)
    if abs(cost.get_cost(p)-ref) > 1e-10: bad += 1
    if c.num_params:
        g = cost.get_grad(p); eps=1e-6
        fd = np.array([( (1-abs(np.trace(T.conj().T @ c.get_unitary(p+eps*np.eye(len(p))[i])))/2**n) - (1-abs(np.trace(T.conj().T @ c.get_unitary(p-eps*np.eye(len(p))[i])))/2**n) )/(2*eps) for i in range(len(p))])
        if not np.allclose(g, fd, atol=1e-5): bad += 1
print('cost mismatches', bad)
