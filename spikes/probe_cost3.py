import warnings; warnings.filterwarnings('ignore')
import numpy as np
from bqskit.ir.circuit import Circuit
from bqskit.ir.gates import *
import bqskit.ir.gates as G, inspect
from bqskit.ir.gate import Gate
from bqskit.ir.opt.cost.functions import HilbertSchmidtCostGenerator, HilbertSchmidtResidualsGenerator
from bqskit.qis.unitary.unitarymatrix import UnitaryMatrix
nrng = np.random.default_rng(1)
def refcost(c,p,T): return 1-abs(np.trace(T.conj().T @ c.get_unitary(p)))/T.shape[0]
bad = {}
for name in G.__all__:
    cls = getattr(G, name)
    if not inspect.isclass(cls) or not issubclass(cls, Gate): continue
    try: g = cls()
    except Exception: continue
    try:
        if g.num_params == 0 or not g.is_differentiable(): continue
        n = g.num_qudits
        for loc in ([list(range(n))] + ([list(reversed(range(n)))] if n>1 else [])):
            c = Circuit(n, g.radixes); c.append_gate(g, loc)
            for t in range(3):
                p = nrng.uniform(-3,3,g.num_params); T = UnitaryMatrix.random(n, g.radixes)
                cost = HilbertSchmidtCostGenerator().gen_cost(c, T)
                if abs(cost.get_cost(p)-refcost(c,p,T))>1e-9: bad.setdefault(name,set()).add('cost')
                gr = cost.get_grad(p); eps=1e-6; I=np.eye(len(p))
                fd = np.array([(refcost(c,p+eps*I[i],T)-refcost(c,p-eps*I[i],T))/(2*eps) for i in range(len(p))])
                if not np.allclose(gr, fd, atol=1e-5): bad.setdefault(name,set()).add('grad loc=%s'%loc)
    except Exception as e:
        bad.setdefault(name,set()).add('EXC '+type(e).__name__+' '+str(e)[:60])
for k,v in bad.items(): print(k, sorted(v))
print('done')
