import warnings; warnings.filterwarnings('ignore')
import numpy as np, time
t=time.time()
import qiskit
from qiskit import qasm2
from qiskit.quantum_info import Operator
print('qiskit import', time.time()-t, qiskit.__version__)
from bqskit.ir.circuit import Circuit
from bqskit.ir.lang.qasm2 import OPENQASM2Language
src = '''OPENQASM 2.0;
include "qelib1.inc";
gate foo(a,b) x,y { rz(a/2+b) x; cx x,y; u3(-a,b*2,pi/4) y; }
qreg q[2];
qreg r[1];
foo(0.3, -pi/3) q[1], r[0];
h q[0];
cu1(-pi/2+0.25*3) q[0], q[1];
'''
qc = qasm2.loads(src, custom_instructions=qasm2.LEGACY_CUSTOM_INSTRUCTIONS)
Uq = Operator(qc.reverse_bits()).data
try:
    c = OPENQASM2Language().decode(src)
    Ub = c.get_unitary().numpy
    ph = np.vdot(Uq.flatten(), Ub.flatten())
    print('overlap', abs(ph)/Uq.shape[0])
except Exception as e:
    print('ERR', type(e).__name__, str(e)[:300])
