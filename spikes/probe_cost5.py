import warnings; warnings.filterwarnings('ignore')
import numpy as np, inspect
from bqskit.ir.circuit import Circuit
import bqskit.ir.gates as G
from bqskit.ir.gate import Gate
nrng = np.random.default_rng(0)
for name in G.__all__:
    cls = getattr(G, name)
    if not inspect.isclass(cls) or not issubclass(cls, Gate): continue
    try: g = cls()
    except Exception: continue
    if not hasattr(g, '_expr') or g.num_params == 0: continue
    p = nrng.uniform(-3,3,g.num_params); eps=1e-6; I=np.eye(len(p))
    eg = np.array(g._expr.gradient(*p))
    fd = np.array([(np.array(g._expr(*(p+eps*I[i])))-np.array(g._expr(*(p-eps*I[i]))))/(2*eps) for i in range(len(p))])
    if not np.allclose(eg, fd, atol=1e-5): print(name, 'expr.gradient != FD of expr'); print(np.round(eg[0],3)); print(np.round(fd[0],3))
    if type(g).get_grad is not Gate.get_grad and not np.allclose(g.get_grad(p), eg, atol=1e-8): print(name, 'hand grad != expr grad')
print('done')
