"""Spike: hierarchical topology server -> managers -> workers in the single-threaded sim."""
import warnings; warnings.filterwarnings('ignore')
import random, time, collections, signal as _s
from simrt import *
from bqskit.runtime.manager import Manager
from bqskit.compiler.task import CompilationTask
from bqskit.compiler.basepass import BasePass
from bqskit.ir.circuit import Circuit
from bqskit.runtime import get_runtime

def leaf(x): return ('leaf', x)
async def mid(x):
    r = await get_runtime().map(leaf, [x*10+i for i in range(3)])
    return ('mid', x, r)
class P(BasePass):
    async def run(self, circuit, data):
        data['res'] = await get_runtime().map(mid, [1,2,3,4,5])

class HSim:
    def __init__(self, nman, nw, rng):
        self.rng=rng; fac=logging.getLogRecordFactory()
        def mk(cls):
            with patched(bmod, Thread=StubThread), patched(_s, signal=lambda *a: None):
                n = cls.__new__(cls); ServerBase.__init__(n)
            n.sel=FakeSel(); n.outgoing=OutQueue(); return n
        s=self.server=mk(DetachedServer)
        s.clients={}; s.tasks={}; s.mailbox_to_task_dict={}; s.mailboxes={}; s.mailbox_counter=0
        s.step_size=(s.upper_id_bound-s.lower_id_bound)//nman
        self.links=[]   # (upper node, upper conn, lower node, lower conn, kind)
        self.managers=[]; self.workers=[]
        s.total_workers=0
        for i in range(nman):
            m=mk(Manager)
            up, down = link('S', f'M{i}')   # up: server side, down: manager side
            m.upstream=down
            m.lower_id_bound=s.lower_id_bound+i*s.step_size
            m.upper_id_bound=min(s.lower_id_bound+(i+1)*s.step_size, s.upper_id_bound)
            for j in range(nw):
                mc, wc = link(f'M{i}', f'W{i}.{j}')
                wid=m.lower_id_bound+j
                with patched(wmod, Thread=StubThread): w=Worker(wid, wc)
                logging.setLogRecordFactory(fac)
                w._ready_task_ids=SimQueue(); wc.out.q.popleft()
                e=RuntimeEmployee(wid, mc, 1); m.employees.append(e); m.conn_to_employee_dict[mc]=e
                self.workers.append(w); self.links.append((m, mc, w, wc))
            m.step_size=1; m.total_workers=nw; m.num_idle_workers=nw
            m.last_num_idle_sent_up=nw; m.most_recent_read_submit=None
            e=RuntimeEmployee(i, up, nw, is_manager=True); s.employees.append(e); s.conn_to_employee_dict[up]=e
            s.total_workers+=nw
            self.managers.append(m); self.links.append((s, up, m, down))
        s.num_idle_workers=s.total_workers
        self.sclient,self.cclient=link('S','C'); s.clients[self.sclient]=set()
    def flush(self,n):
        try: n.send_outgoing()
        except StopLoop: pass
    def actions(self):
        a=[]
        for k,(un,uc,ln,lc) in enumerate(self.links):
            if lc.out.q: a.append(('up',k))
            if uc.out.q: a.append(('down',k))
        for i,w in enumerate(self.workers):
            q=w._ready_task_ids
            if not q.blocked or q.q or w._delayed_tasks: a.append(('step',i))
        if self.cclient.out.q: a.append(('client',))
        return a
    def do(self,act):
        if act[0]=='up':
            un,uc,ln,lc=self.links[act[1]]
            msg,payload=pickle.loads(lc.out.q.popleft())
            un.handle_message(msg, D.BELOW, uc, payload); self.flush(un)
        elif act[0]=='down':
            un,uc,ln,lc=self.links[act[1]]
            if isinstance(ln, Worker):
                lc._deliver=pickle.loads(uc.out.q.popleft())
                try: ln.recv_incoming()
                except StopLoop: pass
            else:
                msg,payload=pickle.loads(uc.out.q.popleft())
                ln.handle_message(msg, D.ABOVE, lc, payload); self.flush(ln)
        elif act[0]=='client':
            msg,payload=pickle.loads(self.cclient.out.q.popleft())
            self.server.handle_message(msg, D.CLIENT, self.sclient, payload); self.flush(self.server)
        else:
            w=self.workers[act[1]]; q=w._ready_task_ids; q.budget=1; q.blocked=False; TL.worker=w
            try: w._loop()
            except (Yield, WouldBlock): pass
            finally: TL.worker=None

if __name__=='__main__':
    st=collections.Counter(); t0=time.time(); na=0
    for seed in range(300):
        rng=random.Random(seed)
        sim=HSim(rng.randint(1,3), rng.randint(1,3), rng)
        task=CompilationTask(Circuit(1),[P()]); task.request_data=True
        sim.cclient.send((M.SUBMIT,task)); sim.cclient.send((M.REQUEST,task.task_id))
        out=None
        try:
            for _ in range(100000):
                if sim.cclient.inn.q: out=pickle.loads(sim.cclient.inn.q.popleft()); break
                a=sim.actions()
                if not a: break
                sim.do(rng.choice(a)); na+=1
        except Exception as e:
            st['EXC %s %s'%(type(e).__name__, str(e)[:80])]+=1; continue
        if out is None: st['HANG']+=1; continue
        if out[0]!=M.RESULT: st['ERR '+str(out[1]).strip().splitlines()[-1][:90]]+=1; continue
        exp=[('mid',x,[('leaf',x*10+i) for i in range(3)]) for x in [1,2,3,4,5]]
        st['ok' if out[1][1]['res']==exp else 'WRONG']+=1
        try:
            while True:
                a=sim.actions()
                if not a: break
                sim.do(rng.choice(a))
        except Exception as e:
            st['EXC-drain %s %s'%(type(e).__name__, str(e)[:80])]+=1; continue
        s=sim.server
        if s.num_idle_workers!=s.total_workers or any(e.num_tasks for e in s.employees): st['srv-bookkeeping-off']+=1
        for m in sim.managers:
            if m.num_idle_workers!=m.total_workers or any(e.num_tasks for e in m.employees): st['mgr-bookkeeping-off']+=1; break
    print(time.time()-t0, na)
    for k,v in st.items(): print(v,k)
