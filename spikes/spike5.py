import warnings; warnings.filterwarnings('ignore')
import random, sys, time, collections, threading
from spike3 import Interleaver, SimLock, leaf
from simrt import *
from bqskit.ir.circuit import Circuit
from bqskit.compiler.task import CompilationTask
from bqskit.compiler.basepass import BasePass
from bqskit.runtime import get_runtime

class P2(BasePass):
    async def run(self, circuit, data):
        rt = get_runtime()
        f = rt.submit(leaf, 7)
        g = rt.submit(leaf, 8)
        a = await f
        b = await g
        data['res'] = (a, b)

if __name__ == '__main__':
    stats = collections.Counter(); t0=time.time(); pts=0
    for seed in range(1500):
        rng = random.Random(seed)
        sim = Sim(2, rng)
        il = Interleaver()
        task = CompilationTask(Circuit(1), [P2()]); task.request_data = True
        sim.cclient.send((M.SUBMIT, task)); sim.cclient.send((M.REQUEST, task.task_id))
        out=None; err=None
        try:
            for step in range(10000):
                if sim.cclient.inn.q: out = pickle.loads(sim.cclient.inn.q.popleft()); break
                acts = sim.actions()
                if not acts: break
                steps = [a for a in acts if a[0]=='w_step']
                if steps and rng.random()<0.8:
                    a = rng.choice(steps); w = sim.workers[a[1]]
                    w.read_receipt_mutex = SimLock(il)
                    m = rng.randint(1, 14)
                    def others():
                        for _ in range(m):
                            oa = [x for x in sim.actions() if not (x[0]=='w_step' and x[1]==a[1])]
                            if not oa: return
                            sim.do(rng.choice(oa))
                    k = rng.randint(0, 90)
                    bits=[0]+[0]*k+[1]      # main runs k lines, then others run to completion, then main finishes
                    ex = il.run(lambda: sim.do(a), others, bits)
                    pts += il.points
                    for e in ex:
                        if e is not None: raise e
                else:
                    sim.do(rng.choice(acts))
        except BaseException as e:
            err = e
        if err is not None: stats['EXC %s %s'%(type(err).__name__, str(err)[:80])]+=1
        elif out is None: stats['HANG']+=1
        elif out[0]!=M.RESULT:
            stats['ERR '+str(out[1]).strip().splitlines()[-1][:100]]+=1
            if stats['shown']<1: stats['shown']+=1; print(out[1])
        elif out[1][1]['res']!=(('leaf',7),('leaf',8)): stats['WRONG']+=1
        else: stats['ok']+=1
    print(time.time()-t0, 'line points', pts)
    for k,v in stats.items(): print(v,k)
