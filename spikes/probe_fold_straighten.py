import warnings, random, collections
warnings.filterwarnings('ignore')
from bqskit.ir.circuit import Circuit
from bqskit.ir.gates import *
from bqskit.ir.region import CircuitRegion
def per_qudit(c):
    seqs = {q: [] for q in range(c.num_qudits)}
    for op in c:
        for q in op.location: seqs[q].append((op.gate.name, tuple(op.location), tuple(op.params)))
    return seqs
def flat(c):
    d = c.copy(); d.unfold_all(); return per_qudit(d)
rng = random.Random(0); st = collections.Counter()
ex = {}
for t in range(4000):
    n = rng.randint(2,4); c = Circuit(n)
    for _ in range(rng.randint(1,10)):
        k = rng.choice([1,2]); loc = rng.sample(range(n), k)
        if rng.random()<0.3 and c.num_cycles: 
            (c.insert_gate(rng.randint(0,c.num_cycles), HGate(), loc[0]) if k==1 else c.insert_gate(rng.randint(0,c.num_cycles), CNOTGate(), loc))
        else:
            (c.append_gate(U3Gate(), loc, [rng.random()]*3) if k==1 else c.append_gate(CNOTGate(), loc))
    before = flat(c); rep = repr(c)
    qs = rng.sample(range(n), rng.randint(1,n))
    reg = {}
    for q in qs:
        a = rng.randint(0, c.num_cycles-1); b = rng.randint(a, c.num_cycles-1); reg[q]=(a,b)
    try:
        mode = rng.choice(['fold','straighten'])
        if mode=='fold': c.fold(reg)
        else: c.straighten(reg)
    except ValueError as e:
        st['ValueError']+=1
        if flat(c)!=before: st['mutated-on-error']+=1; ex.setdefault('mut',(rep,reg,mode,str(e)))
        continue
    except Exception as e:
        k='EXC '+type(e).__name__; st[k]+=1; ex.setdefault(k,(rep,reg,mode,str(e))); continue
    st['ok-'+mode]+=1
    if flat(c)!=before: st['ORDER-'+mode]+=1; ex.setdefault('order-'+mode,(rep,reg,repr(c)))
    if any(all(x is None for x in cyc) for cyc in c._circuit): st['EMPTYCYCLE-'+mode]+=1; ex.setdefault('empty-'+mode,(rep,reg,repr(c)))
print(st)
for k,v in ex.items(): print(k, *v, sep='\n  ')
