import warnings; warnings.filterwarnings('ignore')
import random, numpy as np, collections
from bqskit.ir.circuit import Circuit
from bqskit.ir.gates import *
from bqskit.ir.gates.quditgate import QuditGate
from bqskit.ir.opt.cost.functions import HilbertSchmidtCostGenerator
from bqskit.qis.unitary.unitarymatrix import UnitaryMatrix
class MyRY(QuditGate):
    _num_qudits = 1; _num_params = 1; _qasm_name='myry'; _radix = 2; _name='MyRY'
    def is_differentiable(self): return True
    def get_unitary(self, params=[]):
        c, s = np.cos(params[0]/2), np.sin(params[0]/2)
        return UnitaryMatrix([[c,-s],[s,c]])
    def get_grad(self, params=[]):
        c, s = np.cos(params[0]/2)/2, np.sin(params[0]/2)/2
        return np.array([[[-s,-c],[c,-s]]], dtype=np.complex128)
rng = random.Random(0); nrng = np.random.default_rng(0); st = collections.Counter()
def refcost(c,p,T,n): return 1-abs(np.trace(T.conj().T @ c.get_unitary(p)))/2**n
for t in range(400):
    n = rng.randint(1,3); c = Circuit(n); names=set()
    for _ in range(rng.randint(1,8)):
        k = rng.choice([1,2]) if n>1 else 1; loc = rng.sample(range(n), k)
        g = rng.choice([U3Gate(), MyRY(), RZGate()]) if k==1 else rng.choice([CNOTGate(), RZZGate(), CRYGate()])
        names.add(g.name); c.append_gate(g, loc)
    p = nrng.uniform(-4,4,c.num_params); T = UnitaryMatrix.random(n)
    cost = HilbertSchmidtCostGenerator().gen_cost(c, T)
    dc = abs(cost.get_cost(p)-refcost(c,p,T,n))
    key = 'my' if 'MyRY' in names else 'lib'
    if dc > 1e-10: st[key+' COST']+=1
    if c.num_params:
        g = cost.get_grad(p); eps=1e-6; I=np.eye(len(p))
        fd = np.array([(refcost(c,p+eps*I[i],T,n)-refcost(c,p-eps*I[i],T,n))/(2*eps) for i in range(len(p))])
        if not np.allclose(g, fd, atol=1e-5):
            st[key+' GRAD']+=1
            if st[key+' GRAD']<=2: print(key, sorted(names), [op for op in c], '\n g ', np.round(g,4), '\n fd', np.round(fd,4))
    st[key+' total']+=1
print(dict(st))
