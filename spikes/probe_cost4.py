import warnings; warnings.filterwarnings('ignore')
import numpy as np
from bqskit.ir.circuit import Circuit
from bqskit.ir.gates import CRYGate, CRXGate
from bqskit.ir.opt.cost.functions import HilbertSchmidtCostGenerator
from bqskit.qis.unitary.unitarymatrix import UnitaryMatrix
g = CRYGate(); p = np.array([0.7]); eps=1e-6
fdU = (g.get_unitary(p+eps).numpy - g.get_unitary(p-eps).numpy)/(2*eps)
print('python grad ok:', np.allclose(g.get_grad(p)[0], fdU, atol=1e-6))
print(np.round(g.get_grad(p)[0],4))
c = Circuit(2); c.append_gate(g, (0,1))
T = UnitaryMatrix.identity(4)
cost = HilbertSchmidtCostGenerator().gen_cost(c, T)
# python-side gradient of cost from circuit.get_unitary_and_grad
U, dU = c.get_unitary_and_grad(p)
tr = np.trace(T.conj().T @ U); dtr = np.trace(T.conj().T @ dU[0])
pyg = -np.real(np.conj(tr)*dtr)/abs(tr)/4
print('native', cost.get_grad(p), 'python-chain', pyg)
nrng = np.random.default_rng(0)
for t in range(4):
    T = UnitaryMatrix.random(2)
    cost = HilbertSchmidtCostGenerator().gen_cost(c, T)
    U, dU = c.get_unitary_and_grad(p)
    tr = np.trace(T.conj().T @ U); dtr = np.trace(T.conj().T @ dU[0])
    pyg = -np.real(np.conj(tr)*dtr)/abs(tr)/4
    ref = lambda q: 1-abs(np.trace(T.conj().T @ c.get_unitary(q)))/4
    print('native', cost.get_grad(p)[0], 'python-chain', pyg, 'fd', (ref(p+eps)-ref(p-eps))/(2*eps))
