"""Spike: throughput of a Hypothesis RuleBasedStateMachine over Circuit edits with a grid-invariant check."""
import warnings; warnings.filterwarnings('ignore')
import os, time, collections
import hypothesis
from hypothesis import settings, strategies as st, HealthCheck
from hypothesis.stateful import RuleBasedStateMachine, rule, invariant, precondition, run_state_machine_as_test
from bqskit.ir.circuit import Circuit
from bqskit.ir.gates import HGate, CNOTGate, U3Gate, ToffoliGate
STEPS = collections.Counter()
class M(RuleBasedStateMachine):
    def __init__(self):
        super().__init__(); self.c = Circuit(3); self.err = None
    def ops(self):
        return [(i, q) for i in range(self.c.num_cycles) for q in range(self.c.num_qudits) if not self.c.is_point_idle((i, q))]
    @rule(data=st.data())
    def append(self, data):
        k = data.draw(st.integers(1, 3)); loc = data.draw(st.permutations(range(3)))[:k]
        g = [HGate(), CNOTGate(), ToffoliGate()][k-1]
        self.c.append_gate(g, loc); STEPS['append'] += 1
    @rule(data=st.data(), cyc=st.integers(-6, 12))
    def insert(self, data, cyc):
        k = data.draw(st.integers(1, 2)); loc = data.draw(st.permutations(range(3)))[:k]
        self.c.insert_gate(cyc, [HGate(), CNOTGate()][k-1], loc); STEPS['insert'] += 1
    @precondition(lambda self: self.c.num_operations > 0)
    @rule(data=st.data())
    def pop(self, data):
        p = data.draw(st.sampled_from(self.ops()))
        try: self.c.pop(p)
        except KeyError as e: STEPS['KeyError-pop'] += 1; self.c = Circuit(3)
        STEPS['pop'] += 1
    @rule(perm=st.permutations(range(3)))
    def renumber(self, perm):
        self.c.renumber_qudits(perm); STEPS['renumber'] += 1
    @precondition(lambda self: self.c.num_cycles > 0)
    @rule(data=st.data())
    def fold(self, data):
        reg = {}
        for q in data.draw(st.lists(st.integers(0, 2), min_size=1, max_size=3, unique=True)):
            a = data.draw(st.integers(0, self.c.num_cycles-1)); b = data.draw(st.integers(a, self.c.num_cycles-1)); reg[q] = (a, b)
        try: self.c.fold(reg); STEPS['fold-ok'] += 1
        except ValueError: STEPS['fold-rej'] += 1
        except KeyError: STEPS['KeyError-fold'] += 1; self.c = Circuit(3)
    @invariant()
    def views(self):
        c = self.c; n = 0
        for i in range(c.num_cycles):
            if all(c.is_point_idle((i, q)) for q in range(c.num_qudits)): STEPS['IDLE-CYCLE'] += 1
        assert sum(1 for _ in c) == c.num_operations
if __name__ == '__main__':
    t0 = time.time()
    run_state_machine_as_test(hypothesis.seed(1)(M), settings=settings(max_examples=300, stateful_step_count=40, deadline=None, database=None, suppress_health_check=list(HealthCheck)))
    dt = time.time()-t0
    print(dict(STEPS)); print('steps/s', sum(v for k, v in STEPS.items() if k in ('append','insert','pop','renumber','fold-ok','fold-rej'))/dt, 'wall', dt)
