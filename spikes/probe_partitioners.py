import warnings, random
warnings.filterwarnings('ignore')
import numpy as np
from bqskit.ir.circuit import Circuit
from bqskit.ir.gates import *
from bqskit.compiler.passdata import PassData
from bqskit.passes import *

def run_pass(p, circuit, data=None):
    data = data or PassData(circuit)
    coro = p.run(circuit, data)
    try:
        coro.send(None)
    except StopIteration:
        return data
    raise RuntimeError('pass awaited')

def per_qudit(c):
    seqs = {q: [] for q in range(c.num_qudits)}
    for op in c:
        for q in op.location:
            seqs[q].append((op.gate, tuple(op.location), tuple(op.params)))
    return seqs

def rand_circ(rng, n, depth, three=True):
    c = Circuit(n)
    for _ in range(depth):
        k = rng.choice([1,2,2,3] if three and n>=3 else [1,2])
        loc = rng.sample(range(n), k)
        if k == 1: c.append_gate(U3Gate(), loc, [rng.random() for _ in range(3)])
        elif k == 2: c.append_gate(rng.choice([CNOTGate(), CZGate()]), loc)
        else: c.append_gate(ToffoliGate(), loc)
    return c

rng = random.Random(1)
for name, mk in [('quick', lambda b: QuickPartitioner(b)), ('scan', lambda b: ScanPartitioner(b)), ('cluster', lambda b: ClusteringPartitioner(b, 4)), ('greedy', lambda b: GreedyPartitioner(b))]:
    bad = 0; err = 0; N = 150
    for i in range(N):
        n = rng.randint(3, 6)
        c = rand_circ(rng, n, rng.randint(3, 25))
        ref = per_qudit(c)
        b = rng.randint(2, 4)
        try:
            run_pass(mk(b), c)
            c.unfold_all()
            if per_qudit(c) != ref: bad += 1
        except Exception as e:
            err += 1
            if err < 3: print(name, 'EXC', type(e).__name__, str(e)[:100])
    print(name, 'bad', bad, 'err', err, 'of', N)
