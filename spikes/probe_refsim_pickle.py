import warnings; warnings.filterwarnings('ignore')
import random, pickle, numpy as np, collections
from bqskit.ir.circuit import Circuit
from bqskit.ir.gates import *
from bqskit.qis.unitary.unitarymatrix import UnitaryMatrix
from probe_embed_oracle import apply_op
def ref_unitary(c):
    rad = c.radixes; dim = int(np.prod(rad)); n=len(rad)
    U = np.eye(dim, dtype=complex).reshape(list(rad)+[dim])
    for cyc in range(c.num_cycles):
        seen=set()
        for q in range(n):
            if c.is_point_idle((cyc,q)): continue
            op = c[cyc,q]
            if id(op) in seen: continue
            seen.add(id(op))
            M = op.get_unitary().numpy
            k=len(op.location); loc=list(op.location)
            Mt = M.reshape([rad[x] for x in loc]*2)
            U = np.tensordot(Mt, U, axes=(list(range(k,2*k)), loc))
            order = loc + [x for x in range(n) if x not in loc] + [n]
            U = np.transpose(U, np.argsort(order))
    return U.reshape(dim, dim)
rng = random.Random(0); st=collections.Counter()
for t in range(400):
    n = rng.randint(1,4); rad = [rng.choice([2,2,3,4]) for _ in range(n)]
    c = Circuit(n, rad)
    for _ in range(rng.randint(1,12)):
        k = rng.choice([1,2,3][:n]); loc = rng.sample(range(n), k)
        U = UnitaryMatrix.random(k, [rad[q] for q in loc])
        g = ConstantUnitaryGate(U)
        if rng.random()<0.3 and c.num_cycles: c.insert_gate(rng.randint(0,c.num_cycles), g, loc)
        else: c.append_gate(g, loc)
    if rng.random()<0.5 and c.num_operations>1:
        try: c.fold({q:(0, rng.randint(0,c.num_cycles-1)) for q in rng.sample(range(n), rng.randint(1,n))})
        except ValueError: pass
    d = np.abs(ref_unitary(c) - c.get_unitary().numpy).max()
    st['unitary ok' if d<1e-9 else 'UNITARY MISMATCH']+=1
    c2 = pickle.loads(pickle.dumps(c))
    same_grid = c2.num_cycles==c.num_cycles and all((c.is_point_idle((i,q)) and c2.is_point_idle((i,q))) or (not c.is_point_idle((i,q)) and not c2.is_point_idle((i,q)) and c[i,q]==c2[i,q]) for i in range(c.num_cycles) for q in range(n))
    st['pickle grid ok' if same_grid else 'PICKLE GRID DIFF']+=1
    st['eq' if c==c2 else 'NEQ']+=1
print(dict(st))
