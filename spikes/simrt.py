"""Spike: single-threaded deterministic simulation of the BQSKit runtime."""
import logging, random, collections, pickle, sys, os
from contextlib import contextmanager
import bqskit.runtime.worker as wmod
import bqskit.runtime.base as bmod
import bqskit.runtime.detached as dmod
from bqskit.runtime.message import RuntimeMessage as M
from bqskit.runtime.direction import MessageDirection as D
from bqskit.runtime.worker import Worker
from bqskit.runtime.detached import DetachedServer
from bqskit.runtime.base import ServerBase, RuntimeEmployee

import threading
TL = threading.local()
wmod.get_worker = lambda: TL.worker
class Yield(BaseException): pass
class WouldBlock(BaseException): pass
class StopLoop(BaseException): pass
class ProcessExit(BaseException): pass

class Chan:
    """One direction of a duplex link: FIFO of pickled messages."""
    def __init__(self, name): self.name=name; self.q=collections.deque(); self.closed=False

class FakeConn:
    def __init__(self, out: Chan, inn: Chan, name=''):
        self.out, self.inn, self.name = out, inn, name
        self.closed = False
        self._deliver = None
    def send(self, obj):
        if self.closed: raise OSError('handle is closed')
        if self.out.closed: raise ConnectionResetError('peer closed')
        self.out.q.append(pickle.dumps(obj))
    def recv(self):
        if self._deliver is None: raise StopLoop()
        m, self._deliver = self._deliver, None
        return m
    def poll(self, t=0): return len(self.inn.q) > 0
    def close(self): self.closed = True; self.out.closed = True
    def fileno(self): return -1
    def __hash__(self): return id(self)

def link(a, b):
    ab, ba = Chan(f'{a}->{b}'), Chan(f'{b}->{a}')
    return FakeConn(ab, ba, f'{a}@{b}'), FakeConn(ba, ab, f'{b}@{a}')

class SimQueue:
    """Replaces Worker._ready_task_ids."""
    def __init__(self): self.q=collections.deque(); self.budget=0; self.blocked=False
    def put(self, x): self.q.append(x)
    def empty(self):
        if self.budget <= 0: raise Yield()
        return len(self.q)==0
    def get_nowait(self):
        from queue import Empty
        if not self.q: raise Empty()
        self.budget -= 1
        return self.q.popleft()
    def get(self):
        self.blocked = True
        raise WouldBlock()

class OutQueue:
    def __init__(self): self.q=collections.deque()
    def put(self, x): self.q.append(x)
    def get(self):
        if not self.q: raise StopLoop()
        return self.q.popleft()
    def task_done(self): pass

class StubThread:
    def __init__(self, *a, **k): self.daemon=True
    def start(self): pass
    def is_alive(self): return False
    def join(self): pass

class FakeSel:
    def register(self,*a): pass
    def unregister(self,*a): pass
    def close(self): pass

@contextmanager
def patched(mod, **kw):
    old = {k: getattr(mod, k) for k in kw}
    for k,v in kw.items(): setattr(mod, k, v)
    try: yield
    finally:
        for k,v in old.items(): setattr(mod, k, v)

class Sim:
    def __init__(self, nworkers, rng):
        self.rng = rng
        self.log = []
        fac = logging.getLogRecordFactory()
        # server
        with patched(bmod, Thread=StubThread):
            import signal as _s
            with patched(_s, signal=lambda *a: None):
                self.server = DetachedServer.__new__(DetachedServer)
                ServerBase.__init__(self.server)
        s = self.server
        s.sel = FakeSel(); s.outgoing = OutQueue()
        s.clients = {}; s.tasks = {}; s.mailbox_to_task_dict = {}; s.mailboxes = {}; s.mailbox_counter = 0
        self.workers = []; self.wconn = []
        for i in range(nworkers):
            sc, wc = link('S', f'W{i}')
            with patched(wmod, Thread=StubThread):
                w = Worker(i, wc)
            logging.setLogRecordFactory(fac)
            w._ready_task_ids = SimQueue()
            self.workers.append(w); self.wconn.append((sc, wc))
            # server consumes STARTED
            assert pickle.loads(wc.out.q.popleft()) == (M.STARTED, i)
            e = RuntimeEmployee(i, sc, 1)
            s.employees.append(e); s.conn_to_employee_dict[sc] = e
        s.step_size = 1; s.total_workers = nworkers; s.num_idle_workers = nworkers
        self.sclient, self.cclient = link('S', 'C')
        s.clients[self.sclient] = set()
        self.server_dead = False

    # ---- enabled actions
    def actions(self):
        acts = []
        for i,(sc,wc) in enumerate(self.wconn):
            if wc.out.q: acts.append(('srv_recv_w', i))
            if sc.out.q: acts.append(('w_recv', i))
            w = self.workers[i]; q = w._ready_task_ids
            if not q.blocked or q.q or w._delayed_tasks: acts.append(('w_step', i))
        if self.cclient.out.q: acts.append(('srv_recv_c',))
        return acts

    def flush_server(self):
        try: self.server.send_outgoing()
        except StopLoop: pass

    def do(self, act):
        self.log.append(act)
        s = self.server
        if act[0] == 'srv_recv_w':
            sc, wc = self.wconn[act[1]]
            msg, payload = pickle.loads(wc.out.q.popleft())
            self.log[-1] = act + (msg.name,)
            s.handle_message(msg, D.BELOW, sc, payload); self.flush_server()
        elif act[0] == 'srv_recv_c':
            msg, payload = pickle.loads(self.cclient.out.q.popleft())
            self.log[-1] = act + (msg.name,)
            s.handle_message(msg, D.CLIENT, self.sclient, payload); self.flush_server()
        elif act[0] == 'w_recv':
            sc, wc = self.wconn[act[1]]
            wc._deliver = pickle.loads(sc.out.q.popleft())
            self.log[-1] = act + (wc._deliver[0].name,)
            try: self.workers[act[1]].recv_incoming()
            except StopLoop: pass
        elif act[0] == 'w_step':
            w = self.workers[act[1]]; q = w._ready_task_ids
            q.budget = 1; q.blocked = False
            TL.worker = w
            try: w._loop()
            except Yield: pass
            except WouldBlock: pass
            finally: TL.worker = None

    def run_until_client_msg(self, maxsteps=100000):
        for _ in range(maxsteps):
            if self.cclient.inn.q:
                return pickle.loads(self.cclient.inn.q.popleft())
            acts = self.actions()
            if not acts: return None   # quiescent: hang
            self.do(self.rng.choice(acts))
        raise RuntimeError('step bound')
