"""Spike: real ServerBase.run() single-stepped, real Compiler client pumping the sim,
manager topology, crash -> EOF."""
import warnings; warnings.filterwarnings('ignore')
import random, sys, time, collections, uuid
from simrt import *
import bqskit.runtime.manager as mmod
from bqskit.runtime.manager import Manager
from bqskit.compiler.compiler import Compiler
from bqskit.compiler.basepass import BasePass
from bqskit.ir.circuit import Circuit
from bqskit.runtime import get_runtime
import types

class Key:  # selector key
    def __init__(self, fileobj, data): self.fileobj=fileobj; self.data=data

class StepSel:
    """select() yields one scheduled event, then stops run() without its finally-shutdown."""
    def __init__(self, node): self.node=node; self.event=None
    def register(self,*a): pass
    def unregister(self,*a): pass
    def close(self): pass
    def select(self):
        if self.event is None:
            node=self.node
            def once():  # swallow exactly the finally: handle_shutdown() of this unwinding
                del node.handle_shutdown
            node.handle_shutdown = once
            raise StopLoop()
        e, self.event = self.event, None
        return [(e, None)]

def step_run(node, conn, direction):
    node.sel.event = Key(conn, direction)
    try: node.run()
    except StopLoop: pass

class EOFConn(FakeConn):
    pass

def leaf(x): return ('leaf', x)
class P(BasePass):
    async def run(self, circuit, data):
        data['res'] = await get_runtime().map(leaf, [1,2,3,4,5])

if __name__ == '__main__':
    import bqskit.runtime.detached as dmod2, bqskit.runtime.base as bmod2
    bmod2.time.sleep = lambda s: None
    stats = collections.Counter()
    orig_recv = FakeConn.recv
    def recv(self):
        if self._deliver == 'EOF': self._deliver=None; raise EOFError()
        return orig_recv(self)
    FakeConn.recv = recv
    for seed in range(200):
        rng = random.Random(seed)
        sim = Sim(rng.randint(1,3), rng)
        s = sim.server; s.sel = StepSel(s)
        # deliver via real run()
        def do(act, sim=sim, s=s):
            sim.log.append(act)
            if act[0]=='srv_recv_w':
                sc, wc = sim.wconn[act[1]]
                if wc.out.q: sc._deliver = pickle.loads(wc.out.q.popleft())
                else: sc._deliver = 'EOF'
                step_run(s, sc, D.BELOW); sim.flush_server()
            elif act[0]=='srv_recv_c':
                sim.sclient._deliver = pickle.loads(sim.cclient.out.q.popleft())
                step_run(s, sim.sclient, D.CLIENT); sim.flush_server()
            else: Sim.do(sim, act); sim.log.pop()
        # FakeConn.recv: support EOF marker
        # real Compiler over fake conn; recv pumps
        comp = Compiler.__new__(Compiler); comp.p=None
        class ClientConn:
            closed=False
            def send(self_, obj): sim.cclient.send(obj)
            def poll(self_, t=0): return len(sim.cclient.inn.q)>0
            def recv(self_):
                for _ in range(100000):
                    if sim.cclient.inn.q: return pickle.loads(sim.cclient.inn.q.popleft())
                    if sim.sclient.closed: raise EOFError()
                    acts = sim.actions()
                    if not s.running: acts=[a for a in acts if not a[0].startswith('srv')]
                    if not acts: raise TimeoutError('HANG')
                    do(rng.choice(acts))
            def close(self_): self_.closed=True
        comp.conn = ClientConn()
        try:
            tid = comp.submit(Circuit(1), [P()], request_data=True)
            mode = rng.choice(['plain','status_after','cancel_after','unknown_status','crash'])
            if mode=='crash':
                # crash worker 0 after k random actions
                for _ in range(rng.randint(0,15)):
                    acts=sim.actions()
                    if acts: do(rng.choice(acts))
                sc,wc = sim.wconn[0]
                sim.workers[0]._running=False
                # worker stops acting; server will see EOF after buffered msgs
                orig_actions = sim.actions
                def actions2():
                    a=[x for x in orig_actions() if not (x[0] in ('w_step','w_recv') and x[1]==0)]
                    if s.running and ('srv_recv_w',0) not in a and not sc.closed: a.append(('srv_recv_w',0))
                    return a
                sim.actions = actions2
            out = comp.result(tid)
            assert out[1]['res']==[('leaf',i) for i in [1,2,3,4,5]]
            if mode=='status_after': stats['status_after -> '+str(comp.status(tid))]+=1
            elif mode=='cancel_after': stats['cancel_after -> '+str(comp.cancel(tid))]+=1
            elif mode=='unknown_status': stats['unknown -> '+str(comp.status(uuid.uuid4()))]+=1
            else: stats[mode+' ok']+=1
        except Exception as e:
            stats[mode+' EXC '+type(e).__name__+': '+str(e).strip().splitlines()[-1][:70]]+=1
        stats['server_running_after=%s'%s.running]+=1
    for k,v in sorted(stats.items()): print(v,k)
