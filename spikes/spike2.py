import warnings; warnings.filterwarnings('ignore')
import random, sys, time, collections
from bqskit.ir.circuit import Circuit
from simrt import *
from bqskit.compiler.task import CompilationTask
from bqskit.compiler.basepass import BasePass
from bqskit.runtime import get_runtime

def leaf(x): return ('leaf', x)
async def mid(x):
    r = await get_runtime().map(leaf, [x*10+i for i in range(3)])
    return ('mid', x, r)

class P(BasePass):
    async def run(self, circuit, data):
        rt = get_runtime()
        fut = rt.map(mid, [1,2,3,4])
        first = await rt.next(fut)
        rt.cancel(fut)
        data['res'] = first

if __name__ == '__main__':
    t0=time.time(); stats = collections.Counter()
    for seed in range(1000):
        rng = random.Random(seed)
        sim = Sim(rng.randint(1,4), rng)
        task = CompilationTask(Circuit(1), [P()]); task.request_data = True
        sim.cclient.send((M.SUBMIT, task))
        sim.cclient.send((M.REQUEST, task.task_id))
        try:
            out = sim.run_until_client_msg()
        except Exception as e:
            stats['EXC '+type(e).__name__+str(e)[:60]] += 1; continue
        if out is None: stats['HANG']+=1; continue
        msg, payload = out
        if msg != M.RESULT: stats['ERR '+str(payload)[-150:]] += 1; continue
        res = payload[1]['res']
        ok = all(r == ('mid', i+1, [('leaf', (i+1)*10+k) for k in range(3)]) for i, r in res) and len(res) >= 1
        if not ok: stats['WRONG'] += 1
        try:
            while True:
                acts = sim.actions()
                if not acts: break
                sim.do(rng.choice(acts))
        except Exception as e:
            stats['EXC-drain '+type(e).__name__+str(e)[:60]] += 1; continue
        s = sim.server
        bad = [(e.id, e.num_tasks, e.num_idle_workers) for e in s.employees if e.num_tasks != 0 or e.num_idle_workers != 1]
        if bad or s.num_idle_workers != s.total_workers: stats['BOOKKEEPING'] += 1
        left = [(w._id, list(w._tasks), list(w._mailboxes), len(w._delayed_tasks)) for w in sim.workers if w._tasks or w._mailboxes or w._delayed_tasks]
        if left: stats['LEFTOVER'] += 1
        stats['done'] += 1
    print(time.time()-t0); 
    for k,v in stats.items(): print(v, k)
