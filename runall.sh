#!/bin/bash
# Run every registered quick check once (or the ids given) and summarise.
cd "$(dirname "$0")"
ids="$@"
if [ -z "$ids" ]; then
  ids=$(/venv/bin/python -c "import json;print(' '.join(c['property_id'] for c in json.load(open('MANIFEST.json'))['checks']))")
fi
mkdir -p out/logs
for id in $ids; do
  s=$(date +%s)
  ./check $id --tier ${TIER:-quick} $EXTRA > out/logs/$id.log 2>&1
  rc=$?
  e=$(date +%s)
  echo "$id exit=$rc wall=$((e-s))s $(grep -c '^VIOLATION' out/logs/$id.log) violations, $(grep -c '^KNOWN-FINDING' out/logs/$id.log) known; $(grep -o 'cases=[0-9]* evaluations=[0-9]* distinct_nontrivial=[0-9]*.*budget_exhausted=[A-Za-z]*' out/logs/$id.log | head -1)"
done
